/-
Model of `windows._to_bound_call` / `_to_between_call` (how a ROWS / RANGE frame becomes
`{"min": …, "max": …}`) and of the frame branch of `Formatter.value` (how such a dict is written).
Offsets are arbitrary naturals.
-/
namespace MoSql.Window

inductive Bound where
  | current
  | unboundedPreceding
  | unboundedFollowing
  | preceding (n : Nat)
  | following (n : Nat)
  deriving DecidableEq, Repr

inductive FrameSyn where
  | single (b : Bound)                 -- ROWS <bound>
  | between (lo hi : Bound)            -- ROWS BETWEEN <bound> AND <bound>
  deriving DecidableEq, Repr

/-- a frame dict; `none` = key absent (scrub drops `None`) -/
structure Frame where
  min : Option Int
  max : Option Int
  deriving DecidableEq, Repr

/-- `_to_bound_call` -/
def toBound : Bound → Frame
  | .current => ⟨some 0, some 0⟩
  | .unboundedPreceding => ⟨none, some 0⟩
  | .preceding n => ⟨some (-(n : Int)), some 0⟩
  | .unboundedFollowing => ⟨some 0, none⟩
  | .following n => ⟨some 0, some n⟩

/-- `_to_between_call` -/
def toBetween (minn maxx : Frame) : Frame :=
  if maxx.max == some 0 then ⟨minn.min, maxx.min⟩
  else if minn.min == some 0 then ⟨minn.max, maxx.max⟩
  else ⟨minn.min, maxx.max⟩

def parseFrame : FrameSyn → Frame
  | .single b => toBound b
  | .between lo hi => toBetween (toBound lo) (toBound hi)

/-! ### what the property demands -/

/-- PRECEDING negative, FOLLOWING positive, CURRENT ROW zero, UNBOUNDED absent -/
def value : Bound → Option Int
  | .current => some 0
  | .unboundedPreceding => none
  | .unboundedFollowing => none
  | .preceding n => some (-(n : Int))
  | .following n => some n

/-- a single bound `b` means `BETWEEN b AND CURRENT ROW` for PRECEDING bounds and
`BETWEEN CURRENT ROW AND b` for FOLLOWING bounds -/
def specFrame : FrameSyn → Frame
  | .single .current => ⟨some 0, some 0⟩
  | .single .unboundedPreceding => ⟨none, some 0⟩
  | .single (.preceding n) => ⟨some (-(n : Int)), some 0⟩
  | .single .unboundedFollowing => ⟨some 0, none⟩
  | .single (.following n) => ⟨some 0, some n⟩
  | .between lo hi => ⟨value lo, value hi⟩

/-- position of a bound on the row axis, for "lower ≤ upper" -/
def rank : Bound → Int × Int
  | .unboundedPreceding => (0, 0)
  | .preceding n => (1, -(n : Int))
  | .current => (1, 0)
  | .following n => (1, n)
  | .unboundedFollowing => (2, 0)

def valid : FrameSyn → Bool
  | .single _ => true
  | .between lo hi =>
    lo != .unboundedFollowing && hi != .unboundedPreceding &&
    ((rank lo).1 < (rank hi).1 || ((rank lo).1 == (rank hi).1 && (rank lo).2 ≤ (rank hi).2))

/-! ### the formatter -/

/-- `wordy(v)`; `none` models the `TypeError` the real code would raise for `v == 0` -/
def wordy (v : Int) : Option Bound :=
  if v < 0 then some (.preceding v.natAbs) else if v > 0 then some (.following v.natAbs) else none

/-- the nine branches of `Formatter.value` for `over["range"]`;
outer `none` = the real code raises, `some none` = nothing is written (`window.pop()`) -/
def fmtFrame (f : Frame) : Option (Option FrameSyn) :=
  match f.min, f.max with
  | none, none => some none
  | none, some mx =>
    if mx == 0 then some (some (.single .unboundedPreceding))
    else (wordy mx).map fun b => some (.between .unboundedPreceding b)
  | some mn, omx =>
    if mn == 0 then
      match omx with
      | none => some (some (.single .unboundedFollowing))
      | some mx => if mx == 0 then some (some (.single .current)) else (wordy mx).map fun b => some (.single b)
    else
      match omx with
      | none => (wordy mn).map fun b => some (.between b .unboundedFollowing)
      | some mx =>
        if mx == 0 then (wordy mn).map fun b => some (.single b)
        else
          match wordy mn, wordy mx with
          | some a, some b => some (some (.between a b))
          | _, _ => none

end MoSql.Window
