import MoSql.Json
/-
`Raw`: what the parse actions hand to `utils.scrub` (a tree of `Call`, `SQL_NULL`, lists /
unnamed `ParseResults`, dicts / named `ParseResults`, strings, numbers, None).
`scrub`: model of `utils.scrub` + `simple_op` / `normal_op` + `fmap` + `null_locations`.

`null_locations` holds `(container, key)` pairs by reference and `_parse` later performs
`container[key] = null`.  The model records the same information in the marker itself:
`J.marker true` sits at a position for which a slot was recorded, `J.marker false` at one
that the later assignment does not reach (the real code then leaks the `Call` object).
The one case in which the assignment creates a NEW key (`kwargs[op] = null` under `normal_op`,
where the marker itself is stored in `args`) is modelled by adding that key at scrub time.
-/
namespace MoSql

inductive Raw where
  | none
  | str (s : String)
  | int (i : Int)
  | flt (s : String)
  | bool (b : Bool)
  | sqlNull
  | call (op : String) (args : Raw) (kw : List (String × Raw))
  | list (xs : List Raw)
  | grp (r : Raw)                       -- one `Group` layer around a single token
  | dict (kvs : List (String × Raw))
  | crash (what : String)               -- a parse action raised something that is not a ParseException
  deriving Repr, Inhabited

inductive Mode where
  | simple | normal
  deriving DecidableEq, Repr

structure Cfg where
  mode : Mode := .simple
  fmap : List (String × String) := []

def Cfg.rename (c : Cfg) (op : String) : String :=
  match c.fmap.find? (fun kv => kv.1 == op) with
  | some kv => kv.2
  | none => op

namespace Scrub

/-- a marker that ends up in a list / dict gets its slot recorded by the container -/
def mark : J → J
  | .marker _ => .marker true
  | j => j

def unmark : J → J
  | .marker _ => .marker false
  | j => j

/-- list case of `scrub`: drop `None`, `[] → None`, `[x] → x`, otherwise record marker slots -/
def collapse (xs : List J) : J :=
  match xs.filter (fun j => !j.isNull) with
  | [] => .null
  | [x] => x
  | ys => .arr (ys.map mark)

/-- `listwrap` -/
def listwrap : J → List J
  | .null => []
  | .arr xs => xs
  | j => [j]

def isEmptyDict : J → Bool
  | .obj [] => true
  | _ => false

/-- `kwargs[k] = v` in `simple_op`.  If `kwargs[k]` already held a recorded NULL slot, the later
`o[n] = null` of `_parse` overwrites whatever is stored now: the slot wins. -/
def setKeySlot (kw : List (String × J)) (k : String) (v : J) : List (String × J) :=
  match J.getKey kw k with
  | some (.marker true) => kw
  | _ => J.setKey kw k v

/-- `scrub_op(fmap.get(op, op), args, kwargs)` together with the slot `(kwargs, op)` that
`scrub` records when `args is SQL_NULL` -/
def applyOp (c : Cfg) (op : String) (a : J) (kw : List (String × J)) : J :=
  let name := c.rename op
  match c.mode with
  | .simple =>
    match a with
    | .marker _ => .obj (J.setKey kw name (.marker true))
    | .null => .obj (setKeySlot kw name (.obj []))
    | _ => .obj (setKeySlot kw name a)
  | .normal =>
    let args := listwrap a
    let kw' := if a.isMarker then (if kw.isEmpty then kw else J.setKey kw name (.marker true)) else kw
    let args' := if a.isMarker then [J.marker false] else args
    -- `if args and (not isinstance(args[0], dict) or args[0])`: `args` is a mo_dots FlatList whose
    -- `__getitem__` wraps dicts into `Data` (not a `dict`), so the test reduces to `if args`
    let withArgs : List (String × J) :=
      match args' with
      | [] => []
      | _ :: _ => [("args", .arr args')]
    let withKw : List (String × J) := if kw'.isEmpty then [] else [("kwargs", .obj kw')]
    .obj ([("op", .str name)] ++ withArgs ++ withKw)

mutual
def scrub (c : Cfg) : Raw → J
  | .none => .null
  | .str s => .str s
  | .int i => .int i
  | .flt s => .flt s
  | .bool b => .bool b
  | .sqlNull => .marker false
  | .call op args kw => applyOp c op (scrub c args) (scrubKw c kw)
  | .list xs => collapse (scrubList c xs)
  | .grp r => collapse [scrub c r]
  | .dict kvs => .obj (scrubKw c kvs)
  | .crash w => .opaque ("crash:" ++ w)
def scrubList (c : Cfg) : List Raw → List J
  | [] => []
  | r :: rs => scrub c r :: scrubList c rs
def scrubKw (c : Cfg) : List (String × Raw) → List (String × J)
  | [] => []
  | (k, r) :: rest =>
    let v := scrub c r
    if v.isNull then scrubKw c rest else (k, mark v) :: scrubKw c rest
end

/- `for o, n in null_locations: o[n] = null` -/
mutual
def finalize (x : J) : J → J
  | .marker true => x
  | .marker false => .opaque "Call"
  | .arr xs => .arr (finalizeList x xs)
  | .obj kvs => .obj (finalizeKvs x kvs)
  | j => j
def finalizeList (x : J) : List J → List J
  | [] => []
  | j :: js => finalize x j :: finalizeList x js
def finalizeKvs (x : J) : List (String × J) → List (String × J)
  | [] => []
  | (k, j) :: rest => (k, finalize x j) :: finalizeKvs x rest
end

def sqlNullNode : J := .obj [("null", .obj [])]

/-- `scrub` + slot substitution, as `_parse` does for one statement -/
def run (c : Cfg) (x : J) (r : Raw) : J := finalize x (scrub c r)

/-- Python truthiness of a result (`if not output: continue` in `_parse`) -/
def falsy : J → Bool
  | .null => true
  | .bool b => !b
  | .int i => i == 0
  | .flt s => s == "0.0" || s == "-0.0"
  | .str s => s == ""
  | .arr xs => xs.isEmpty
  | .obj kvs => kvs.isEmpty
  | _ => false

/-- one statement through `_parse`: scrub, substitute, drop an empty result -/
def parse1 (c : Cfg) (x : J) (r : Raw) : J :=
  let out := scrub c r
  if falsy out then .null else finalize x out

end Scrub
end MoSql
