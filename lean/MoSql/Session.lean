/-
Model of the module state behind the four parse entry points (`mo_sql_parsing/__init__.py`):

* parse-scoped globals of `mo_sql_parsing.utils` (`null_locations`, `scrub_op`, `fmap`): a call is a
  straight-line program of `set g` (install this call's own value for `g`) and `use g` (the result may
  depend on what is stored in `g`), bracketed by `acq` / `rel` of `parse_locker`.  The program of each
  entry point is regenerated from the source's AST on every run (`MoSql.Gen.Effects`).
* the parser cache `lookup_parsers[(dialect, all_columns)]`, filled lazily.

The matcher and the parse actions are NOT modelled: the result of a call is an arbitrary function of
the parser that was looked up, the call's arguments and the values it observed in the globals.
-/
namespace MoSql.Session

inductive Instr where
  | acq | rel
  | set (g : String)
  | use (g : String)
  | touch (g : String)     -- read-modify-write of persistent shared state (the parser cache, a parser build): needs the lock, is never reset
  deriving DecidableEq, Repr

abbrev Val := Nat
abbrev Store := String → Val

/-- run a call's program: `a g` is the value this call installs into global `g`; the trace is the
list of values the call observed -/
def run (a : String → Val) : List Instr → Store → List Val → Store × List Val
  | [], s, tr => (s, tr)
  | .set g :: p, s, tr => run a p (fun x => if x = g then a g else s x) tr
  | .use g :: p, s, tr => run a p s (tr ++ [s g])
  | _ :: p, s, tr => run a p s tr

/-- every `use` of a global is preceded, in the same program, by a `set` of it (`d`: already set) -/
def resetBeforeUse : List String → List Instr → Bool
  | _, [] => true
  | d, .set g :: p => resetBeforeUse (g :: d) p
  | d, .use g :: p => d.contains g && resetBeforeUse d p
  | d, _ :: p => resetBeforeUse d p

/-- every access to a global happens while the lock is held, the lock is taken at most once at a time
and released at the end (`held`: lock currently held by this program) -/
def lockCovers : Bool → List Instr → Bool
  | held, [] => !held
  | held, .acq :: p => !held && lockCovers true p
  | held, .rel :: p => held && lockCovers false p
  | held, .set _ :: p => held && lockCovers held p
  | held, .use _ :: p => held && lockCovers held p
  | held, .touch _ :: p => held && lockCovers held p

/-! ### the parser cache -/
structure Key where
  dialect : String
  allColumns : Bool
  deriving DecidableEq, Repr

abbrev Parser := Nat

structure State where
  cache : Key → Option Parser
  store : Store

structure Call where
  key : Key
  args : String → Val
  prog : List Instr

/-- `_get_or_create_parser`: look the parser up, build and remember it when absent -/
def lookup (build : Key → Parser) (c : Key → Option Parser) (k : Key) : Parser × (Key → Option Parser) :=
  match c k with
  | some p => (p, c)
  | none => (build k, fun k' => if k' = k then some (build k) else c k')

/-- one call: the observable outcome is (parser used, values observed) — the tree / exception is a
function of these and of the call's own arguments.  A call that raises leaves the same state behind
as one that returns (nothing is rolled back), so it needs no separate case. -/
def step (build : Key → Parser) (s : State) (c : Call) : State × (Parser × List Val) :=
  let (p, cache') := lookup build s.cache c.key
  let (store', tr) := run c.args c.prog s.store []
  ({ cache := cache', store := store' }, (p, tr))

def init (s0 : Store) : State := { cache := fun _ => none, store := s0 }

def after (build : Key → Parser) (s : State) (cs : List Call) : State :=
  cs.foldl (fun st c => (step build st c).1) s

/-! ### threads: arbitrary interleavings of calls under one lock -/

/-- lock discipline and reset-before-use per critical section, in one pass: every access happens
while the lock is held (`h`), the lock is not taken twice, is released at the end, and every `use` is
preceded by a `set` of the same global *inside the same critical section* (`d`) -/
def sectionOK : Bool → List String → List Instr → Bool
  | h, _, [] => !h
  | h, _, .acq :: p => !h && sectionOK true [] p
  | h, _, .rel :: p => h && sectionOK false [] p
  | h, d, .set g :: p => h && sectionOK h (g :: d) p
  | h, d, .use g :: p => h && d.contains g && sectionOK h d p
  | h, d, .touch _ :: p => h && sectionOK h d p

structure Thread where
  todo : List Instr
  tr : List Val

structure Sys where
  store : Store
  owner : Option Nat
  th : Nat → Thread

def upd (f : Nat → Thread) (t : Nat) (x : Thread) : Nat → Thread := fun i => if i = t then x else f i

/-- thread `t` executes its next instruction (`acq` blocks — the step stutters — while the lock is held) -/
def stepT (args : Nat → String → Val) (s : Sys) (t : Nat) : Sys :=
  match (s.th t).todo with
  | [] => s
  | .acq :: p =>
    if s.owner = none then { s with owner := some t, th := upd s.th t { todo := p, tr := (s.th t).tr } } else s
  | .rel :: p => { s with owner := none, th := upd s.th t { todo := p, tr := (s.th t).tr } }
  | .set g :: p =>
    { s with store := fun y => if y = g then args t g else s.store y, th := upd s.th t { todo := p, tr := (s.th t).tr } }
  | .use g :: p => { s with th := upd s.th t { todo := p, tr := (s.th t).tr ++ [s.store g] } }
  | .touch _ :: p => { s with th := upd s.th t { todo := p, tr := (s.th t).tr } }

def runSched (args : Nat → String → Val) (s : Sys) (sched : List Nat) : Sys := sched.foldl (stepT args) s

def sysInit (prog : Nat → List Instr) (s0 : Store) : Sys :=
  { store := s0, owner := none, th := fun t => { todo := prog t, tr := [] } }

end MoSql.Session
