/-
Model of the comment-aware whitespace engine built in `sql_parser.parser()`; the real engine is the
regular expression  (?:W*(?:--[^\n]*|#[^\n]*|/\*(.*?\*/)))*W*  with W = [\t\n\r ] (DOTALL),
pinned by `Gen.Lexemes` / the correspondence:
white characters " \n\r\t" plus three ignored forms — `-- … <end of line>`, `# … <end of line>`,
`/* … */` (an unterminated block comment is not a comment: skipping stops in front of it).
`skip` returns what is left of the text after skipping.
-/
namespace MoSql.Skip

def isWhite (c : Char) : Bool := c == ' ' || c == '\n' || c == '\r' || c == '\t'

inductive Mode where
  | N   -- between tokens
  | L   -- inside a `--` / `#` comment: up to the end of the line
  | B   -- inside `/* … */`
  deriving DecidableEq, Repr

/-- `none` only in mode `B`: the text ends before the comment is closed -/
def go : Mode → List Char → Option (List Char)
  | .N, [] => some []
  | .N, [c] => if isWhite c || c == '#' then some [] else some [c]
  | .N, c :: c2 :: cs =>
    if isWhite c then go .N (c2 :: cs)
    else if c == '#' then go .L (c2 :: cs)
    else if c == '-' && c2 == '-' then go .L cs
    else if c == '/' && c2 == '*' then
      match go .B cs with
      | some r => some r
      | none => some (c :: c2 :: cs)          -- unterminated: not a comment
    else some (c :: c2 :: cs)
  | .L, [] => some []
  | .L, c :: cs => if c == '\n' then go .N cs else go .L cs
  | .B, [] => none
  | .B, [_] => none
  | .B, c :: c2 :: cs => if c == '*' && c2 == '/' then go .N cs else go .B (c2 :: cs)

def goN := go .N
def goL := go .L
def goB := go .B

def skip (cs : List Char) : List Char := (goN cs).getD cs

/-- number of characters skipped at the front of `s` -/
def skipCount (s : String) : Nat := s.toList.length - (skip s.toList).length

end MoSql.Skip
