/-
Model of how `Formatter` writes the list of sources after FROM (`formatting.Formatter._sources` / `_join_on`):
plain sources are separated by commas, an explicit join follows what is before it without a comma, and a
parenthesised group of sources (a list inside the list, or the list-valued target of a join) is written in round
brackets in the same way.  What a single source is (table, alias, sub-query) and what a condition says stay opaque.
-/
namespace MoSql.Sources

inductive Tok where
  | name (s : String)          -- a source that is not a group, as text
  | lp | rp | comma
  | join (kind : String)       -- JOIN, LEFT JOIN, CROSS JOIN, …
  | on (k : Nat)               -- ON <condition k>
  | using (k : Nat)            -- USING <columns k>
  deriving DecidableEq, Repr

inductive Cond where
  | none | on (k : Nat) | using (k : Nat)
  deriving DecidableEq, Repr

mutual
  inductive Src where
    | tbl (n : String)
    | group (items : List Item)
  inductive Item where
    | plain (s : Src)
    | join (kind : String) (s : Src) (c : Cond)
end

def fmtCond : Cond → List Tok
  | .none => []
  | .on k => [.on k]
  | .using k => [.using k]

mutual
  /-- `dispatch(source)` for a plain source, `(…)` around `_sources(group)` for a list -/
  def fmtSrc : Src → List Tok
    | .tbl n => [.name n]
    | .group items => [.lp] ++ fmtItems items [] ++ [.rp]
  /-- the loop of `_sources`; `acc` is `rest` -/
  def fmtItems : List Item → List Tok → List Tok
    | [], acc => acc
    | .plain s :: more, acc => fmtItems more (if acc.isEmpty then fmtSrc s else acc ++ [.comma] ++ fmtSrc s)
    | .join k s c :: more, acc => fmtItems more (acc ++ [.join k] ++ fmtSrc s ++ fmtCond c)
end

/-- what is written after FROM for a list of sources -/
def fmt (items : List Item) : List Tok := fmtItems items []

/-! ### what a well-written list looks like -/

/-- bracket depth stays ≥ 0 and ends at `d` … -/
def balancedFrom : Nat → List Tok → Option Nat
  | d, [] => some d
  | d, .lp :: ts => balancedFrom (d + 1) ts
  | 0, .rp :: _ => none
  | d + 1, .rp :: ts => balancedFrom d ts
  | d, _ :: ts => balancedFrom d ts

def balanced (ts : List Tok) : Bool := balancedFrom 0 ts == some 0

/-- where the reader of a source list is: at the very start, just behind `(`, behind a comma, behind a join word, or
behind something complete (a source, a closed group, a condition) -/
inductive St where
  | start | afterOpen | afterComma | afterJoin | closed
  deriving DecidableEq, Repr

/-- one token: a source or `(` may stand wherever something is expected; `)` closes a group (also an empty one); a comma
needs something complete before it; a join word may follow something complete or open the list; a condition follows
something complete.  Anything else — a comma first, behind `(`, behind another comma; a join word or `)` behind a comma;
two sources side by side — is refused. -/
def step : St → Tok → Option St
  | .closed, .name _ => none
  | _, .name _ => some .closed
  | .closed, .lp => none
  | _, .lp => some .afterOpen
  | .closed, .rp => some .closed
  | .afterOpen, .rp => some .closed
  | _, .rp => none
  | .closed, .comma => some .afterComma
  | _, .comma => none
  | .closed, .join _ => some .afterJoin
  | .start, .join _ => some .afterJoin
  | .afterOpen, .join _ => some .afterJoin
  | _, .join _ => none
  | .closed, .on _ => some .closed
  | .closed, .using _ => some .closed
  | _, .on _ => none
  | _, .using _ => none

def scan : St → List Tok → Option St
  | st, [] => some st
  | st, t :: ts => (step st t).bind (fun st' => scan st' ts)

/-- the separators of a written list are in order (brackets are counted by `balanced`) -/
def wellSeparated (ts : List Tok) : Bool := (scan .start ts).isSome

end MoSql.Sources
