import MoSql.Json
/-
Model of `utils.to_union_call`: how a chain `s₀ op₁ s₁ op₂ s₂ …` of set operations is folded
into a tree, and how a trailing ORDER BY / LIMIT / OFFSET is attached.
Operands are the already-built trees of the operand queries.
-/
namespace MoSql.Query
open MoSql

/-- `"union" in op` -/
def isUnionOp (op : String) : Bool := (op.splitOn "union").length > 1

/-- one iteration of the `for op, so in zip(operators, sources[1:])` loop -/
def step (acc : J) (last : Option String) (op : String) (so : J) : J :=
  if last == some op && isUnionOp op then
    match acc with
    | .obj [(k, .arr xs)] => .obj [(k, .arr (xs ++ [so]))]     -- acc[op].append(so)
    | j => j
  else .obj [(op, .arr [acc, so])]

def fold (acc : J) (last : Option String) : List (String × J) → J
  | [] => acc
  | (op, so) :: rest => fold (step acc last op so) (some op) rest

/-- clauses that scrub later drops when absent are passed as `J.null` -/
def toUnionCall (first : J) (rest : List (String × J)) (orderby limit offset : J) : J :=
  let acc := fold first none rest
  if orderby.isNull && offset.isNull && limit.isNull then acc
  else .obj ([("from", acc)] ++ (if orderby.isNull then [] else [("orderby", orderby)])
        ++ (if limit.isNull then [] else [("limit", limit)])
        ++ (if offset.isNull then [] else [("offset", offset)]))

/-! ### what the property demands -/

def sameOp (op : String) (p : String × J) : Bool := p.1 == op

/-- left-to-right grouping; a maximal run of one UNION-kind operator written at this level is one
n-ary node; everything else is a binary node over what came before -/
def spec (acc : J) : (fuel : Nat) → List (String × J) → J
  | 0, _ => acc
  | _, [] => acc
  | fuel + 1, (op, so) :: rest =>
    if isUnionOp op then
      spec (.obj [(op, .arr ([acc, so] ++ (rest.takeWhile (sameOp op)).map (·.2)))]) fuel
        (rest.dropWhile (sameOp op))
    else spec (.obj [(op, .arr [acc, so])]) fuel rest

end MoSql.Query
