/-
`many_command` (`sql_parser.py`):  ZeroOrMore(;) + Optional(statement) + ZeroOrMore(OneOrMore(;) + Optional(statement)),
run with parse_all=True, over a token list in which every statement is one chunk (a statement never
contains a top-level `;` token: a `;` inside a literal, quoted name or comment is not a token).
The PEG is deterministic on such tokens; `go` is its automaton: `afterStmt` = a statement was just read
and a separator is required before the next one.
-/
namespace MoSql.ManyCommand

inductive Tk (S : Type) where
  | semi
  | stmt (s : S)

variable {S : Type}

def go : Bool → List (Tk S) → Option (List S)
  | _, [] => some []
  | _, .semi :: ts => go false ts
  | true, .stmt _ :: _ => none                      -- two statements without `;`: parse_all fails
  | false, .stmt s :: ts => (go true ts).map (s :: ·)

def manyCommand (ts : List (Tk S)) : Option (List S) := go false ts

def semis (n : Nat) : List (Tk S) := List.replicate n .semi

/-- statements, each followed by its run of semicolons -/
def body : List (S × Nat) → List (Tk S)
  | [] => []
  | (s, n) :: rest => .stmt s :: (semis n ++ body rest)

/-- every statement but the last is followed by at least one semicolon -/
def separated : List (S × Nat) → Bool
  | [] => true
  | [_] => true
  | (_, n) :: x :: rest => decide (0 < n) && separated (x :: rest)

end MoSql.ManyCommand
