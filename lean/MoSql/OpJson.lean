import MoSql.Infix
import MoSql.Scrub
/-
Model of the parse actions attached to the operator levels:
`utils.to_json_operator` (act 0), `utils.to_offset` (act 1), `utils.to_window_mod` (act 2).
-/
namespace MoSql.OpJson
open MoSql.Infix

/-- `mo_parsing.utils.is_number` on what can sit next to a sign: numbers (`float(s)` must
succeed, so integers beyond the binary64 range are "not numbers"), and — because it tries
`float(s)` — the identifiers `inf` / `infinity` in any letter case. -/
def isNumber : Raw → Bool
  | .int i => i.natAbs < 2 ^ 1024 - 2 ^ 970     -- `float(i)` raises OverflowError beyond the binary64 range

  | .flt _ => true
  | .str s => let l := s.toLower; l == "inf" || l == "infinity"
  | _ => false

def negate : Raw → Raw
  | .int i => .int (-i)
  | .flt s => if s.startsWith "-" then .flt (s.drop 1).toString else .flt ("-" ++ s)
  | .str s => .crash ("TypeError: bad operand type for unary -: 'str' (" ++ s ++ ")")
  | r => r

/-- `while isinstance(operand, ParseResults) and isinstance(operand.type, Group): operand = operand[0]` -/
def peel : Raw → Raw
  | .grp r => peel r
  | r => r

def argList : Raw → List Raw
  | .list xs => xs
  | r => [r]

def dictGet (kvs : List (String × Raw)) (k : String) : Option Raw :=
  match kvs.find? (fun kv => kv.1 == k) with
  | some kv => some kv.2
  | none => none

def truthy : Raw → Bool
  | .none => false
  | .list [] => false
  | .dict [] => false
  | .str s => s != ""
  | .int i => i != 0
  | .bool b => b
  | _ => true

/-- the ASSOCIATIVE OPERATORS loop -/
def flattenOperand (op : String) (operand : Raw) : List Raw :=
  match peel operand with
  | .call op' args kw => if op' == op then argList args else [.call op' args kw]
  | .dict kvs =>
    match dictGet kvs op with
    | some v => if truthy v then argList v else [.dict kvs]
    | none => [.dict kvs]
  | r => [r]

/-- the literal set in `to_json_operator` -/
def defaultAssoc : List String := ["add", "mul", "and", "or", "concat", "binary_and", "binary_or"]

def isSqlNull : Raw → Bool
  | .sqlNull => true
  | _ => false

def mkBinary (assoc : List String) (op : String) (a b : Raw) : Raw :=
  if op == "eq" || op == "eq!" then
    if isSqlNull b then .call "missing" a []
    else if isSqlNull a then .call "missing" b []
    else if assoc.contains op then .call op (.list (flattenOperand op a ++ flattenOperand op b)) []
    else .call op (.list [a, b]) []
  else if op == "neq" || op == "ne!" then
    if isSqlNull b then .call "exists" a []
    else if isSqlNull a then .call "exists" b []
    else if assoc.contains op then .call op (.list (flattenOperand op a ++ flattenOperand op b)) []
    else .call op (.list [a, b]) []
  else if op == "regexp_i" then .call "regexp" (.list [a, b]) [("ignore_case", .bool true)]
  else if op == "not_regexp_i" then .call "not_regexp" (.list [a, b]) [("ignore_case", .bool true)]
  else if assoc.contains op then .call op (.list (flattenOperand op a ++ flattenOperand op b)) []
  else .call op (.list [a, b]) []

def mkPrefix (op : String) (x : Raw) : Raw :=
  if isNumber x then
    if op == "neg" then negate x
    else if op == "pos" then x
    else .call op (.list [x]) []
  else .call op (.list [x]) []

def kwOf : Raw → List (String × Raw)
  | .dict kvs => kvs
  | _ => []

/-- A reduced group reaches later reductions as a `Group`-typed `ParseResults` holding the
action's return value: it is never "a number" and never `SQL_NULL` for them. -/
def builders (assoc : List String) : Builders Raw where
  mkPre := fun _ t x => .grp (mkPrefix t.name x)
  mkSuf := fun L x t =>
    if L.act == 1 then .grp (.call "get" (.list (x :: argList t.payload)) [])
    else if L.act == 2 then .grp (.call "value" (.list [x]) (kwOf t.payload))
    else .grp (.call "cast" (.list [x, t.payload]) [])
  mkBin := fun _ a t b => .grp (mkBinary assoc t.name a b)
  mkTern := fun _ a t0 b _ c => .grp (.call t0.name (.list [a, b, c]) [])

end MoSql.OpJson
