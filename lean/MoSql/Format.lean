import MoSql.Expr
/-
Model of `formatting.Operator(...).func` — the renderer behind every infix operator of the
formatter — seen as a function into WRITTEN expressions (`E`): where the real code emits a
pair of parentheses the model emits an `E.paren` node, so "does the output parse back to the
same tree" becomes a statement about `E` that the C01 theorems can answer.

Precedence numbers are doubled so that `prec ± 0.5` stays integral.
n-ary nodes of unordered operators (`{"add": [a, b, c]}`) are represented left-nested:
`Operator.func` dispatches every operand of such a node at `op_prec`, and a left-nested
same-operator child at `op_prec` is written bare, so the text is identical.
-/
namespace MoSql
open MoSql.Infix

structure FmtOp where
  name : String        -- JSON key, e.g. "add"
  prec2 : Int          -- 2 * keywords.precedence[binary_ops[op]]
  ordered : Bool
  chains : Bool := true   -- `a op b op c` is written for `(a op b) op c`; when false the left operand is isolated too
  info : OpInfo        -- the row of the parser's operator table for the text it writes
  deriving Inhabited

/-- formatter-vocabulary trees; `bin k` is the operator in row `k` of the formatter's table -/
inductive T where
  | leaf (text : String) (r : Raw)
  | bin (k : Nat) (l r : T)
  deriving Inhabited

namespace Fmt

/-- `prec > op_prec  or  (prec == op_prec and not ordered)`  ⇒ no parentheses -/
def bare (prec2 : Int) (o : FmtOp) : Bool :=
  decide (prec2 > o.prec2) || (prec2 == o.prec2 && !o.ordered)

/-- the `prec` an operand is dispatched with (`op_prec + 0.5`, `op_prec - 0.5`, or `op_prec`) -/
def slotPrec (o : FmtOp) (slot : Nat) : Int :=
  if o.ordered then (if slot == 0 && o.chains then o.prec2 + 1 else o.prec2 - 1) else o.prec2

def body (o : FmtOp) (l r : E) : E := .bin o.info l r

def fmtE (ops : List FmtOp) : T → Int → E
  | .leaf t r, _ => .atom t r
  | .bin k l r, p =>
    let o := ops.getD k default
    if bare p o then body o (fmtE ops l (slotPrec o 0)) (fmtE ops r (slotPrec o 1))
    else .paren (body o (fmtE ops l (slotPrec o 0)) (fmtE ops r (slotPrec o 1)))

/-! ### the table obligation -/

/-- would the parser keep `inner` (written bare) as operand number `slot` of `outer`? -/
def genCompat (o : FmtOp) (slot : Nat) (c : FmtOp) : Bool :=
  if slot == 0 then decide (c.info.level ≤ o.info.level) else decide (c.info.level < o.info.level)

/-- operand shapes outside the theorem: the triples listed in known_findings.json, and trees that
are not in simplified normal form (an unordered — flattened — operator directly under itself on
the right: `parse` never produces it, and writing it bare only re-associates the chain) -/
def isKnown (known : List (String × Nat × String)) (o : FmtOp) (slot : Nat) (c : FmtOp) : Bool :=
  known.any (fun k => k.1 == o.name && k.2.1 == slot && k.2.2 == c.name) ||
    (slot == 1 && !o.ordered && o.name == c.name)

def tripleOK (known : List (String × Nat × String)) (o c : FmtOp) (slot : Nat) : Bool :=
  isKnown known o slot c || !(bare (slotPrec o slot) c) || genCompat o slot c

/-- whenever the formatter leaves an operand bare, the parser agrees that it binds tighter -/
def soundTable (known : List (String × Nat × String)) (ops : List FmtOp) : Bool :=
  ops.all fun o => ops.all fun c => tripleOK known o c 0 && tripleOK known o c 1

def wfTable (lv : List Level) (ops : List FmtOp) : Bool :=
  ops.all fun o => nodeOkB lv o.info.level Kind.bin o.info.id

def rootOp (ops : List FmtOp) : T → Option FmtOp
  | .leaf _ _ => none
  | .bin k _ _ => some (ops.getD k default)

/-- all operators of `t` are rows of the table and no listed (known-bad) triple occurs -/
def admissible (known : List (String × Nat × String)) (ops : List FmtOp) : T → Bool
  | .leaf _ _ => true
  | .bin k l r =>
    decide (k < ops.length) &&
    (match rootOp ops l with
     | some c => !isKnown known (ops.getD k default) 0 c
     | none => true) &&
    (match rootOp ops r with
     | some c => !isKnown known (ops.getD k default) 1 c
     | none => true) &&
    admissible known ops l && admissible known ops r

end Fmt
end MoSql
