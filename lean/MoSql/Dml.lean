/-
Shaping of INSERT … VALUES (`utils.to_row`, `get_literal`, `to_values`, `to_insert_call`) and of a
column definition's character set (`to_flat_column_type`), over an abstract value type.
-/
namespace MoSql.Dml

variable {V : Type}

/-- Python `dict` insertion: replace the value of an existing key in place, else append -/
def setKey (kvs : List (String × V)) (k : String) (v : V) : List (String × V) :=
  match kvs with
  | [] => [(k, v)]
  | (k', v') :: rest => if k' == k then (k', v) :: rest else (k', v') :: setKey rest k v

def getKey (kvs : List (String × V)) (k : String) : Option V :=
  match kvs with
  | [] => none
  | (k', v) :: rest => if k' == k then some v else getKey rest k

def delKey (kvs : List (String × V)) (k : String) : List (String × V) := kvs.filter (fun kv => !(kv.1 == k))

/-- `dict(pairs)` -/
def dictOf (pairs : List (String × V)) : List (String × V) := pairs.foldl (fun d kv => setKey d kv.1 kv.2) []

/-- `dict(zip(columns, row))` -/
def rowDict (cols : List String) (row : List V) : List (String × V) := dictOf (cols.zip row)

/-- one written value of a VALUES row: a plain literal (number / string: `get_literal` returns it) or
anything else (NULL, an expression: `get_literal` returns None / the NULL marker) -/
inductive Cell (V : Type) where
  | lit (v : V) (truthy : Bool)     -- `truthy`: Python truthiness of the literal (0, 0.0 and '' are falsy)
  | other (v : V)

def Cell.val : Cell V → V
  | .lit v _ => v
  | .other v => v

def Cell.compact : Cell V → Bool
  | .lit _ t => t
  | .other _ => false

/-- the two shapes `to_values` + `to_insert_call` produce -/
inductive Shape (V : Type) where
  | valuesDicts (rows : List (List (String × V)))      -- {"values": [{col: v, …}, …]}
  | valuesLists (rows : List (List V))                  -- {"values": [[v, …], …]}   (no column list)
  | query (cols : Option (List String)) (rows : List (List V))   -- {"columns": …, "query": select / union_all of selects}

/-- `to_values`: more than one row and every value a truthy plain literal → the literal table -/
def compactRows (rows : List (List (Cell V))) : Bool :=
  -- a one-value row is kept by `to_row` as a Group (not unwrapped), for which `get_literal` answers None
  decide (1 < rows.length) && rows.all (fun r => decide (1 < r.length) && r.all Cell.compact)

def toInsert (cols : Option (List String)) (rows : List (List (Cell V))) : Shape V :=
  if compactRows rows then
    match cols with
    | some cs => if cs.isEmpty then .valuesLists (rows.map (·.map Cell.val)) else .valuesDicts (rows.map fun r => rowDict cs (r.map Cell.val))
    | none => .valuesLists (rows.map (·.map Cell.val))
  else .query cols (rows.map (·.map Cell.val))

/-- value recorded for row `j`, column `i` (by column NAME in the dict shape, by position otherwise) -/
def Shape.cell (cols : List String) : Shape V → Nat → Nat → Option V
  | .valuesDicts rows, j, i => (rows[j]?).bind fun r => (cols[i]?).bind fun c => getKey r c
  | .valuesLists rows, j, i => (rows[j]?).bind fun r => r[i]?
  | .query _ rows, j, i => (rows[j]?).bind fun r => r[i]?

/-! ### `to_flat_column_type` -/

structure ColDesc (V : Type) where
  keys : List (String × V)          -- name, option keys … (everything but "type")
  typeName : String
  typeKw : List (String × V)        -- kwargs of the type Call (params, character_set, unsigned …)

/-- move `character_set` out of the type's kwargs to the column; when the type has none the
function raises KeyError internally and returns its input unchanged -/
def flatColumn (c : ColDesc V) : ColDesc V :=
  match getKey c.typeKw "character_set" with
  | some cs => { c with keys := setKey c.keys "character_set" cs, typeKw := delKey c.typeKw "character_set" }
  | none => c

end MoSql.Dml
