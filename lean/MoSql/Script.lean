import MoSql.Json
/-
Model of the script layer of `mo_sql_parsing/__init__.py`:
  * `parse_delimiters` — the textual pre-pass that looks for `DELIMITER <d>` directives
    (`^\s*delimiter\s+([^\n]+)$`, IGNORECASE | MULTILINE) and, while a non-`;` delimiter is
    active, splits blocks on `re.escape(d) + r"\s*(\n|$)"`;
  * the accumulation loop of `_parse` (skip empty outputs, extend on lists, unwrap at the end).
Texts are `List Char`; whitespace is the ASCII subset of Python's `\s` / `str.strip`
(space, \t, \n, \r, \x0b, \x0c) — the harness generates only these.
-/
namespace MoSql.Script

def isWs (c : Char) : Bool :=
  c == ' ' || c == '\t' || c == '\n' || c == '\r' || c == '\x0b' || c == '\x0c'

def dropWs : List Char → List Char
  | [] => []
  | c :: cs => if isWs c then dropWs cs else c :: cs

/-- `str.strip()` -/
def strip (s : List Char) : List Char := (dropWs (dropWs s).reverse).reverse

def lower (c : Char) : Char := if 'A' ≤ c && c ≤ 'Z' then Char.ofNat (c.toNat + 32) else c

def ciPrefix : List Char → List Char → Bool
  | [], _ => true
  | _ :: _, [] => false
  | p :: ps, c :: cs => lower p == lower c && ciPrefix ps cs

def isPrefix : List Char → List Char → Bool
  | [], _ => true
  | _ :: _, [] => false
  | p :: ps, c :: cs => p == c && isPrefix ps cs

def wsRun : List Char → Nat
  | [] => 0
  | c :: cs => if isWs c then wsRun cs + 1 else 0

def lineRun : List Char → Nat       -- maximal run of non-newline characters
  | [] => 0
  | c :: cs => if c == '\n' then 0 else lineRun cs + 1

/-- `\s+([^\n]+)$` at the text following the word `delimiter`: the largest `w ≥ 1` not exceeding the
whitespace run such that a non-newline character follows; returns (w, length of the group) -/
def directiveTail (t : List Char) : Option (Nat × Nat) :=
  let maxW := wsRun t
  let rec go (w : Nat) : Option (Nat × Nat) :=
    match w with
    | 0 => none
    | w' + 1 =>
      match t.drop (w' + 1) with
      | c :: rest => if c != '\n' then some (w' + 1, lineRun (c :: rest)) else go w'
      | [] => go w'
  go maxW

/-- try to match the directive with `^` at the beginning of `s`; returns (length of the match, group) -/
def matchDirectiveAt (s : List Char) : Option (Nat × List Char) :=
  let w0 := wsRun s
  let t := s.drop w0
  if ciPrefix "delimiter".toList t then
    let t2 := t.drop 9
    match directiveTail t2 with
    | some (w, g) => some (w0 + 9 + w + g, (t2.drop w).take g)
    | none => none
  else none

/-- `delimiter_pattern.search`: leftmost line start with a match; returns (start, end, group) -/
def findDirective : (s : List Char) → (pos : Nat) → (atLineStart : Bool) → Option (Nat × Nat × List Char)
  | [], _, _ => none
  | c :: cs, pos, ls =>
    let here := if ls then matchDirectiveAt (c :: cs) else none
    match here with
    | some (len, g) => some (pos, pos + len, g)
    | none => findDirective cs (pos + 1) (c == '\n')

/-- `splitter.search(block)` for `re.escape(d) + r"\s*(\n|$)"`:
returns (start, end) of the leftmost occurrence of `d` followed by whitespace that reaches a newline
or the end of the text (non-MULTILINE `$` also matches before one final newline) -/
def lastNewlineIn (t : List Char) (n : Nat) : Option Nat :=   -- index (1-based end) of the last '\n' among the first n chars
  let rec go (i : Nat) (cs : List Char) (best : Option Nat) : Option Nat :=
    match cs with
    | [] => best
    | c :: rest => if i < n then go (i + 1) rest (if c == '\n' then some (i + 1) else best) else best
  go 0 t none

def enderAt (t : List Char) : Option Nat :=    -- length matched by `\s*(\n|$)` at t, if any
  let w := wsRun t
  if t.length == w then
    -- whitespace reaches the end: `\s*` takes everything and `$` matches
    some w
  else
    -- give characters back until a newline can be matched by `(\n)`
    lastNewlineIn t w

def findSplit (d : List Char) : (s : List Char) → (pos : Nat) → Option (Nat × Nat)
  | [], pos => if d.isEmpty then (match enderAt [] with | some e => some (pos, pos + e) | none => none) else none
  | c :: cs, pos =>
    if isPrefix d (c :: cs) then
      match enderAt ((c :: cs).drop d.length) with
      | some e => some (pos, pos + d.length + e)
      | none => findSplit d cs (pos + 1)
    else findSplit d cs (pos + 1)

/-- the inner `while True` loop: pieces of a block under delimiter `d` -/
def splitBlock (d : List Char) : (fuel : Nat) → List Char → List (List Char)
  | 0, block => [block]
  | fuel + 1, block =>
    match findSplit d block 0 with
    | none => [block]
    | some (st, en) =>
      if en == 0 then [block]   -- empty match on an empty delimiter: the real loop would not advance
      else block.take st :: splitBlock d fuel (block.drop en)

inductive Piece where
  | stmt (text : List Char)        -- handed to the statement parser
  | directive (text : List Char)   -- `found.group(0)`, also handed to the parser (it parses as `delimiter_command`)
  deriving Repr

/-- `parse_delimiters` -/
def parseDelimiters : (fuel : Nat) → (sql : List Char) → (delim : List Char) → List Piece
  | 0, _, _ => []
  | fuel + 1, sql, delim =>
    match findDirective sql 0 true with
    | some (st, en, g) =>
      let block := strip (sql.take st)
      let pieces : List Piece :=
        if block.isEmpty then []
        else if delim == [';'] then [.stmt block]
        else (splitBlock delim block.length block).map .stmt
      pieces ++ [.directive ((sql.drop st).take (en - st))] ++ parseDelimiters fuel (sql.drop en) (strip g)
    | none =>
      let block := strip sql
      if block.isEmpty then []
      else if delim == [';'] then [.stmt block]
      else (splitBlock delim block.length block).map .stmt

def pieces (sql : List Char) : List Piece := parseDelimiters (sql.length + 1) sql [';']

/-! ### the accumulation loop of `_parse` -/

def truthy : J → Bool
  | .null => false
  | .bool b => b
  | .int i => i != 0
  | .flt s => !(s == "0.0" || s == "-0.0")
  | .str s => s != ""
  | .arr xs => !xs.isEmpty
  | .obj kvs => !kvs.isEmpty
  | _ => true

/-- `for line in …: if not output: continue; if isinstance(output, list): acc.extend(output) else acc.append(output)` -/
def accumulate : List J → List J
  | [] => []
  | out :: rest =>
    if !truthy out then accumulate rest
    else match out with
      | .arr xs => xs ++ accumulate rest
      | j => j :: accumulate rest

/-- `if len(acc) == 1: return acc[0]; if not acc: return None; return acc` -/
def unwrap : List J → J
  | [] => .null
  | [x] => x
  | xs => .arr xs

/-- what one line contributes: the list of its statements' trees after `scrub` (a list collapses) -/
def lineOutput : List J → J
  | [] => .null
  | [t] => t
  | ts => .arr ts

def parseResult (lines : List (List J)) : J := unwrap (accumulate (lines.map lineOutput))

end MoSql.Script
