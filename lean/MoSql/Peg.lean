import MoSql.Skip
/-
Model of the recogniser engine the SQL grammar runs on (`mo_parsing`): the compiled fast path of
`And`, `MatchFirst`, `Or`, `Many` (`ZeroOrMore` / `OneOrMore`), `Optional`, `Group`, `Suppress`, `Forward`,
`NotAny`, `FollowedBy`, `Empty` and the terminals `Literal` / `CaselessLiteral`, `Keyword` / `CaselessKeyword`,
`Word` / `Char` and the quoted-text regular expressions.

The input is the text still to be read (a suffix of the statement), so "position" = that suffix and
"consumed something" = the rest got shorter.  What matters for the properties is WHERE whitespace is
skipped, and that is copied from the engine line by line:

* `And`      (`expressions.py` `And._compile`): before a child is tried, skip — but only if the previous
             child consumed something (`if end > index: index = skip(string, end)`); the result ends where the
             last child ended (no trailing skip);
* `Many`     (`enhancement.py` `Many._compile`): skip before EVERY repetition, the first included; stop when the
             child fails; a repetition that matches the empty text makes no progress (the real loop would spin:
             the model answers `diverge`);
* `Optional`: no skip at all; `MatchFirst` / `Or`: every alternative is tried at the same place.

The whitespace engine is a parameter (`Env.skip`, indexed by engine number: the grammar graph of the
library has three — none, standard, comment-aware `MoSql.Skip.skip`).
-/
namespace MoSql.Peg

abbrev Str := List Char

/-- what a match returns: the token texts, `Group` nests -/
inductive Tok where
  | leaf (s : Str)
  | group (ts : List Tok)
  deriving Repr, BEq

/-- terminals -/
inductive Term where
  | lit (s : Str) (caseless : Bool)                 -- Literal / CaselessLiteral: returns its own spelling
  | kw (s : Str) (caseless : Bool)                  -- Keyword: as `lit`, and the next character is not a word character
  | word (first rest : List (Char × Char))          -- one character of `first`, then any number of `rest`
  | quoted (q : Char)                               -- q (qq | [^q])* q
  deriving Repr, DecidableEq

inductive G where
  | term (t : Term)
  | empty
  | seq (ws : Nat) (gs : List G)
  | alt (gs : List G)
  | longest (gs : List G)
  | many (ws : Nat) (g : G) (min max : Nat)
  | opt (g : G)
  | group (g : G)
  | suppress (g : G)
  | ref (n : Nat)
  | notAhead (g : G)
  | ahead (g : G)
  deriving Repr

inductive Res where
  | fail
  | diverge            -- out of fuel, or the engine's own loop would not terminate
  | ok (ts : List Tok) (rest : Str)
  deriving Repr

/-! ### terminals -/
def lower (c : Char) : Char := if 'A' ≤ c ∧ c ≤ 'Z' then Char.ofNat (c.toNat + 32) else c

def chEq (caseless : Bool) (a b : Char) : Bool := if caseless then lower a == lower b else a == b

/-- `some rest` when `s` is a prefix of `x` (case folded if asked) -/
def stripPrefix (caseless : Bool) : Str → Str → Option Str
  | [], x => some x
  | _ :: _, [] => none
  | a :: s, b :: x => if chEq caseless a b then stripPrefix caseless s x else none

def isWordChar (c : Char) : Bool :=
  ('a' ≤ c && c ≤ 'z') || ('A' ≤ c && c ≤ 'Z') || ('0' ≤ c && c ≤ '9') || c == '_'

def inRanges (rs : List (Char × Char)) (c : Char) : Bool := rs.any fun (lo, hi) => lo ≤ c && c ≤ hi

/-- body of a quoted token after the opening quote: `some (body incl. closing quote, rest)` -/
def quotedBody (q : Char) : Str → Option (Str × Str)
  | [] => none
  | [c] => if c == q then some ([c], []) else none
  | c :: c2 :: cs =>
    if c == q then
      if c2 == q then
        -- a doubled quote continues the text; if the text then never closes, the regular expression backs off and the
        -- first of the two quotes is the closing one (three quotes and a letter: the empty text, then a lone quote)
        match quotedBody q cs with
        | some (b, r) => some (c :: c2 :: b, r)
        | none => some ([c], c2 :: cs)
      else some ([c], c2 :: cs)
    else (quotedBody q (c2 :: cs)).map fun (b, r) => (c :: b, r)

/-- `some (token text, rest)` -/
def matchTerm : Term → Str → Option (Str × Str)
  | .lit s cl, x => (stripPrefix cl s x).map fun r => (s, r)
  | .kw s cl, x =>
    match stripPrefix cl s x with
    | some [] => some (s, [])
    | some (c :: r) => if isWordChar c then none else some (s, c :: r)
    | none => none
  | .word first rest, x =>
    match x with
    | [] => none
    | c :: cs => if inRanges first c then some (c :: cs.takeWhile (inRanges rest), cs.dropWhile (inRanges rest)) else none
  | .quoted q, x =>
    match x with
    | [] => none
    | c :: cs => if c == q then (quotedBody q cs).map fun (b, r) => (c :: b, r) else none

/-! ### the engine -/
structure Env where
  skip : Nat → Str → Str          -- whitespace engine number → what is left after skipping
  rule : Nat → G                  -- `Forward` number → its definition

/-- children whose empty result `And` passes over (`isinstance(result.type, Many) and min_match == 0 and not result`) -/
def emptyMany : G → Bool
  | .opt _ => true
  | .many _ _ 0 _ => true
  | _ => false

/-- the three whitespace engines of the SQL grammar graph: 0 = none, 1 = standard white characters, other = the
comment-aware engine (`MoSql.Skip.skip`) -/
def engines (ws : Nat) (x : Str) : Str :=
  match ws with
  | 0 => x
  | 1 => x.dropWhile Skip.isWhite
  | _ => Skip.skip x

/-- `And`: `idx` = where the last child was tried, `fin` = where it ended -/
def seqLoop (rec : G → Str → Res) (skip : Str → Str) : List G → Str → Str → List Tok → Res
  | [], _, fin, acc => .ok acc fin
  | g :: gs, idx, fin, acc =>
    let idx' := if fin.length < idx.length then skip fin else idx
    match rec g idx' with
    | .ok ts r =>
      -- an `Optional` / `ZeroOrMore` child that matched nothing is passed over: `fin` stays in front of the filler
      if emptyMany g && ts.isEmpty && !(r.length < idx'.length) then seqLoop rec skip gs idx' fin acc
      else seqLoop rec skip gs idx' r (acc ++ ts)
    | .fail => .fail
    | .diverge => .diverge

/-- `MatchFirst` -/
def altLoop (rec : G → Str → Res) : List G → Str → Res
  | [], _ => .fail
  | g :: gs, x =>
    match rec g x with
    | .ok ts r => .ok ts r
    | .fail => altLoop rec gs x
    | .diverge => .diverge

/-- `Or`: the longest match wins, ties go to the first alternative -/
def longestLoop (rec : G → Str → Res) : List G → Str → Option (List Tok × Str) → Res
  | [], _, none => .fail
  | [], _, some (ts, r) => .ok ts r
  | g :: gs, x, best =>
    match rec g x with
    | .ok ts r =>
      match best with
      | none => longestLoop rec gs x (some (ts, r))
      | some (bt, br) => if r.length < br.length then longestLoop rec gs x (some (ts, r)) else longestLoop rec gs x (some (bt, br))
    | .fail => longestLoop rec gs x best
    | .diverge => .diverge

/-- `Many`: `k` bounds the number of repetitions (the caller's fuel), `fin` = end so far -/
def manyLoop (rec : G → Str → Res) (skip : Str → Str) (g : G) (min max : Nat) : Nat → Str → Nat → List Tok → Res
  | 0, _, _, _ => .diverge
  | k + 1, fin, count, acc =>
    let stop : Res := if count < min then .fail else .ok acc fin
    if fin.isEmpty then stop
    else
      let idx := skip fin
      match rec g idx with
      | .fail => stop
      | .diverge => .diverge
      | .ok ts r =>
        if r.length < idx.length then
          if count + 1 ≥ max then (if count + 1 < min then .fail else .ok (acc ++ ts) r)
          else manyLoop rec skip g min max k r (count + 1) (acc ++ ts)
        else if idx.isEmpty then                                                    -- `end = result.end`: the loop ends at the end of the text
          (if count < min then .fail else .ok acc (if count = 0 then idx else fin))
        else .diverge                                                              -- empty repetition: the real loop spins

/-- the matcher; `fuel` bounds the nesting of calls -/
def run (E : Env) : Nat → G → Str → Res
  | 0, _, _ => .diverge
  | n + 1, g, x =>
    match g with
    | .term t =>
      match matchTerm t x with
      | some (s, r) => .ok [.leaf s] r
      | none => .fail
    | .empty => .ok [] x
    | .seq ws gs => seqLoop (run E n) (E.skip ws) gs x x []
    | .alt gs => altLoop (run E n) gs x
    | .longest gs => longestLoop (run E n) gs x none
    | .many ws g min max => manyLoop (run E n) (E.skip ws) g min max n x 0 []
    | .opt g =>
      match run E n g x with
      | .ok ts r => .ok ts r
      | .fail => .ok [] x
      | .diverge => .diverge
    | .group g =>
      match run E n g x with
      | .ok ts r => .ok [.group ts] r
      | .fail => .fail
      | .diverge => .diverge
    | .suppress g =>
      match run E n g x with
      | .ok _ r => .ok [] r
      | .fail => .fail
      | .diverge => .diverge
    | .ref i => run E n (E.rule i) x
    | .notAhead g =>
      match run E n g x with
      | .ok _ _ => .fail
      | .fail => .ok [] x
      | .diverge => .diverge
    | .ahead g =>
      match run E n g x with
      | .ok _ _ => .ok [] x
      | .fail => .fail
      | .diverge => .diverge

/-! ### grammars over a given set of terminals and whitespace engines -/
mutual
def G.wf (P : Term → Bool) (Q : Nat → Bool) : G → Bool
  | .term t => P t
  | .empty => true
  | .seq ws gs => Q ws && wfList P Q gs
  | .alt gs => wfList P Q gs
  | .longest gs => wfList P Q gs
  | .many ws g _ _ => Q ws && G.wf P Q g
  | .opt g => G.wf P Q g
  | .group g => G.wf P Q g
  | .suppress g => G.wf P Q g
  | .ref _ => true
  | .notAhead g => G.wf P Q g
  | .ahead g => G.wf P Q g
def wfList (P : Term → Bool) (Q : Nat → Bool) : List G → Bool
  | [] => true
  | g :: gs => G.wf P Q g && wfList P Q gs
end

/-- `Parser._parse_once`: skip, match; with `parse_all` skip again and demand the end of the text -/
def parseTop (E : Env) (fuel ws : Nat) (g : G) (parseAll : Bool) (x : Str) : Res :=
  match run E fuel g (E.skip ws x) with
  | .ok ts r => if parseAll then (if (E.skip ws r).isEmpty then .ok ts r else .fail) else .ok ts r
  | r => r

end MoSql.Peg
