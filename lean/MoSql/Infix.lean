/-
Model of `mo_parsing.infix.make_tree` (the operator-precedence reducer that
`sql_parser.py` instantiates with `KNOWN_OPS`).  No imports: this file is part of
the executable driver.

The real function receives `flat_tokens`, a list of `(token, tag)` pairs produced by
the PEG `decorated (ops decorated)*`, and repeatedly
  * looks for the FIRST level (in list order) that has a match,
  * reduces ONE occurrence of it (leftmost for suffix / binary / ternary levels,
    rightmost for prefix levels), taking the neighbouring items as operands
    WITHOUT checking that they are operands,
  * restarts at level 0,
until no level matches; then it returns `flat_tokens[0]` and silently forgets the rest.
The model keeps the forgotten rest (`leftover`) so that dropping is observable.
-/
namespace MoSql.Infix

/-- An operator token as recorded by `record_op`: `id` is the identity of the normalised
operator element it matched (what `o == op` compares), `name` is the name
`to_json_operator` resolves for it, `payload` is the token's own value (operator text,
or for suffix operators the parsed suffix: cast type, accessor, window spec …). -/
structure Tok (V : Type) where
  id : Nat
  name : String
  payload : V

inductive Item (V : Type) where
  | val (v : V)        -- tag is `base_expr` or `(expr,)`: never equal to an operator
  | op (t : Tok V)

inductive Kind where
  | pre | suf | bin | tern
  deriving DecidableEq, Repr, Inhabited

/-- One entry of `op_list`. `act` selects the parse action
(0 = to_json_operator, 1 = to_offset, 2 = to_window_mod). -/
structure Level where
  kind : Kind
  id0 : Nat
  id1 : Nat := 0
  act : Nat := 0
  deriving DecidableEq, Repr, Inhabited

/-- The parse actions, abstracted: how a reduced group becomes a value. -/
structure Builders (V : Type) where
  mkPre : Level → Tok V → V → V
  mkSuf : Level → V → Tok V → V
  mkBin : Level → V → Tok V → V → V
  mkTern : Level → V → Tok V → V → Tok V → V → V

variable {V : Type}

/-- `flat_tokens[i][0]` : whatever sits there is used as the operand. -/
def Item.asVal : Item V → V
  | .val v => v
  | .op t => t.payload

def Item.isOp (id : Nat) : Item V → Bool
  | .val _ => false
  | .op t => t.id == id

/-- prefix level: RIGHTMOST `i ≤ n-2` with `items[i]` the operator; operand `items[i+1]`. -/
def reducePre (B : Builders V) (L : Level) : List (Item V) → Option (List (Item V))
  | o :: b :: rest =>
    match reducePre B L (b :: rest) with
    | some r => some (o :: r)
    | none =>
      match o with
      | .op t => if t.id == L.id0 then some (.val (B.mkPre L t b.asVal) :: rest) else none
      | .val _ => none
  | _ => none

/-- suffix level: LEFTMOST operator in `items[1:]`; operand is the item before it. -/
def reduceSuf (B : Builders V) (L : Level) : List (Item V) → Option (List (Item V))
  | a :: o :: rest =>
    match o with
    | .op t =>
      if t.id == L.id0 then some (.val (B.mkSuf L a.asVal t) :: rest)
      else (reduceSuf B L (o :: rest)).map (a :: ·)
    | .val _ => (reduceSuf B L (o :: rest)).map (a :: ·)
  | _ => none

/-- binary level (all are LEFT_ASSOC): LEFTMOST operator in `items[1:-1]`. -/
def reduceBin (B : Builders V) (L : Level) : List (Item V) → Option (List (Item V))
  | a :: o :: b :: rest =>
    match o with
    | .op t =>
      if t.id == L.id0 then some (.val (B.mkBin L a.asVal t b.asVal) :: rest)
      else (reduceBin B L (o :: b :: rest)).map (a :: ·)
    | .val _ => (reduceBin B L (o :: b :: rest)).map (a :: ·)
  | _ => none

/-- ternary level: LEFTMOST `i` with `items[i+1] = op0` and `items[i+3] = op1`. -/
def reduceTern (B : Builders V) (L : Level) : List (Item V) → Option (List (Item V))
  | a :: o0 :: b :: o1 :: c :: rest =>
    match o0, o1 with
    | .op t0, .op t1 =>
      if t0.id == L.id0 && t1.id == L.id1 then
        some (.val (B.mkTern L a.asVal t0 b.asVal t1 c.asVal) :: rest)
      else (reduceTern B L (o0 :: b :: o1 :: c :: rest)).map (a :: ·)
    | _, _ => (reduceTern B L (o0 :: b :: o1 :: c :: rest)).map (a :: ·)
  | _ => none

def reduce (B : Builders V) (L : Level) (items : List (Item V)) : Option (List (Item V)) :=
  match L.kind with
  | .pre => reducePre B L items
  | .suf => reduceSuf B L items
  | .bin => reduceBin B L items
  | .tern => reduceTern B L items

/-- `op_index` climbs from 0 until a level matches: the first level with a reduction. -/
def firstReduce (B : Builders V) : List Level → List (Item V) → Option (List (Item V))
  | [], _ => none
  | L :: ls, items =>
    match reduce B L items with
    | some r => some r
    | none => firstReduce B ls items

/-- the `while` loop; every reduction shortens the list, so `fuel = length` suffices. -/
def run (B : Builders V) (lv : List Level) : Nat → List (Item V) → List (Item V)
  | 0, items => items
  | n + 1, items =>
    match firstReduce B lv items with
    | some r => run B lv n r
    | none => items

structure Result (V : Type) where
  head : Option V            -- `flat_tokens[0][0]`; `none` only for the impossible empty input
  leftover : List (Item V)   -- what the real code forgets

def makeTree (B : Builders V) (lv : List Level) (items : List (Item V)) : Result V :=
  match run B lv items.length items with
  | [] => ⟨none, []⟩
  | x :: rest => ⟨some x.asVal, rest⟩

end MoSql.Infix
