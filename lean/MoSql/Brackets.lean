/-
Bracket structure of a token list: what the "certainly ill-formed" edits of C14 rely on.
Every statement of every SQL dialect is bracket-balanced; the edits (delete one bracket, append a
bracket, cut the text inside an open bracket) provably leave the balanced language.
-/
namespace MoSql.Brackets

inductive Tk where
  | lb | rb | other
  deriving DecidableEq, Repr

def w : Tk → Int
  | .lb => 1
  | .rb => -1
  | .other => 0

/-- opening minus closing brackets -/
def net : List Tk → Int
  | [] => 0
  | t :: ts => w t + net ts

/-- balanced from depth `d`: the depth never becomes negative and ends at 0 -/
def balFrom : Nat → List Tk → Bool
  | d, [] => d == 0
  | d, .lb :: ts => balFrom (d + 1) ts
  | 0, .rb :: _ => false
  | d + 1, .rb :: ts => balFrom d ts
  | d, .other :: ts => balFrom d ts

def balanced (ts : List Tk) : Bool := balFrom 0 ts

end MoSql.Brackets
