import MoSql.Lemmas.LexProps
import MoSql.Gen.Lexemes
import MoSql.Ref
/-!
C07 — identifiers survive every quoting style, and format quotes whatever needs it.
Model: `MoSql.Lex` (`ansi_ident` / `mysql_backtick_ident` / `sqlserver_ident` tokens, `double_column` /
`backtick_column` / `square_column`, `mo_dots.literal_field`, `Word(FIRST_IDENT_CHAR, IDENT_CHAR)`,
`formatting.VALID`, `_should_quote`, `escape`).
-/
namespace MoSql.Props.C07
open MoSql MoSql.Lex

/-- **Any identifier text without backslash, line break or NUL, in any quoting style**, is one
token and decodes to the same name: the text with its dots escaped. -/
theorem ansi_ident_roundtrip (s : List Char) (hp : ∀ c ∈ s, plainIdChar c = true) :
    decodeAnsiIdent (quoteWith dq dq s) = some (literalField s) := by
  simp only [decodeAnsiIdent, matchQuoted_quoteWith, replacePairs_doubledDQ]
  have := pyEval1_pySourceDQ s _ (Nat.lt_succ_of_le (pySourceDQ_length_le s)) hp
  simp [pyEval1, this]

theorem backtick_ident_roundtrip (s : List Char) (hp : ∀ c ∈ s, plainIdChar c = true) :
    decodeBacktickIdent (quoteWith bt bt s) = some (literalField s) := by
  simp only [decodeBacktickIdent, matchQuoted_quoteWith, undouble_doubled, escapeDq_eq]
  have := pyEval1_pySourceDQ s _ (Nat.lt_succ_of_le (pySourceDQ_length_le s)) hp
  simp [pyEval1, this]

theorem square_ident_roundtrip (s : List Char) (hp : ∀ c ∈ s, plainIdChar c = true) :
    decodeSquareIdent (quoteWith '[' rb s) = some (literalField s) := by
  simp only [decodeSquareIdent, matchQuoted_quoteWith, undouble_doubled, escapeDq_eq]
  have := pyEval1_pySourceDQ s _ (Nat.lt_succ_of_le (pySourceDQ_length_le s)) hp
  simp [pyEval1, this]

/-- the name does not depend on the style -/
theorem style_independent (s : List Char) (hp : ∀ c ∈ s, plainIdChar c = true) :
    decodeAnsiIdent (quoteWith dq dq s) = decodeBacktickIdent (quoteWith bt bt s) ∧
    decodeAnsiIdent (quoteWith dq dq s) = decodeSquareIdent (quoteWith '[' rb s) := by
  rw [ansi_ident_roundtrip s hp, backtick_ident_roundtrip s hp, square_ident_roundtrip s hp]
  exact ⟨rfl, rfl⟩

/-- the full statement is false for backslashes (Python escapes are evaluated) and for line
breaks (the decoder fails and the parser raises a non-ParseException) — known findings -/
theorem backslash_full_false : decodeAnsiIdent (quoteWith dq dq "a\\b".toList) = some "a\x08".toList := by decide
theorem newline_full_false : decodeAnsiIdent (quoteWith dq dq "a\nb".toList) = none := by decide

/-- Table obligations (regenerated): every character `VALID` lets through is a character the bare-name
lexer accepts, and the first one is accepted in first position. -/
theorem valid_chars_are_ident_chars (c : Char) (h : isAsciiWord c = true) :
    inRanges Gen.identRanges c = true := by
  simp only [isAsciiWord, isAsciiAlphaU, Bool.or_eq_true, Bool.and_eq_true, decide_eq_true_eq,
    beq_iff_eq] at h
  simp only [inRanges, Gen.identRanges, List.any_cons, List.any_nil, Bool.or_false, Bool.or_eq_true,
    Bool.and_eq_true, decide_eq_true_eq]
  omega

theorem valid_first_is_first_ident_char (c : Char) (h : isAsciiAlphaU c = true) :
    inRanges Gen.firstIdentRanges c = true := by
  simp only [isAsciiAlphaU, Bool.or_eq_true, Bool.and_eq_true, decide_eq_true_eq, beq_iff_eq] at h
  simp only [inRanges, Gen.firstIdentRanges, List.any_cons, List.any_nil, Bool.or_false,
    Bool.or_eq_true, Bool.and_eq_true, decide_eq_true_eq]
  omega

/-- **A name `format` leaves bare is read back by the lexer as exactly that name** (whatever
follows it, as long as it is not another name character). -/
theorem bare_name_lexes (s rest : List Char) (hv : validName s = true)
    (hr : ∀ r rs, rest = r :: rs → inRanges Gen.identRanges r = false) :
    matchWord Gen.firstIdentRanges Gen.identRanges (s ++ rest) = some (s, rest) := by
  cases s with
  | nil => simp [validName] at hv
  | cons c cs =>
    simp only [validName, Bool.and_eq_true] at hv
    have h1 := valid_first_is_first_ident_char c hv.1
    have hall : cs.all (inRanges Gen.identRanges) = true := by
      apply List.all_eq_true.mpr
      intro x hx
      exact valid_chars_are_ident_chars x (List.all_eq_true.mp hv.2 x hx)
    have := takeWhile_all (inRanges Gen.identRanges) cs rest hall hr
    simp [matchWord, h1, this.1, this.2]

/-- **`escape` decides correctly** for one path segment: a quoted segment decodes to the name, a
bare segment is a valid bare name (partial: contexts in which a non-reserved keyword is not a
name are measured, see known findings `ident:bare-keyword:*`) -/
theorem escape_segment_partial (isKw : List Char → Bool) (s : List Char)
    (hp : ∀ c ∈ s, plainIdChar c = true) :
    (shouldQuote isKw s = true → decodeAnsiIdent (escSegment dq isKw s) = some (literalField s)) ∧
    (shouldQuote isKw s = false → s ≠ ['*'] → escSegment dq isKw s = s ∧ validName s = true) := by
  constructor
  · intro h
    simp only [escSegment, h, if_true]
    exact ansi_ident_roundtrip s hp
  · intro h hs
    simp only [escSegment, h, Bool.false_eq_true, if_false, true_and]
    simp only [shouldQuote, Bool.and_eq_false_iff, Bool.or_eq_false_iff, Bool.not_eq_false'] at h
    rcases h with h | h
    · simp at h; exact absurd h hs
    · exact h.1

/-- Tie A: the identifier regular expressions and `VALID` the model was written against -/
theorem patterns_pinned :
    ["ansi_ident", "mysql_backtick_ident", "sqlserver_ident", "simple_ident", "VALID", "VALID_flags"].all (fun n =>
      ((Gen.lexPatterns.find? (·.1 == n)).map (·.2)) == ((Ref.lexPatterns.find? (·.1 == n)).map (·.2))) = true := by
  decide

/-- non-vacuity -/
example : ∀ c ∈ "my col.umn \"x\" `y` [z]".toList, plainIdChar c = true := by decide
example : validName "col_1".toList = true := by decide

end MoSql.Props.C07
