import MoSql.Gen.Lexemes
import MoSql.Ref
import MoSql.Lemmas.LexProps
import MoSql.OpJson
/-!
C06 — string and numeric literals survive parse and format exactly.
Model: `MoSql.Lex` (`Formatter._literal`, the `ansi_string` / `mysql_doublequote_string` token
regexes, `single_literal` / `double_literal` including Python's string-literal evaluation,
`parse_int`), tied by correspondence to the real regexes and decoders.
-/
namespace MoSql.Props.C06
open MoSql MoSql.Lex

/-- **Every string, any length, any characters**: the text `format` writes for a literal is one
token of the lexer — the quoted-string regex consumes exactly it and nothing of what follows
(unless what follows starts with another quote). -/
theorem sq_token_exact (s rest : List Char) (hr : ∀ c cs, rest = c :: cs → (c == q) = false) :
    matchSQ (encodeSQ s ++ rest) = some (doubleQuotes q s, rest) := by
  have := matchBody_doubled q rest hr s
  simp only [encodeSQ, List.cons_append, List.append_assoc, List.singleton_append, matchSQ,
    beq_self_eq_true, if_true]
  exact this

/-- **… and by SQL's rule it denotes exactly `s`** -/
theorem sq_roundtrip_spec (s : List Char) : decodeSpec (encodeSQ s) = some s := by
  have h := sq_token_exact s [] (by intro c cs h; cases h)
  simp only [List.append_nil] at h
  simp [decodeSpec, h, undouble_doubled]

/-- **The implementation's decoder is exact on every string without backslash, carriage
return or NUL** (partial: see the witnesses below) -/
theorem sq_impl_partial (s : List Char) (hp : ∀ c ∈ s, plainChar c = true) :
    decodeImpl (encodeSQ s) = some s := by
  have h := sq_token_exact s [] (by intro c cs h; cases h)
  simp only [List.append_nil] at h
  simp only [decodeImpl, h, replacePairs_doubled]
  exact pyEval_pySource s _ (Nat.lt_succ_of_le (pySource_length_le s)) hp

/-- the full statement is false: Python evaluates backslash escapes … -/
theorem sq_impl_backslash_false : decodeImpl (encodeSQ "a\\b".toList) = some "a\x08".toList := by decide
/-- … rejects a trailing backslash and a NUL (the parser then raises `Except`, see C14) … -/
theorem sq_impl_trailing_backslash_false : decodeImpl (encodeSQ "a\\".toList) = none := by decide
theorem sq_impl_nul_false : decodeImpl (encodeSQ "a\x00b".toList) = none := by decide
/-- … and normalises carriage returns -/
theorem sq_impl_cr_false : decodeImpl (encodeSQ "a\rb".toList) = some "a\nb".toList := by decide

/-- double-quoted literals (`parse_mysql`, `parse_bigquery`): same statements -/
theorem dq_token_exact (s rest : List Char) (hr : ∀ c cs, rest = c :: cs → (c == dq) = false) :
    matchDQ (encodeDQ s ++ rest) = some (doubleQuotes dq s, rest) := by
  have := matchBody_doubled dq rest hr s
  simp only [encodeDQ, List.cons_append, List.append_assoc, List.singleton_append, matchDQ,
    beq_self_eq_true, if_true]
  exact this

theorem dq_impl_partial (s : List Char) (hp : ∀ c ∈ s, plainChar c = true) :
    decodeImplDQ (encodeDQ s) = some s := by
  have h := dq_token_exact s [] (by intro c cs h; cases h)
  simp only [List.append_nil] at h
  simp only [decodeImplDQ, h, replacePairs_doubledDQ]
  exact pyEval_pySourceDQ s _ (Nat.lt_succ_of_le (pySourceDQ_length_le s)) hp

/-- **Every integer of any magnitude** written in decimal reads back as itself -/
theorem int_roundtrip (n : Nat) : parseNat (digits n) = n := parseNat_digits n

/-- **integers with an exponent are exact, whatever their size**: `parse_int` on `<n>e<k>` / `<n>E+<k>` (the texts
`int_num` accepts) gives n·10^k — no float on the way (the library used to go through `float`: repaired, `fad9567`) -/
theorem int_exponent_exact (n k : Nat) (upper plus : Bool) :
    parseIntText (digits n ++ (if upper then 'E' else 'e') :: ((if plus then ['+'] else []) ++ digits k)) = n * 10 ^ k :=
  parseIntText_exponent n k _ (by cases upper <;> decide) plus

theorem int_plain_exact (n : Nat) : parseIntText (digits n) = n := parseIntText_plain n

example : parseIntText "123e45".toList = 123 * 10 ^ 45 ∧ parseIntText "7E+300".toList = 7 * 10 ^ 300 := by
  constructor <;> decide

/-- a minus sign directly before a number folds into it; `+` disappears (partial: `is_number`
goes through `float()`, so integers beyond the binary64 range are not folded — known finding) -/
theorem sign_folds_partial (n : Int) (h : n.natAbs < 2 ^ 1024 - 2 ^ 970) :
    OpJson.mkPrefix "neg" (.int n) = .int (-n) ∧ OpJson.mkPrefix "pos" (.int n) = .int n := by
  constructor <;> simp [OpJson.mkPrefix, OpJson.isNumber, OpJson.negate, h]

theorem sign_fold_huge_false :
    OpJson.isNumber (.int (2 ^ 1024)) = false := by decide +kernel

/-- non-vacuity: a string with both quote characters, a semicolon, comment markers and a
non-ASCII letter satisfies the hypothesis of `sq_impl_partial` -/
example : ∀ c ∈ "it's \"x\"; -- /* é".toList, plainChar c = true := by decide

/-- Tie A: the regular expressions the model was written against are the ones the current source
compiles (regenerated on every run) -/
theorem patterns_pinned :
    ["real_num", "int_num", "ansi_string", "mysql_doublequote_string"].all (fun n =>
      ((Gen.lexPatterns.find? (·.1 == n)).map (·.2)) == ((Ref.lexPatterns.find? (·.1 == n)).map (·.2))) = true := by
  decide

end MoSql.Props.C06
