import MoSql.Gen.Graph
import MoSql.Gen.Lexemes
import MoSql.Ref
import MoSql.Lemmas.DialectProps
import MoSql.Lemmas.LexProps
/-!
C18 — dialect entry points differ only in the documented quoting rules.
Model: `MoSql.Dialect` (the identifier alternatives of the four parsers as first-match choices over
the token matchers).  The rest of the grammar is compared structurally (the graphs of the four
dialects differ only in the listed nodes) and behaviourally (oracle) — the recogniser is not modelled.
-/
namespace MoSql.Props.C18
open MoSql MoSql.Lex MoSql.Dialect

/-- the character tables of the current source; `sqlserver_local_ident` = Word("@" + FIRST, IDENT) has
the same first-character set as `simple_ident` (obligation `local_ident_same_chars`) -/
def tables : Tables := { first := Gen.firstIdentRanges, rest := Gen.identRanges, localFirst := Gen.firstIdentRanges }

/-- Tie A: `@` is already a first identifier character, so `"@" + FIRST_IDENT_CHAR` adds nothing: the two
word tokens compile to the same regular expression -/
theorem local_ident_same_chars :
    (inRanges Gen.firstIdentRanges '@'
      && ((Gen.lexPatterns.find? (·.1 == "sqlserver_local_ident")).map (·.2)
          == (Gen.lexPatterns.find? (·.1 == "simple_ident")).map (·.2))) = true := by decide

/-- Tie A: every first character of a name is a name character, and none of the quote characters is -/
theorem char_tables_ok :
    (rangesSubset Gen.firstIdentRanges Gen.identRanges
      && !inRanges Gen.firstIdentRanges '"' && !inRanges Gen.firstIdentRanges '`'
      && !inRanges Gen.firstIdentRanges '[') = true := by decide

/-- **On dialect-neutral text all four dialects read the same identifier lexeme** — any text that does
not start with a quote character and has no `-` directly after a name character (any length): every
dialect's `atomic_ident` consumes exactly what the plain word token consumes. -/
theorem neutral_same_lexeme (d : D) (c : Char) (cs : List Char)
    (h1 : (c == dq) = false) (h2 : (c == bt) = false) (h3 : (c == '[') = false)
    (hn : noDashAfterName tables.rest (c :: cs) = true) :
    atomicIdent tables d (c :: cs) = matchWord tables.first tables.rest (c :: cs) := by
  have hsub : rangesSubset tables.first tables.rest = true := by
    have := char_tables_ok; simp only [Bool.and_eq_true] at this; exact this.1.1.1
  have hdash := matchDashWord_eq tables.first tables.rest hsub (c :: cs) hn
  have qa := matchQuoted_none dq dq c cs h1
  have qb := matchQuoted_none bt bt c cs h2
  have qs := matchQuoted_none '[' rb c cs h3
  have hl : tables.localFirst = tables.first := rfl
  cases d <;> simp only [atomicIdent, firstMatch, alt, qa, qb, qs, hdash, hl] <;>
    cases matchWord tables.first tables.rest (c :: cs) <;> rfl

/-- **backticks quote identifiers everywhere, for every content** -/
theorem backtick_everywhere (d : D) (s : List Char) :
    atomicIdent tables d (quoteWith bt bt s) = some (doubleQuotes bt s, []) := by
  have hb := matchQuoted_quoteWith bt bt s
  have hq : matchQuoted dq dq (quoteWith bt bt s) = none := by simp [quoteWith, matchQuoted, bt, dq]
  cases d <;> simp [atomicIdent, firstMatch, alt, hb, hq]

/-- **`[x]` is one identifier lexeme for SQL Server (and MySQL); for the common and BigQuery parsers it is
not an identifier at all** (it is left to the array constructor / index rules) -/
theorem square_bracket_rule (s : List Char) :
    atomicIdent tables .sqlserver (quoteWith '[' rb s) = some (doubleQuotes rb s, [])
    ∧ atomicIdent tables .common (quoteWith '[' rb s) = none
    ∧ atomicIdent tables .bigquery (quoteWith '[' rb s) = none := by
  have hs := matchQuoted_quoteWith '[' rb s
  have hq : matchQuoted dq dq (quoteWith '[' rb s) = none := by simp [quoteWith, matchQuoted, dq]
  have hb : matchQuoted bt bt (quoteWith '[' rb s) = none := by simp [quoteWith, matchQuoted, bt]
  have hf : inRanges tables.first '[' = false := by
    have := char_tables_ok; simp only [Bool.and_eq_true, Bool.not_eq_true'] at this; exact this.2
  refine ⟨by simp [atomicIdent, firstMatch, alt, hs, hq, hb], ?_, ?_⟩
  · simp only [atomicIdent, firstMatch, alt, hq, hb]
    simp [quoteWith, matchWord, hf]
  · simp only [atomicIdent, firstMatch, alt, hq, hb]
    simp [quoteWith, matchDashWord, hf]

/-- **double-quoted text is an identifier lexeme for the common and SQL Server parsers, and never one for
MySQL** (whose grammar offers the double-quoted string literal instead) -/
theorem double_quote_rule (s : List Char) :
    atomicIdent tables .common (quoteWith dq dq s) = some (doubleQuotes dq s, [])
    ∧ atomicIdent tables .sqlserver (quoteWith dq dq s) = some (doubleQuotes dq s, [])
    ∧ atomicIdent tables .mysql (quoteWith dq dq s) = none := by
  have hs := matchQuoted_quoteWith dq dq s
  have hb : matchQuoted bt bt (quoteWith dq dq s) = none := by simp [quoteWith, matchQuoted, bt, dq]
  have hq : matchQuoted '[' rb (quoteWith dq dq s) = none := by simp [quoteWith, matchQuoted, dq]
  have hf : inRanges tables.first '"' = false := by
    have := char_tables_ok; simp only [Bool.and_eq_true, Bool.not_eq_true'] at this; exact this.1.1.2
  refine ⟨by simp [atomicIdent, firstMatch, alt, hs], by simp [atomicIdent, firstMatch, alt, hs], ?_⟩
  simp only [atomicIdent, firstMatch, alt, hb, hq]
  simp [quoteWith, matchDashWord, hf, dq]

/-- non-vacuity: `a-b` is NOT neutral, and there BigQuery reads one name where the others read `a` -/
example : noDashAfterName tables.rest "a-b".toList = false
    ∧ atomicIdent tables .bigquery "a-b c".toList = some ("a-b".toList, " c".toList)
    ∧ atomicIdent tables .common "a-b c".toList = some ("a".toList, "-b c".toList)
    ∧ noDashAfterName tables.rest "a - b".toList = true := by decide

/-- Tie A: the grammar graphs of the four dialects (both `all_columns` settings) differ from the common
one exactly in the listed string / identifier alternatives and SQL Server's `[ ]` switch -/
theorem dialect_diff_confined : (Gen.dialectDiff == Ref.allowedDialectDiff) = true := by decide +kernel

end MoSql.Props.C18
