import MoSql.Lemmas.InfixMain
import MoSql.Lemmas.ExprSem
import MoSql.Lemmas.LevelsOK
import MoSql.Gen.Levels
/-!
C01 — expression trees honour operator precedence, associativity and operand order.
Property theorems only; helper lemmas live in `MoSql/Lemmas`.
-/
namespace MoSql.Props.C01
open MoSql MoSql.Infix

/-- Table obligation, re-decided on every run against the operator table the current source
passes to `infix_notation`: operator identities are not shared between levels and the `AND`
of `BETWEEN … AND` is shared only with a looser level. -/
theorem levels_ok : LevelsOK Gen.levels := levelsOK_of_B (by decide)

/-- **make_tree computes the precedence tree.**  For every parenthesis-free operator tree `w`
over the current level table (prefix, suffix, binary and ternary operators, any size) that is
the tree operator precedence prescribes for its own token sequence (`Compat`), the reducer
returns exactly `val w` — each operator applied to exactly its written operands, in order —
and forgets nothing. -/
theorem makeTree_precedence_tree (w : W Raw) (hwf : w.wfB Gen.levels = true)
    (hc : w.compatB = true) :
    makeTree (OpJson.builders Gen.assocSet) Gen.levels w.flat
      = ⟨some (w.val (OpJson.builders Gen.assocSet) Gen.levels), []⟩ :=
  makeTree_flat _ _ levels_ok w (W.wf_of_wfB hwf) (W.compat_of_compatB hc)

/-- the same for a whole written expression: one activation of `make_tree` per parenthesis
level, each returning the precedence tree of what it sees -/
theorem evalE_precedence_tree (e : E)
    (hwf : (E.toW Gen.ctx e).wfB Gen.levels = true) (hc : (E.toW Gen.ctx e).compatB = true) :
    E.evalE Gen.ctx e = (E.toW Gen.ctx e).val (OpJson.builders Gen.assocSet) Gen.levels := by
  have h2 : E.evalW Gen.ctx (E.toW Gen.ctx e)
      = ⟨some ((E.toW Gen.ctx e).val (OpJson.builders Gen.assocSet) Gen.levels), []⟩ :=
    makeTree_precedence_tree (E.toW Gen.ctx e) hwf hc
  simp [E.evalE, E.resultVal, h2]

/-- **C01 (model level, every depth, every parenthesisation).**  For a written expression in
which every parenthesis level is precedence-compatible under the *current* level table
(`okTop`, a decidable check), the model of `parse` returns `sem e`: every operator applied to
exactly its written operands in written order, parenthesised parts kept as groups, function
arguments parsed the same way. -/
theorem parse_eq_sem (e : E) (h : E.okTop Gen.ctx e = true) : E.evalE Gen.ctx e = E.sem Gen.ctx e :=
  E.evalE_eq_sem Gen.ctx levels_ok e h

end MoSql.Props.C01
