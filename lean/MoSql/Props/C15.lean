import MoSql.Gen.Effects
import MoSql.Ref
import MoSql.Lemmas.SessionProps
/-!
C15 — a call's result depends only on its arguments, not on what was called before.
Model: `MoSql.Session`; the programs of the entry points are read from the current source
(`MoSql.Gen.Effects`).  The matcher itself is abstract: a call's outcome is a function of the parser
it looked up, its own arguments and the values it observed in the parse-scoped globals.  That a
parser built for a key depends on the key alone (and not on which other parsers exist) is an
assumption of the model, tested by the creation-order experiments of the oracle (partial).
-/
namespace MoSql.Props.C15
open MoSql MoSql.Session

/-- Tie A obligation on the current source: in every entry point, every read of a parse-scoped global
(by `_parse`, by the matcher's parse actions, by `scrub`) is preceded by this call's own write -/
theorem reset_before_use :
    Gen.entryPrograms.all (fun e => resetBeforeUse [] e.2.2) = true := by decide

/-- **what a call observes does not depend on the state it starts in** — for any program that
resets before use, any argument values, any two stores -/
theorem observation_independent (a : String → Val) (p : List Instr) (h : resetBeforeUse [] p = true)
    (s₁ s₂ : Store) : (run a p s₁ []).2 = (run a p s₂ []).2 :=
  run_indep a p [] s₁ s₂ [] h (by intro g hg; cases hg)

/-- **History independence, histories of any length**: after any sequence of earlier calls — other
dialects, other options, calls that raised (they leave the same state as calls that return) — a call
looks up the parser `build key` and observes exactly what it observes in a fresh process. -/
theorem history_independent (build : Key → Parser) (cs : List Call) (c : Call) (s0 s0' : Store)
    (hc : resetBeforeUse [] c.prog = true) :
    (step build (after build (init s0) cs) c).2 = (step build (init s0') c).2 := by
  have hcache := after_cacheOK build cs (init s0) (by intro k p h; simp [init] at h)
  have h1 := (lookup_ok build (after build (init s0) cs).cache c.key hcache).1
  have h2 := (lookup_ok build (init s0').cache c.key (by intro k p h; simp [init] at h)).1
  have h3 := observation_independent c.args c.prog hc (after build (init s0) cs).store (init s0').store
  simp only [step]
  rw [Prod.mk.injEq]
  exact ⟨by rw [h1, h2], h3⟩

/-- a script of any number of lines: the loop body runs once per line and still resets before use -/
theorem script_lines_reset (body : List Instr) (h : resetBeforeUse [] body = true) (n : Nat) :
    resetBeforeUse [] (loop body n) = true := rbu_loop body h n

/-- the hypotheses are met by the real programs, and the statement is not vacuous: a program that
reads `fmap` without installing it first observes the previous call's value -/
example : resetBeforeUse [] [.acq, .set "fmap", .use "fmap", .rel] = true
    ∧ (run (fun _ => 1) [.use "fmap"] (fun _ => 7) []).2 ≠ (run (fun _ => 1) [.use "fmap"] (fun _ => 8) []).2 := by
  decide

/-- Tie A: the cache is keyed by exactly (parser name, all_columns) -/
theorem cache_keyed : (Gen.cacheKey == [["parser_name", "all_columns"]]) = true := by decide

/-- Tie A: the helpers that handle the parse-scoped state (`_parse`, `_get_or_create_parser` and whatever they are cut
into) are reached from the four entry points only: any other call site must itself run under the lock -/
theorem helpers_private :
    Gen.helperCallers.all (fun c => (Ref.entryPoints.map ("__init__." ++ ·)).contains c.1) = true := by
  decide

/-- Tie A: `format` reads no parse-scoped global -/
theorem format_pure : Gen.formatReads.isEmpty = true := by decide

/-- Tie A: no other module-level state is rebound at call time (lazy imports and the warning latch excepted) -/
theorem no_other_module_state :
    (Gen.globalRebinds.all (fun g => Ref.benignRebinds.contains g)
      && Gen.crossModuleWrites.all (fun g => Ref.benignCrossWrites.contains g)) = true := by decide

/-- Tie A: the package changes no setting of the interpreter or the process (recursion limit, switch interval, trace
hooks, warning filters, locale, decimal context, gc, environment, working directory, …): a call leaves nothing of that
kind behind for the next one -/
theorem no_process_settings_written : Gen.processSettingCalls.isEmpty = true := by decide

end MoSql.Props.C15
