import MoSql.Lemmas.ExprSem
import MoSql.Lemmas.LevelsOK
import MoSql.Gen.Levels
/-!
C05 — an accepted statement loses no identifier, number or string.
The one place where the library can answer while forgetting part of its input is
`make_tree` (it returns `flat_tokens[0]` and drops the rest when nothing reduces any more).
-/
namespace MoSql.Props.C05
open MoSql MoSql.Infix

theorem levels_ok : LevelsOK Gen.levels := levelsOK_of_B (by decide)

/-- **Nothing is dropped, any depth, any parenthesisation**: if every parenthesis level of a written
expression is precedence-compatible under the current level table, no activation of `make_tree`
leaves tokens behind. -/
theorem nothing_dropped (e : E) (h : E.okTop Gen.ctx e = true) : E.dropsTop Gen.ctx e = false :=
  E.dropsTop_of_okTop Gen.ctx levels_ok e h

/-- one activation: the reducer ends with exactly one item -/
theorem leftover_empty (w : W Raw) (hwf : w.wfB Gen.levels = true) (hc : w.compatB = true) :
    (makeTree (OpJson.builders Gen.assocSet) Gen.levels w.flat).leftover = [] := by
  have := makeTree_flat (OpJson.builders Gen.assocSet) Gen.levels levels_ok w (W.wf_of_wfB hwf)
    (W.compat_of_compatB hc)
  simp [this]

/-- the full statement is false: a prefix operator written to the right of a tighter binary
operator is taken as the operand and the real operand is dropped (`a + ~ b` → `{"add": ["a", "~"]}`,
`b` forgotten) -/
theorem prefix_right_of_tighter_full_false :
    (makeTree (OpJson.builders Gen.assocSet) Gen.levels
      [.val (.str "a"), .op ⟨(Gen.opInfo' "+").id, "add", .str "+"⟩,
       .op ⟨(Gen.opInfo' "u~").id, "binary_not", .str "~"⟩, .val (.str "b")]).leftover.length = 1 := by
  decide

end MoSql.Props.C05
