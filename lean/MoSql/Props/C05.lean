import MoSql.Lemmas.ExprSem
import MoSql.Lemmas.LevelsOK
import MoSql.Gen.Levels
import MoSql.Lemmas.ScrubAtoms
/-!
C05 — an accepted statement loses no identifier, number or string.
The one place where the library can answer while forgetting part of its input is
`make_tree` (it returns `flat_tokens[0]` and drops the rest when nothing reduces any more).
The simplification that follows (`utils.scrub`, which "removes None-valued entries") is shown to remove nothing else.
-/
namespace MoSql.Props.C05
open MoSql MoSql.Infix

theorem levels_ok : LevelsOK Gen.levels := levelsOK_of_B (by decide)

/-- **Nothing is dropped, any depth, any parenthesisation**: if every parenthesis level of a written
expression is precedence-compatible under the current level table, no activation of `make_tree`
leaves tokens behind. -/
theorem nothing_dropped (e : E) (h : E.okTop Gen.ctx e = true) : E.dropsTop Gen.ctx e = false :=
  E.dropsTop_of_okTop Gen.ctx levels_ok e h

/-- one activation: the reducer ends with exactly one item -/
theorem leftover_empty (w : W Raw) (hwf : w.wfB Gen.levels = true) (hc : w.compatB = true) :
    (makeTree (OpJson.builders Gen.assocSet) Gen.levels w.flat).leftover = [] := by
  have := makeTree_flat (OpJson.builders Gen.assocSet) Gen.levels levels_ok w (W.wf_of_wfB hwf)
    (W.compat_of_compatB hc)
  simp [this]

/-- the full statement is false: a prefix operator written to the right of a tighter binary
operator is taken as the operand and the real operand is dropped (`a + ~ b` → `{"add": ["a", "~"]}`,
`b` forgotten) -/
theorem prefix_right_of_tighter_full_false :
    (makeTree (OpJson.builders Gen.assocSet) Gen.levels
      [.val (.str "a"), .op ⟨(Gen.opInfo' "+").id, "add", .str "+"⟩,
       .op ⟨(Gen.opInfo' "u~").id, "binary_not", .str "~"⟩, .val (.str "b")]).leftover.length = 1 := by
  decide

/-- the full statement is false in a second way (known findings `dropped:filter-then-over`, `dropped:cast-then-accessor`):
**a tighter suffix operator written behind a looser one is reduced away** — for every operand, every pair of suffix
levels of the current table (`[x]`, `.name`, `:name`, OVER, FILTER, `::type`) and whatever the two suffixes carry,
`make_tree` answers the bare operand and leaves one item over: `a::int.b` and `sum(a) filter (…) over (…)` are answered as
`a` and `sum(a)`.  (The other order is `leftover_empty`.)  Quantified over the regenerated table (tighter = earlier in it). -/
theorem tighter_suffix_behind_looser_full_false :
    ∀ lj ∈ Gen.levels, ∀ li ∈ Gen.levels, lj.kind = .suf → li.kind = .suf → Gen.levels.idxOf li < Gen.levels.idxOf lj →
    ∀ (a p q : Raw) (n m : String),
    (makeTree (OpJson.builders Gen.assocSet) Gen.levels [.val a, .op ⟨lj.id0, n, p⟩, .op ⟨li.id0, m, q⟩]).head = some a ∧
    (makeTree (OpJson.builders Gen.assocSet) Gen.levels [.val a, .op ⟨lj.id0, n, p⟩, .op ⟨li.id0, m, q⟩]).leftover.length = 1 := by
  intro lj hj li hi kj ki hlt a p q n m
  simp only [Gen.levels, List.mem_cons, List.mem_nil_iff, or_false] at hj hi
  repeat' (rcases hj with rfl | hj)
  all_goals first
    | (exfalso; revert kj; decide)
    | subst hj
    | skip
  all_goals first
    | (exfalso; revert kj; decide)
    | skip
  all_goals (repeat' (rcases hi with rfl | hi))
  all_goals first
    | (exfalso; revert ki hlt; decide)
    | subst hi
    | skip
  all_goals first
    | (exfalso; revert ki hlt; decide)
    | exact ⟨rfl, rfl⟩

/-- the hypotheses are met: `::` (level id 5) is a looser suffix than `.name` (level id 1) in the current table -/
example : (⟨Kind.suf, 5, 0, 0⟩ : Level) ∈ Gen.levels ∧ (⟨Kind.suf, 1, 0, 1⟩ : Level) ∈ Gen.levels := by decide

/-- … and the first way in general: **a prefix operator written to the right of any tighter binary operator** is taken
for the operand, for every pair of levels of the current table, all operands and whatever the operator tokens carry -/
theorem prefix_right_of_tighter_full_false_all :
    ∀ lb ∈ Gen.levels, ∀ lp ∈ Gen.levels, lb.kind = .bin → lp.kind = .pre → Gen.levels.idxOf lb < Gen.levels.idxOf lp →
    ∀ (a c pb pp : Raw) (nb np : String),
    (makeTree (OpJson.builders Gen.assocSet) Gen.levels
      [.val a, .op ⟨lb.id0, nb, pb⟩, .op ⟨lp.id0, np, pp⟩, .val c]).leftover.length = 1 := by
  intro lb hb lp hp kb kp hlt a c pb pp nb np
  simp only [Gen.levels, List.mem_cons, List.mem_nil_iff, or_false] at hb hp
  repeat' (rcases hb with rfl | hb)
  all_goals first
    | (exfalso; revert kb; decide)
    | subst hb
    | skip
  all_goals first
    | (exfalso; revert kb; decide)
    | skip
  all_goals (repeat' (rcases hp with rfl | hp))
  all_goals first
    | (exfalso; revert kp hlt; decide)
    | subst hp
    | skip
  all_goals first
    | (exfalso; revert kp hlt; decide)
    | rfl

/-- **Simplification loses no content**: every string, number and boolean leaf of the raw tree the parse actions
built is a leaf of what `scrub` returns — for every raw tree of any size, both `calls=` modes and every `fmap` —
provided no call carries a keyword argument named like the (renamed) call itself (`kwargs[op] = args` would
overwrite it).  What `scrub` removes is `None`, empty lists, and list / Group wrappers. -/
theorem scrub_loses_no_content (c : Cfg) (r : Raw) (h : Scrub.noClash c r = true) :
    ∀ a ∈ Scrub.rAtoms r, a ∈ Scrub.jAtoms (Scrub.scrub c r) :=
  Scrub.scrub_keeps_atoms c r h

/-- the hypothesis is met by a non-trivial tree, whose content is indeed kept -/
example :
    let r : Raw := .call "f" (.list [.str "x", .none, .grp (.int 7)]) [("g", .call "h" (.flt "1.5") []), ("k", .none)]
    Scrub.noClash {} r = true ∧ Scrub.rAtoms r = [.s "x", .i 7, .f "1.5"]
      ∧ Scrub.jAtoms (Scrub.scrub {} r) = [.f "1.5", .s "x", .i 7] := by decide

/-- without the hypothesis the statement is false in the default mode: `Call("f", ["x"], {"f": 5})` simplifies to
`{"f": "x"}` and the 5 is gone (replayed on the real `scrub`: the same); `calls=normal_op` keeps both -/
theorem scrub_clash_loses_content :
    let r : Raw := .call "f" (.str "x") [("f", .int 5)]
    Scrub.Atom.i 5 ∈ Scrub.rAtoms r ∧ Scrub.Atom.i 5 ∉ Scrub.jAtoms (Scrub.scrub {} r) := by decide

end MoSql.Props.C05
