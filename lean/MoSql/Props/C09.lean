import MoSql.Gen.Graph
import MoSql.Ref
import MoSql.Lemmas.SkipProps
/-!
C09 — whitespace, comments, keyword case, optional AS and a trailing semicolon never change the tree.
Model: `MoSql.Skip` (the comment-aware whitespace engine); structural facts of the current grammar
graph: `MoSql.Gen.Graph` (regenerated on every run).
-/
namespace MoSql.Props.C09
open MoSql MoSql.Skip

/-- **Every filler is absorbed, whatever its length and whatever follows**: a filler is any
concatenation of white characters, `-- …⏎`, `# …⏎` and terminated `/* … */` comments. -/
theorem skip_absorbs_filler (f r : List Char) (hf : Filler f) : skip (f ++ r) = skip r :=
  skip_filler f r hf

/-- two fillers between the same tokens leave the engine at the same place -/
theorem fillers_interchangeable (f g r : List Char) (hf : Filler f) (hg : Filler g) :
    skip (f ++ r) = skip (g ++ r) := by
  rw [skip_filler f r hf, skip_filler g r hg]

/-- skipping stops exactly in front of a character that cannot begin a filler (so a token is never eaten) -/
theorem skip_stops_at_token (r : List Char) (h : stopsHere r = true) : skip r = r :=
  skip_stops r h

/-- an unterminated block comment is not a comment: nothing is skipped (the parser then fails on `/`) -/
theorem unterminated_block_not_skipped (r : List Char) (h : go .B r = none) :
    skip ('/' :: '*' :: r) = '/' :: '*' :: r :=
  skip_stops_at_block r h

/-- consequence for a token boundary: after any filler the engine stands in front of the next token -/
theorem filler_then_token (f r : List Char) (hf : Filler f) (h : stopsHere r = true) : skip (f ++ r) = r := by
  rw [skip_filler f r hf, skip_stops r h]

/-- the hypotheses are met by a non-trivial filler and token -/
example : Filler " \n-- c\n /* x*y **/ # z\n\t".toList ∧ stopsHere "BY a".toList = true := by
  refine ⟨?_, by decide⟩
  refine .white ' ' _ (by decide) (.white '\n' _ (by decide) ?_)
  refine .dash " c".toList _ (by decide) (.white ' ' _ (by decide) ?_)
  refine .block " x*y *".toList _ (by decide) (.white ' ' _ (by decide) ?_)
  exact .hash " z".toList _ (by decide) (.white '\t' _ (by decide) .nil)

example : skip " \n-- c\n /* x*y **/ # z\n\tBY a".toList = "BY a".toList := by decide

/-- Tie A: the engines found in the current grammar graphs are the ones the model was written against -/
theorem engines_pinned : (Gen.wsEngines == Ref.wsEngines) = true := by decide

/-- **Structural obligation on the current grammar graph (all 8 parsers)**: every sequencing node
that skips whitespace between its parts uses the comment-aware engine, except the nodes listed as
known findings (built at import time, outside `with Whitespace()`).  A new node outside the block
makes this `decide` fail. -/
theorem seq_nodes_comment_aware :
    Gen.wsOffending.all (fun n => Gen.knownWsNodes.contains n) = true := by decide

/-- every terminal with letters is matched caselessly, except literal-spelling introducers and the
known findings -/
theorem keywords_caseless :
    Gen.caseSensitiveKeywords.all
      (fun k => Ref.literalSpellingTerminals.contains k || Gen.knownCaseKeywords.contains k) = true := by decide

end MoSql.Props.C09
