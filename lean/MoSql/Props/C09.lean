import MoSql.Gen.Graph
import MoSql.Ref
import MoSql.Lemmas.SkipProps
import MoSql.Lemmas.PegGap
import MoSql.Lemmas.PegExample
/-!
C09 — whitespace, comments, keyword case, optional AS and a trailing semicolon never change the tree.
Models: `MoSql.Skip` (the comment-aware whitespace engine) and `MoSql.Peg` (the recogniser engine the grammar runs on:
where `And` / `Many` skip, ordered and longest choice, optional parts, lookaheads, terminals); structural facts of
the current grammar graph: `MoSql.Gen.Graph` (regenerated on every run).
-/
namespace MoSql.Props.C09
open MoSql MoSql.Skip

/-- **Every filler is absorbed, whatever its length and whatever follows**: a filler is any
concatenation of white characters, `-- …⏎`, `# …⏎` and terminated `/* … */` comments. -/
theorem skip_absorbs_filler (f r : List Char) (hf : Filler f) : skip (f ++ r) = skip r :=
  skip_filler f r hf

/-- two fillers between the same tokens leave the engine at the same place -/
theorem fillers_interchangeable (f g r : List Char) (hf : Filler f) (hg : Filler g) :
    skip (f ++ r) = skip (g ++ r) := by
  rw [skip_filler f r hf, skip_filler g r hg]

/-- skipping stops exactly in front of a character that cannot begin a filler (so a token is never eaten) -/
theorem skip_stops_at_token (r : List Char) (h : stopsHere r = true) : skip r = r :=
  skip_stops r h

/-- an unterminated block comment is not a comment: nothing is skipped (the parser then fails on `/`) -/
theorem unterminated_block_not_skipped (r : List Char) (h : go .B r = none) :
    skip ('/' :: '*' :: r) = '/' :: '*' :: r :=
  skip_stops_at_block r h

/-- consequence for a token boundary: after any filler the engine stands in front of the next token -/
theorem filler_then_token (f r : List Char) (hf : Filler f) (h : stopsHere r = true) : skip (f ++ r) = r := by
  rw [skip_filler f r hf, skip_stops r h]

/-- the hypotheses are met by a non-trivial filler and token -/
example : Filler " \n-- c\n /* x*y **/ # z\n\t".toList ∧ stopsHere "BY a".toList = true := by
  refine ⟨?_, by decide⟩
  refine .white ' ' _ (by decide) (.white '\n' _ (by decide) ?_)
  refine .dash " c".toList _ (by decide) (.white ' ' _ (by decide) ?_)
  refine .block " x*y *".toList _ (by decide) (.white ' ' _ (by decide) ?_)
  exact .hash " z".toList _ (by decide) (.white '\t' _ (by decide) .nil)

example : skip " \n-- c\n /* x*y **/ # z\n\tBY a".toList = "BY a".toList := by decide


/-! ### the recogniser engine: what stands in a gap does not matter -/
open MoSql.Peg in
/-- **Engine simulation** (any grammar, any nesting depth, any fuel): when the places of two texts correspond (`Rc`
where a match is tried, `Re` where one ends), the whitespace engines map ends to places, lengths compare alike and
every terminal of the grammar behaves alike on corresponding places, the engine answers alike on both texts. -/
theorem engine_simulation {E : Env} {Rc Re : Str → Str → Prop} {P : Term → Bool} {Q : Nat → Bool}
    (h : Sim E Rc Re P Q) (hrules : ∀ i, G.wf P Q (E.rule i) = true) (fuel : Nat) (g : G) (hg : G.wf P Q g = true)
    (x x' : Str) (hx : Rc x x') : ResRel Re (run E fuel g x) (run E fuel g x') :=
  run_sim h hrules fuel g x x' hg hx

open MoSql.Peg in
/-- **Gap invariance of a whole parse**: two texts that differ only in what fills ONE gap (`pre ++ f ++ post` and
`pre ++ f' ++ post`, both fillers non-empty) get the same answer — the same tokens, or both a failure — from
`Parser.parse_string`, with or without `parse_all`, provided (`GapHyp`) every whitespace engine of the grammar skips
either filler the same way and no terminal tried in front of the gap sees which filler follows. -/
theorem gap_invariance {E : Env} {f f' post : Str} {goodC goodE : Str → Prop} {P : Term → Bool} {Q : Nat → Bool}
    (h : GapHyp E f f' post goodC goodE P Q) (hrules : ∀ i, G.wf P Q (E.rule i) = true)
    (fuel ws : Nat) (hws : Q ws = true) (g : G) (hg : G.wf P Q g = true) (parseAll : Bool)
    (pre : Str) (hpre : goodE pre) :
    (parseTop E fuel ws g parseAll (pre ++ (f ++ post))).outcome
      = (parseTop E fuel ws g parseAll (pre ++ (f' ++ post))).outcome :=
  outcome_eq_of_rel (parseTop_sim (gap_sim h) hrules fuel ws hws g hg parseAll _ _ (Or.inl ⟨pre, hpre, rfl, rfl⟩))

open MoSql.Peg in
/-- at the gap itself the comment-aware engine discharges the skipping hypothesis for ANY two fillers (white
characters and terminated comments in any mixture) in front of a token -/
theorem comment_engine_at_the_gap (f f' post : Str) (good : Str → Prop) (hf : Filler f) (hf' : Filler f')
    (hp : stopsHere post = true) :
    GapRel f f' post good (skip ([] ++ (f ++ post))) (skip ([] ++ (f' ++ post))) :=
  comment_skip_at_gap f f' post good hf hf' hp

open MoSql.Peg in
/-- in front of the gap, the comment-aware engine behaves alike on both texts from every end of the shape
"filler, then something solid" (`w ++ u'`) and from every end followed by filler only: together with
`comment_engine_at_the_gap` this discharges the skipping hypothesis of `GapHyp` for every end that does not stand
inside an open comment -/
theorem comment_engine_before_the_gap (f f' post w u' : Str) (good : Str → Prop) (hw : Filler w)
    (hs : solidStart u' = true) (hg : good u') :
    GapRel f f' post good (skip ((w ++ u') ++ (f ++ post))) (skip ((w ++ u') ++ (f' ++ post))) :=
  comment_skip_before_gap f f' post w u' good hw hs hg

open MoSql.Peg in
theorem comment_engine_filler_up_to_the_gap (f f' post u : Str) (good : Str → Prop) (hu : Filler u) (hf : Filler f)
    (hf' : Filler f') (hp : stopsHere post = true) :
    GapRel f f' post good (skip (u ++ (f ++ post))) (skip (u ++ (f' ++ post))) :=
  comment_skip_filler_before_gap f f' post u good hu hf hf' hp

open MoSql.Peg in
/-- the terminal hypothesis of `GapHyp` for literals: a `Literal` / `CaselessLiteral` whose text is not longer than what
is left in front of the gap matches, or fails, alike on both texts (it cannot see the filler) -/
theorem literal_does_not_see_the_gap (f f' post u s : Str) (cl : Bool) (goodE : Str → Prop) (hlen : s.length ≤ u.length)
    (hgood : ∀ r0, stripPrefix cl s u = some r0 → goodE r0) :
    TermRel (GapRel f f' post goodE) (matchTerm (.lit s cl) (u ++ (f ++ post))) (matchTerm (.lit s cl) (u ++ (f' ++ post))) :=
  lit_term_gap f f' post u s cl goodE hlen hgood

/-- the engines never move backwards (a hypothesis of `GapHyp`, here for the comment-aware engine) -/
theorem comment_engine_moves_forward (x : List Char) : (skip x).length ≤ x.length := skip_le x

/-- a terminal never hands back more text than it was given (used behind the gap) -/
theorem terminal_moves_forward (t : Peg.Term) (x s r : Peg.Str) (h : Peg.matchTerm t x = some (s, r)) : r.length ≤ x.length :=
  Peg.matchTerm_le t x s r h

/-- the hypotheses of `gap_invariance` are met by a real grammar and text — `SELECT name (, name)*` on
`select a<gap>, b` with the gap filled by a blank or by a block comment and a line break — and the common answer
is a match, not a failure -/
example :
    (Peg.parseTop Peg.Example.E 20 2 Peg.Example.g true "select a , b".toList).outcome
      = (Peg.parseTop Peg.Example.E 20 2 Peg.Example.g true "select a/*c*/\n, b".toList).outcome :=
  gap_invariance Peg.Example.hyp (fun _ => rfl) 20 2 rfl Peg.Example.g (by decide) true Peg.Example.pre (Or.inl rfl)

example :
    (Peg.parseTop Peg.Example.E 20 2 Peg.Example.g true "select a/*c*/\n, b".toList).outcome
      = some (some [.leaf "select".toList, .leaf "a".toList, .leaf ",".toList, .leaf "b".toList]) := by rfl

/-- Tie A: the engines found in the current grammar graphs are the ones the model was written against -/
theorem engines_pinned : (Gen.wsEngines == Ref.wsEngines) = true := by decide

/-- **Structural obligation on the current grammar graph (all 8 parsers)**: every sequencing node
that skips whitespace between its parts uses the comment-aware engine, except the nodes listed as
known findings (built at import time, outside `with Whitespace()`).  A new node outside the block
makes this `decide` fail. -/
theorem seq_nodes_comment_aware :
    Gen.wsOffending.all (fun n => Gen.knownWsNodes.contains n) = true := by decide

/-- every terminal of the current grammar graphs is of a kind the engine model has, or one of the pinned regular
expressions (`Ref.pinnedOtherTerminals`): a new complex terminal breaks this `decide` -/
theorem terminals_pinned : Gen.otherTerminals.all (fun t => Ref.pinnedOtherTerminals.contains t) = true := by decide

/-- every terminal with letters is matched caselessly, except literal-spelling introducers and the
known findings -/
theorem keywords_caseless :
    Gen.caseSensitiveKeywords.all
      (fun k => Ref.literalSpellingTerminals.contains k || Gen.knownCaseKeywords.contains k) = true := by decide

end MoSql.Props.C09
