import MoSql.Gen.Effects
import MoSql.Ref
import MoSql.Lemmas.AliasProps
/-!
C17 — returned trees belong to the caller; format does not touch its argument.
Model: `MoSql.Alias` — the result of `scrub` + NULL substitution with a provenance tag on every
container, parameterised by the two ownership facts read from the current source; a heap with
reachability for the frame argument.  Object identity inside the grammar graph and `ParseResults`
is not modelled: the aliasing census on the real results is the correspondence (partial).
-/
namespace MoSql.Props.C17
open MoSql MoSql.Alias

/-- the ownership policy of the current source (Tie A) -/
def current : Policy :=
  { emptyDictFresh := Gen.scrubEmptyDict == "fresh",
    defaultNullFresh := Ref.nullSlotFreshForms.contains Gen.nullSlotValue }

/-- Tie A obligations: `scrub` builds a new dict for an empty dict, and the default NULL node is built per slot -/
theorem empty_dict_is_copied : current.emptyDictFresh = true := by decide
theorem default_null_is_fresh : current.defaultNullFresh = true := by decide

/-- Tie A obligation: neither `scrub` nor any function of `formatting.py` assigns to, deletes from or calls a mutating
method on a part of what it was given (flow-insensitive reading of the current source): `format` leaves its argument as
it was, and `scrub` leaves the grammar's objects — which the grammar may put under several parents — as they were -/
theorem arguments_not_written : Gen.argumentWrites.all (fun w => Ref.allowedArgumentWrites.contains w) = true := by decide

/-- **Every container of every result is the caller's** — for every raw parse result, of any size and
depth, with or without a caller-supplied `null=` object: each list and dict in the returned tree was
allocated during the call, or is the caller's own `null=` object. -/
theorem result_owned_by_caller (r : Raw) (userNull : Bool) : owned (resultP current userNull r) = true :=
  substP_owned current userNull default_null_is_fresh _ (scrubP_owned current empty_dict_is_copied r)

/-- the statement is about the policy, not vacuous: under the policy of the original source
(pass-through of empty dicts, one shared default NULL) `select *` and `select null` return
library-owned containers -/
example :
    owned (resultP ⟨false, false⟩ false (.dict [("select", .dict [("all_columns", .dict [])])])) = false
    ∧ owned (resultP ⟨true, false⟩ false (.dict [("select", .dict [("value", .sqlNull)])])) = false
    ∧ owned (resultP ⟨true, true⟩ false (.dict [("select", .dict [("value", .sqlNull)])])) = true := by decide

/-- **Frame, any number of mutations**: if the objects the caller writes to are not reachable from the
library's roots (module globals, grammar graph, later results), every library-reachable object keeps
its content and stays reachable — so no later call can observe the mutations. -/
theorem caller_mutations_invisible (lib : List Nat) (h : Heap) (ws : List (Nat × List Nat))
    (hdisj : ∀ w ∈ ws, ¬ Reach h lib w.1) (a : Nat) (ha : Reach h lib a) :
    Reach (writes h ws) lib a ∧ writes h ws a = h a :=
  frame_many lib ws h hdisj a ha

/-- **The same frame read the other way — `format` leaves the tree it is given as it was**: whatever a call writes, if none
of the written objects is reachable from the argument (which is what `arguments_not_written` reads off the source: no
assignment, deletion or mutating call through a parameter or a part of one), every object of the argument keeps its
content and stays reachable from it. -/
theorem argument_untouched (arg : List Nat) (h : Heap) (ws : List (Nat × List Nat))
    (hdisj : ∀ w ∈ ws, ¬ Reach h arg w.1) (a : Nat) (ha : Reach h arg a) :
    Reach (writes h ws) arg a ∧ writes h ws a = h a :=
  frame_many arg ws h hdisj a ha

/-- a heap where it matters: the caller's object 1 and the library's object 2 both point to 3 -/
def exHeap : Heap := fun x => if x = 1 then [3] else if x = 2 then [3] else []

/-- writing to 1 is invisible to the library (hypothesis met); writing to the shared 3 is excluded by it -/
example : (¬ Reach exHeap [2] 1) ∧ Reach exHeap [2] 3 := by
  have key : ∀ a, Reach exHeap [2] a → a = 2 ∨ a = 3 := by
    intro a r
    induction r with
    | root hr => left; simpa using hr
    | @step a b _ hb ih =>
      rcases ih with e | e
      · subst e; right; simpa [exHeap] using hb
      · subst e; simp [exHeap] at hb
  refine ⟨fun r => by have := key 1 r; omega, .step (a := 2) (.root (by simp)) (by simp [exHeap])⟩

end MoSql.Props.C17
