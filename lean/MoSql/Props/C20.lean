import MoSql.Window
/-!
C20 — window frames are recorded and rendered exactly.
-/
namespace MoSql.Props.C20
open MoSql.Window

/-- **Every valid frame form with arbitrary offsets** (ROWS/RANGE, single bound or BETWEEN, the five
bound kinds on either side, lower ≤ upper) is recorded as the property demands: PRECEDING offsets
negative, FOLLOWING positive, CURRENT ROW zero, UNBOUNDED absent — including zero offsets, where the
three-way heuristic of `_to_between_call` could have gone wrong. -/
theorem frame_parse_spec (f : FrameSyn) (h : valid f = true) : parseFrame f = specFrame f := by
  cases f with
  | single b => cases b <;> rfl
  | between lo hi =>
    cases lo <;> cases hi <;>
      simp_all [valid, rank, parseFrame, toBetween, toBound, specFrame, value] <;>
      (try omega) <;>
      (try (split <;> simp_all <;> omega)) <;>
      (try (have := of_decide_eq_true h; omega))

/-- a recorded frame that some valid frame form denotes: lower ≤ upper, not unbounded on both sides -/
def wfFrame (F : Frame) : Bool :=
  match F.min, F.max with
  | some a, some b => decide (a ≤ b)
  | none, none => false
  | _, _ => true

/-- **format then parse is the identity on recorded frames, for arbitrary offsets**: for every
well-formed frame dict the formatter writes a frame clause, and that clause is recorded as the same
dict again. -/
theorem frame_fmt_roundtrip_partial (F : Frame) (h : wfFrame F = true) :
    ∃ g, fmtFrame F = some (some g) ∧ parseFrame g = F := by
  obtain ⟨mn, mx⟩ := F
  cases mn with
  | none =>
    cases mx with
    | none => simp [wfFrame] at h
    | some b =>
      rcases Int.lt_trichotomy b 0 with hb | hb | hb
      · refine ⟨.between .unboundedPreceding (.preceding b.natAbs), ?_, ?_⟩
        · have : (b == 0) = false := by simp; omega
          simp [fmtFrame, this, wordy, hb]
        · simp [parseFrame, toBound, toBetween]; omega
      · subst hb
        exact ⟨.single .unboundedPreceding, by simp [fmtFrame], by simp [parseFrame, toBound]⟩
      · refine ⟨.between .unboundedPreceding (.following b.natAbs), ?_, ?_⟩
        · have h0 : (b == 0) = false := by simp; omega
          have h1 : ¬ b < 0 := by omega
          simp [fmtFrame, h0, wordy, h1, hb]
        · have : ¬ ((b.natAbs : Int) = 0) := by omega
          have h' : ¬ (b.natAbs = 0) := by omega
          simp [parseFrame, toBound, toBetween, this, h']; omega
  | some a =>
    cases mx with
    | none =>
      rcases Int.lt_trichotomy a 0 with ha | ha | ha
      · refine ⟨.between (.preceding a.natAbs) .unboundedFollowing, ?_, ?_⟩
        · have : (a == 0) = false := by simp; omega
          simp [fmtFrame, this, wordy, ha]
        · have : ¬ (-(a.natAbs : Int) = 0) := by omega
          have h' : ¬ (a.natAbs = 0) := by omega
          simp [parseFrame, toBound, toBetween, this, h']; omega
      · subst ha
        exact ⟨.single .unboundedFollowing, by simp [fmtFrame], by simp [parseFrame, toBound]⟩
      · refine ⟨.between (.following a.natAbs) .unboundedFollowing, ?_, ?_⟩
        · have h0 : (a == 0) = false := by simp; omega
          have h1 : ¬ a < 0 := by omega
          simp [fmtFrame, h0, wordy, h1, ha]
        · simp [parseFrame, toBound, toBetween]; omega
    | some b =>
      simp only [wfFrame, decide_eq_true_eq] at h
      rcases Int.lt_trichotomy a 0 with ha | ha | ha
      · rcases Int.lt_trichotomy b 0 with hb | hb | hb
        · refine ⟨.between (.preceding a.natAbs) (.preceding b.natAbs), ?_, ?_⟩
          · have h0 : (a == 0) = false := by simp; omega
            have h1 : (b == 0) = false := by simp; omega
            simp [fmtFrame, h0, h1, wordy, ha, hb]
          · simp [parseFrame, toBound, toBetween]; omega
        · subst hb
          refine ⟨.single (.preceding a.natAbs), ?_, ?_⟩
          · have h0 : (a == 0) = false := by simp; omega
            simp [fmtFrame, h0, wordy, ha]
          · simp [parseFrame, toBound]; omega
        · refine ⟨.between (.preceding a.natAbs) (.following b.natAbs), ?_, ?_⟩
          · have h0 : (a == 0) = false := by simp; omega
            have h1 : (b == 0) = false := by simp; omega
            have h2 : ¬ b < 0 := by omega
            simp [fmtFrame, h0, h1, wordy, ha, hb, h2]
          · have h3 : ¬ ((b.natAbs : Int) = 0) := by omega
            have h4 : ¬ (-(a.natAbs : Int) = 0) := by omega
            have h3' : ¬ (b.natAbs = 0) := by omega
            have h4' : ¬ (a.natAbs = 0) := by omega
            simp [parseFrame, toBound, toBetween, h3, h4, h3', h4']; omega
      · subst ha
        rcases Int.lt_trichotomy b 0 with hb | hb | hb
        · omega
        · subst hb
          exact ⟨.single .current, by simp [fmtFrame], by simp [parseFrame, toBound]⟩
        · refine ⟨.single (.following b.natAbs), ?_, ?_⟩
          · have h1 : (b == 0) = false := by simp; omega
            have h2 : ¬ b < 0 := by omega
            simp [fmtFrame, h1, wordy, hb, h2]
          · simp [parseFrame, toBound]; omega
      · have hb : 0 < b := by omega
        refine ⟨.between (.following a.natAbs) (.following b.natAbs), ?_, ?_⟩
        · have h0 : (a == 0) = false := by simp; omega
          have h1 : (b == 0) = false := by simp; omega
          have h2 : ¬ b < 0 := by omega
          have h3 : ¬ a < 0 := by omega
          simp [fmtFrame, h0, h1, wordy, ha, hb, h2, h3]
        · have h3 : ¬ ((b.natAbs : Int) = 0) := by omega
          have h3' : ¬ (b.natAbs = 0) := by omega
          have h4' : ¬ (a.natAbs = 0) := by omega
          simp [parseFrame, toBound, toBetween, h3, h3', h4']; omega

/-- every valid frame form that is not unbounded on both sides denotes a well-formed frame -/
theorem spec_wellformed (f : FrameSyn) (hv : valid f = true) (hne : specFrame f ≠ ⟨none, none⟩) :
    wfFrame (specFrame f) = true := by
  cases f with
  | single b => cases b <;> simp [specFrame, wfFrame]
  | between lo hi =>
    cases lo <;> cases hi <;>
      simp_all [valid, rank, specFrame, value, wfFrame] <;>
      (try omega) <;> (try (have := of_decide_eq_true hv; omega))

/-- the frame unbounded on both sides is recorded as `{}` and `format` writes nothing for it -/
theorem both_unbounded_full_false :
    specFrame (.between .unboundedPreceding .unboundedFollowing) = ⟨none, none⟩ ∧
    fmtFrame ⟨none, none⟩ = some none := by
  constructor <;> rfl

end MoSql.Props.C20
