import MoSql.Lemmas.QueryProps
import MoSql.Scrub
/-!
C02 — every query clause lands under its own key with the written grouping.
Models: `MoSql.Query` (`to_union_call`) and `MoSql.Scrub` (how the named clause slots of a
statement become the keys of the result).
-/
namespace MoSql.Props.C02
open MoSql MoSql.Query MoSql.Scrub

/-- **Set operations, chains of any length**: `to_union_call` groups left to right, merges a run of
one UNION-kind operator written at the same level into a single n-ary node, and never looks inside
an operand (a parenthesised operand — already a tree — stays grouped). -/
theorem union_fold (first : J) (rest : List (String × J)) :
    fold first none rest = spec first rest.length rest :=
  fold_eq_spec rest.length rest first (Nat.le_refl _)

/-- a trailing ORDER BY / LIMIT / OFFSET attaches to the whole set operation -/
theorem order_attaches_to_whole (first : J) (rest : List (String × J)) (ob : J)
    (h : ob.isNull = false) :
    toUnionCall first rest ob .null .null = .obj [("from", fold first none rest), ("orderby", ob)] := by
  have hn : J.isNull .null = true := rfl
  simp only [toUnionCall, h, hn]
  simp

theorem no_tail_no_wrapper (first : J) (rest : List (String × J)) :
    toUnionCall first rest .null .null .null = fold first none rest := by
  have hn : J.isNull .null = true := rfl
  simp only [toUnionCall, hn]
  simp

/-- **clauses written behind a parenthesised query are kept, outside it**: `(q) ORDER BY ob LIMIT l OFFSET o` is the
query `q` — with every clause it has of its own — under `from`, and the outer clauses next to it; nothing written is
dropped and the inner query is not touched (`to_union_call` used to return `q` alone: repaired, `3ed8b7a`) -/
theorem tail_after_parenthesised_query (q ob lim off : J) (h1 : ob.isNull = false) (h2 : lim.isNull = false) (h3 : off.isNull = false) :
    toUnionCall q [] ob lim off = .obj [("from", q), ("orderby", ob), ("limit", lim), ("offset", off)] := by
  simp [toUnionCall, fold, h1, h2, h3]

/-- … and each of the three alone is enough for the wrapper -/
theorem any_tail_wraps (q ob lim off : J) (h : (ob.isNull && off.isNull && lim.isNull) = false) :
    ∃ kvs, toUnionCall q [] ob lim off = .obj (("from", q) :: kvs) := by
  simp only [toUnionCall, fold, h]
  exact ⟨_, rfl⟩

/-- **Keys are exactly the clauses present**: the keys of a statement's tree are the names of the
clause slots whose content is not empty, in slot order — for every raw statement, `calls=` mode
and `fmap`. -/
theorem clause_keys (c : Cfg) (kvs : List (String × Raw)) :
    (scrubKw c kvs).map (·.1) = (kvs.filter (fun kv => !(scrub c kv.2).isNull)).map (·.1) :=
  scrubKw_keys c kvs

/-- each present clause holds its own content -/
theorem clause_value (c : Cfg) (kvs : List (String × Raw)) (k : String) (r : Raw)
    (h : (k, r) ∈ kvs) (hn : (scrub c r).isNull = false) : (k, mark (scrub c r)) ∈ scrubKw c kvs :=
  scrubKw_value c kvs k r h hn

/-- **Items in written order**: a clause with two or more items holds exactly their trees, in
order; -/
theorem clause_items (c : Cfg) (items : List Raw) (hn : ∀ r ∈ items, (scrub c r).isNull = false)
    (hl : 2 ≤ items.length) :
    scrub c (.list items) = .arr (items.map (fun r => mark (scrub c r))) := by
  have h1 : scrub c (.list items) = collapse (items.map (scrub c)) := by
    simp [scrub, scrubList_eq_map]
  rw [h1, collapse_many _ (by simpa using hn) (by simpa using hl)]
  simp [List.map_map, Function.comp_def]

/-- a clause with exactly one item holds that item itself (no one-element list) -/
theorem clause_single (c : Cfg) (r : Raw) (hn : (scrub c r).isNull = false) :
    scrub c (.list [r]) = scrub c r := by
  simp [scrub, scrubList, collapse, hn]

end MoSql.Props.C02
