import MoSql.Lemmas.ExprSem
import MoSql.Lemmas.LevelsOK
import MoSql.Lemmas.ScrubProps
import MoSql.Lemmas.QueryProps
import MoSql.Gen.Levels
/-!
C10 — an expression parses the same in every position; redundant parentheses are inert.
Mechanism: every position runs the same `expression` grammar (one `make_tree` model for all of
them), wraps the result in `Group` layers / named slots, and `scrub` strips such layers.
-/
namespace MoSql.Props.C10
open MoSql MoSql.Scrub MoSql.OpJson

theorem levels_ok : Infix.LevelsOK Gen.levels := Infix.levelsOK_of_B (by decide)

/-- **A `Group` layer is invisible to `scrub`** (whatever the options): this is what makes the extra
parentheses around a whole expression, a function argument or a sub-query inert — for every raw
tree that is not empty. -/
theorem group_layer_inert (c : Cfg) (r : Raw) (h : (scrub c r).isNull = false) :
    scrub c (.grp r) = scrub c r := by
  simp [scrub, collapse, h]

/-- any number of layers -/
theorem group_layers_inert (c : Cfg) (r : Raw) (h : (scrub c r).isNull = false) :
    ∀ n : Nat, scrub c (Nat.rec r (fun _ x => Raw.grp x) n) = scrub c r
  | 0 => rfl
  | n + 1 => by
    have ih := group_layers_inert c r h n
    show scrub c (.grp (Nat.rec r (fun _ x => Raw.grp x) n)) = scrub c r
    rw [group_layer_inert c _ (by rw [ih]; exact h), ih]

/-- **The flattening of associative operators looks through any number of parentheses** -/
theorem flatten_through_parens (op : String) (r : Raw) :
    flattenOperand op (.grp r) = flattenOperand op r ∧
    flattenOperand op (.grp (.grp r)) = flattenOperand op r := by
  constructor <;> simp [flattenOperand, peel]

/-- **Position independence**: the value a position stores is `scrub` of the expression's raw tree
wrapped in that position's named slot; the slot's content does not depend on the other slots of the
statement (every position, every option). -/
theorem slot_content (c : Cfg) (before after : List (String × Raw)) (k : String) (r : Raw)
    (h : (scrub c r).isNull = false) :
    (k, mark (scrub c r)) ∈ scrubKw c (before ++ (k, r) :: after) :=
  scrubKw_value c _ k r (List.mem_append_right _ List.mem_cons_self) h

/-- **Parentheses around a whole expression are inert for the model of `parse`**, for every
expression that is precedence-compatible, under every option -/
theorem parens_around_expression_inert (c : Cfg) (x : J) (e : E)
    (h : (scrub c (E.evalE Gen.ctx e)).isNull = false) :
    E.parseE Gen.ctx c x (.paren e) = E.parseE Gen.ctx c x e := by
  have h1 : E.evalE Gen.ctx (.paren e) = .grp (E.evalE Gen.ctx e) := by
    simp [E.evalE, E.toW, E.evalW, Infix.makeTree, Infix.run, Infix.W.flat, E.resultVal,
      Infix.firstReduce_single, Infix.Item.asVal]
  have h2 : collapse [scrub c (E.evalE Gen.ctx e)] = scrub c (E.evalE Gen.ctx e) := by
    simp [collapse, h]
  simp only [E.parseE, h1, Scrub.run, scrub, scrubKw, h2]

end MoSql.Props.C10
