import MoSql.Gen.Effects
import MoSql.Ref
import MoSql.Lemmas.ThreadProps
/-!
C16 — concurrent calls from several threads behave as if run one at a time.
Model: `MoSql.Session` (threads, one lock, arbitrary schedules); the programs of the entry points come
from the current source (`MoSql.Gen.Effects`).  The theorem is about the lock protocol: Python's
scheduler, the parser build inside the lock and `format`'s keyword probe (which runs the shared
grammar outside `parse_locker`) are exercised by the thread soak only (partial).
-/
namespace MoSql.Props.C16
open MoSql MoSql.Session

/-- Tie A obligation on the current source: each entry point takes `parse_locker` before it touches a
parse-scoped global, installs its own values before anything reads them, and releases at the end -/
theorem lock_covers :
    Gen.entryPrograms.all (fun e => sectionOK false [] e.2.2) = true := by decide

/-- a thread may issue any number of calls one after the other -/
theorem call_sequences_ok (calls : List (List Instr)) (h : ∀ c ∈ calls, sectionOK false [] c = true) :
    sectionOK false [] calls.flatten = true := sectionOK_flatten calls h

/-- **No call observes another call's callback, NULL placeholder or rename map** — any number of
threads, any programs that obey the discipline, any schedule, any reachable state: the value a
thread is about to read is the one it installed itself. -/
theorem reads_own_values (args : Nat → String → Val) (prog : Nat → List Instr) (s0 : Store)
    (hp : ∀ t, sectionOK false [] (prog t) = true) (sched : List Nat) (t : Nat) (g : String) (p : List Instr)
    (hnext : ((runSched args (sysInit prog s0) sched).th t).todo = .use g :: p) :
    (runSched args (sysInit prog s0) sched).store g = args t g := by
  have hI := inv_sched args prog s0 sched _ (inv_init args prog s0 s0 hp)
  obtain ⟨h, d, solo, hok, _, _, hval⟩ := hI t
  rw [hnext] at hok
  simp only [sectionOK, Bool.and_eq_true, List.contains_iff_mem] at hok
  exact (hval hok.1.1 g hok.1.2).2

/-- **Serialisability, every schedule**: when a thread has finished, what its calls observed is exactly
what they observe when the thread runs alone (from any initial store `s0'`). -/
theorem serialisable (args : Nat → String → Val) (prog : Nat → List Instr) (s0 s0' : Store)
    (hp : ∀ t, sectionOK false [] (prog t) = true) (sched : List Nat) (t : Nat)
    (hdone : ((runSched args (sysInit prog s0) sched).th t).todo = []) :
    ((runSched args (sysInit prog s0) sched).th t).tr = (run (args t) (prog t) s0' []).2 := by
  have hI := inv_sched args prog s0' sched _ (inv_init args prog s0' s0 hp)
  obtain ⟨_, _, solo, _, _, hrun, _⟩ := hI t
  rw [hdone] at hrun
  simp only [run] at hrun
  rw [hrun]

/-- **All calls complete**: in every reachable state in which some thread still has work, some thread
can move (the lock holder, or — when the lock is free — anyone), so no schedule can deadlock. -/
theorem some_thread_can_move (args : Nat → String → Val) (prog : Nat → List Instr) (s0 : Store)
    (hp : ∀ t, sectionOK false [] (prog t) = true) (sched : List Nat) (u : Nat)
    (hu : ((runSched args (sysInit prog s0) sched).th u).todo ≠ []) :
    ∃ t, enabled (runSched args (sysInit prog s0) sched) t :=
  no_deadlock args prog s0 _ (inv_sched args prog s0 sched _ (inv_init args prog s0 s0 hp)) u hu

/-- non-vacuity: without the lock two interleaved calls do observe each other's values -/
example :
    let prog : Nat → List Instr := fun _ => [.set "fmap", .use "fmap"]
    let args : Nat → String → Val := fun t _ => t + 1
    ((runSched args (sysInit prog (fun _ => 0)) [0, 1, 0]).th 0).tr = [2] := by decide

example : sectionOK false [] [.acq, .set "fmap", .use "fmap", .rel] = true
    ∧ sectionOK false [] [.set "fmap", .use "fmap"] = false := by decide

/-- Tie A: no helper that handles the state the lock protects is called from outside the lock by anything but an
entry point (whose own program is judged by `lock_covers`) -/
theorem helpers_private :
    Gen.helperCallers.all (fun c => (Ref.entryPoints.map ("__init__." ++ ·)).contains c.1) = true := by
  decide

/-- Tie A: every call into the parsing engine anywhere in the package runs under `parse_locker` (the engine
keeps a global whitespace stack; `format`'s keyword probe used to run it outside the lock — repaired) -/
theorem engine_only_under_lock : Gen.engineCalls.all (·.2) = true := by decide

end MoSql.Props.C16
