import MoSql.Gen.Graph
import MoSql.Gen.Levels
import MoSql.Ref
import MoSql.Lemmas.BracketProps
import MoSql.Props.C06
import MoSql.Lemmas.LevelsOK
import MoSql.Lemmas.PegBounds
import MoSql.Lemmas.PegExample
/-!
C14 — malformed input is rejected with ParseException, never answered or crashed on.

What is proved: (1) the edits the oracle calls "certainly ill-formed" really leave every
bracket-balanced language, for token lists of any length and nesting; (2) which inputs make the
modelled parse actions raise (the only way a non-ParseException can arise); (3) the one place where
the library answers instead of rejecting (`make_tree` returning its first token); (4) for the model of the
recogniser engine (`MoSql.Peg`, tied to mo_parsing by the correspondence run in the C09 check): every match ends inside
the text, for every grammar over the three whitespace engines.  That the SQL grammar itself rejects the rest is
decided on the real parser by the oracle (partial).
-/
namespace MoSql.Props.C14
open MoSql MoSql.Brackets MoSql.Lex MoSql.Infix

/-- every written expression, of any depth and with any redundant parentheses, is bracket-balanced -/
theorem written_expression_balanced (e : E) : balanced (E.tks e) = true :=
  (E.tks_seg e).balanced

/-- **deleting any one bracket of a balanced token list leaves the balanced language** -/
theorem delete_bracket_ill_formed (ts : List Tk) (i : Nat) (hi : i < ts.length)
    (hb : balanced ts = true) (hk : ts[i] ≠ .other) : balanced (ts.eraseIdx i) = false := by
  cases h : balanced (ts.eraseIdx i) with
  | false => rfl
  | true =>
    have h1 := balanced_net _ h
    have h0 := balanced_net _ hb
    rw [net_eraseIdx ts i hi, h0] at h1
    cases hw : ts[i] with
    | other => exact absurd hw hk
    | lb => rw [hw] at h1; simp [w] at h1
    | rb => rw [hw] at h1; simp [w] at h1

/-- **an extra bracket after a complete statement** -/
theorem extra_bracket_ill_formed (ts : List Tk) (hb : balanced ts = true) (t : Tk) (ht : t ≠ .other) :
    balanced (ts ++ [t]) = false := by
  cases h : balanced (ts ++ [t]) with
  | false => rfl
  | true =>
    have h1 := balanced_net _ h
    have h0 := balanced_net _ hb
    rw [net_append, h0] at h1
    cases t with
    | other => exact absurd rfl ht
    | lb => simp [net, w] at h1
    | rb => simp [net, w] at h1

/-- **truncation inside an open bracket**: a prefix with more opening than closing brackets -/
theorem truncated_inside_bracket_ill_formed (p : List Tk) (h : 0 < net p) : balanced p = false := by
  cases hb : balanced p with
  | false => rfl
  | true => have := balanced_net _ hb; omega

/-- non-vacuity: `f ( ( a ) , b )` is balanced, and it stops being so after each kind of edit -/
example : balanced [.other, .lb, .lb, .other, .rb, .other, .other, .rb] = true
    ∧ balanced ([Tk.other, .lb, .lb, .other, .rb, .other, .other, .rb].eraseIdx 4) = false
    ∧ 0 < net [Tk.other, .lb, .lb, .other] := by decide

/-- **`single_literal` / `double_literal` cannot raise on a literal without backslash, carriage return
or NUL** (any length): the decoder returns a value -/
theorem single_literal_total_guarded (s : List Char) (hp : ∀ c ∈ s, plainChar c = true) :
    (decodeImpl (encodeSQ s)).isSome = true := by
  rw [C06.sq_impl_partial s hp]; rfl

/-- the full statement is false: a literal ending in a backslash, or containing NUL, makes the action
raise (the caller sees `mo_logs.Except`, not `ParseException`) — known findings `crash:single_literal` -/
theorem single_literal_raises :
    decodeImpl "'a\\'".toList = none ∧ decodeImpl "'a\x00b'".toList = none := by decide

/-- `parse_int` on the digits of any natural number returns that number (no conversion can fail) -/
theorem parse_int_total (n : Nat) : parseNat (digits n) = n := parseNat_digits n

/-- **answered instead of rejected**: when no operator of the level table can reduce any more,
`make_tree` returns its first token and forgets the rest — `a BETWEEN b` is answered with `a`
(known finding `answered:…`); witness on the current level table -/
theorem make_tree_answers_incomplete_ternary :
    (match (makeTree (OpJson.builders Gen.assocSet) Gen.levels
      [.val (.str "a"), .op ⟨(Gen.opInfo' "between").id, "between", .str "between"⟩, .val (.str "b")]) with
     | ⟨some (.str s), rest⟩ => s == "a" && rest.length == 2
     | _ => false) = true := by decide

/-- Tie A: every parse action attached anywhere in the current grammar graphs is one the analysis
above knows (modelled, or only exercised); a new or renamed action breaks this `decide` -/
theorem actions_classified :
    Gen.parseActions.all (fun a => Ref.actionsModelled.contains a || Ref.actionsExercised.contains a) = true := by
  decide

/-- **the recogniser engine reports positions inside the input**: whatever grammar runs on the three whitespace
engines of the SQL grammar, with whatever fuel, the text left over by a match is never longer than the text given
(the end position lies in `0 … len`) -/
theorem engine_match_ends_inside_the_text (rules : Nat → Peg.G) (fuel : Nat) (g : Peg.G) (x : Peg.Str) (ts : List Peg.Tok) (r : Peg.Str)
    (h : Peg.run { skip := Peg.engines, rule := rules } fuel g x = .ok ts r) : r.length ≤ x.length :=
  Peg.run_le (E := { skip := Peg.engines, rule := rules }) Peg.engines_le fuel g x ts r h

/-- a non-trivial match to which the statement applies -/
example : Peg.run { skip := Peg.engines, rule := fun _ => .empty } 20 Peg.Example.g "select a , b ;".toList
    = .ok [.leaf "select".toList, .leaf "a".toList, .leaf ",".toList, .leaf "b".toList] " ;".toList := by rfl

end MoSql.Props.C14
