import MoSql.Lemmas.DmlProps
/-!
C19 — DDL and DML trees keep every column, option, assignment and row in place.
Model: `MoSql.Dml` — the shaping of INSERT … VALUES in both forms the library produces, and the
flattening of a column's character set.  That the recogniser hands every written column, option,
constraint and value to these functions in source order is decided on the real parser by the oracle
over the DDL/DML generator (partial).
-/
namespace MoSql.Props.C19
open MoSql MoSql.Dml

variable {V : Type}

/-- **INSERT … VALUES pairs the i-th column with the i-th value of every row** — any number of columns
and rows, any values, both shapes (`{"values": [{col: v}…]}` chosen when there are several rows of
truthy plain literals, `{"columns", "query"}` otherwise): the value recorded for row `j` under column `i`
(by NAME in the dict shape) is the value written at position `i` of row `j`. -/
theorem insert_pairs (cs : List String) (rows : List (List (Cell V))) (hne : cs ≠ []) (hnd : cs.Nodup)
    (hlen : ∀ r ∈ rows, r.length = cs.length) (j i : Nat) (hj : j < rows.length) (hi : i < cs.length) :
    (toInsert (some cs) rows).cell cs j i
      = some ((rows[j]'hj)[i]'(by rw [hlen _ (List.getElem_mem hj)]; exact hi)).val := by
  have hrow : (rows[j]'hj).length = cs.length := hlen _ (List.getElem_mem hj)
  unfold toInsert
  by_cases hc : compactRows rows = true
  · have hemp : cs.isEmpty = false := by cases cs <;> simp_all
    simp only [hc, if_true, hemp, Bool.false_eq_true, if_false, Shape.cell]
    simp only [List.getElem?_map, List.getElem?_eq_getElem hj, Option.map_some, Option.bind_some,
      List.getElem?_eq_getElem hi]
    have := rowDict_get cs ((rows[j]'hj).map Cell.val) i hnd hi (by simpa using hrow)
    simpa using this
  · simp only [hc, Bool.false_eq_true, if_false, Shape.cell]
    simp [List.getElem?_map, List.getElem?_eq_getElem hj, hrow ▸ hi]

/-- without a column list values are kept by position, in both shapes -/
theorem insert_positional (rows : List (List (Cell V))) (j i : Nat) (hj : j < rows.length)
    (hi : i < (rows[j]'hj).length) :
    (toInsert none rows).cell [] j i = some ((rows[j]'hj)[i]'hi).val := by
  unfold toInsert
  by_cases hc : compactRows rows = true
  · simp [hc, Shape.cell, List.getElem?_map, List.getElem?_eq_getElem hj, hi]
  · simp [hc, Shape.cell, List.getElem?_map, List.getElem?_eq_getElem hj, hi]

/-- both shapes really occur (the theorem is not about one of them only) -/
example :
    (match toInsert (some ["a", "b"]) [[Cell.lit 1 true, .lit 2 true], [.lit 3 true, .lit 4 true]] with
      | .valuesDicts _ => true | _ => false) = true
    ∧ (match toInsert (some ["a", "b"]) [[Cell.lit 1 true, .other 0], [.lit 3 true, .lit 4 true]] with
      | .query _ _ => true | _ => false) = true
    ∧ (match toInsert (some ["a", "b"]) [[Cell.lit 0 false, .lit 2 true], [.lit 3 true, .lit 4 true]] with
      | .query _ _ => true | _ => false) = true := by decide

/-- the `Nodup` hypothesis is needed: a repeated column name collapses in the dict shape (the generator
does not write such statements — they are invalid SQL) -/
example : (toInsert (some ["a", "a"]) [[Cell.lit 1 true, .lit 2 true], [.lit 3 true, .lit 4 true]]).cell ["a", "a"] 0 0
    = some 2 := by decide

/-- **`to_flat_column_type` moves the character set and nothing else**: every other key of the column
and every other attribute of the type is untouched … -/
theorem flat_column_keeps_other_keys (c : ColDesc V) (k : String) (hk : (k == "character_set") = false) :
    getKey (flatColumn c).keys k = getKey c.keys k ∧ getKey (flatColumn c).typeKw k = getKey c.typeKw k := by
  unfold flatColumn
  cases h : getKey c.typeKw "character_set" with
  | none => simp
  | some cs =>
    have hk' : ("character_set" == k) = false := by
      have : k ≠ "character_set" := by simpa using hk
      simpa using fun e => this e.symm
    exact ⟨getKey_setKey_other _ _ _ _ hk', getKey_delKey_other _ _ _ hk⟩

/-- … the character set, when the type has one, is recorded on the column it was written on … -/
theorem flat_column_moves_charset (c : ColDesc V) (cs : V) (h : getKey c.typeKw "character_set" = some cs) :
    getKey (flatColumn c).keys "character_set" = some cs ∧ (flatColumn c).typeName = c.typeName := by
  unfold flatColumn
  simp [h, getKey_setKey_same]

/-- … and a column whose type has none is returned as it is -/
theorem flat_column_without_charset (c : ColDesc V) (h : getKey c.typeKw "character_set" = none) :
    flatColumn c = c := by
  unfold flatColumn; simp [h]

end MoSql.Props.C19
