import MoSql.Gen.Effects
import MoSql.Ref
import MoSql.Lemmas.ScrubProps
import MoSql.Lemmas.NormalSimple
/-!
C12 — `calls=` and `fmap=` change how applications are written, never what is written.
-/
namespace MoSql.Props.C12
open MoSql MoSql.Scrub

/-- Tie A obligation: `scrub` is a function of the tree it is given — it writes into no object of the grammar's result
(one `Call` object may sit under several parents: a rename written into it would be applied once per parent) -/
theorem scrub_writes_nothing_it_was_given :
    (Gen.argumentWrites.filter (fun w => w.startsWith "utils.scrub:")).all (fun w => Ref.allowedArgumentWrites.contains w) = true := by decide

/-- **`fmap` only chooses the name** an application is stored under: for every operation,
arguments and keyword arguments, applying `fmap` is the same as applying no `fmap` to the
renamed operation (both `calls=` modes). -/
theorem fmap_is_rename (m : Mode) (fm : List (String × String)) (op : String) (a : J)
    (kw : List (String × J)) :
    applyOp { mode := m, fmap := fm } op a kw
      = applyOp { mode := m, fmap := [] } (Cfg.rename { mode := m, fmap := fm } op) a kw := by
  cases m <;> simp [applyOp, Cfg.rename]

/-- **normal form**: a node written by `normal_op` is `{"op": name}` plus `args` only as a
non-empty list and `kwargs` only as a non-empty dict, for every operation and operands -/
theorem normal_shape (fm : List (String × String)) (op : String) (a : J) (kw : List (String × J)) :
    normalShape (applyOp { mode := .normal, fmap := fm } op a kw) = true := by
  unfold applyOp
  simp only
  cases hm : a.isMarker
  · cases ha : listwrap a with
    | nil => cases kw <;> simp [normalShape]
    | cons y ys => cases kw <;> simp [normalShape]
  · cases kw with
    | nil => simp [normalShape]
    | cons p ps =>
      have := setKey_ne_nil (p :: ps) (Cfg.rename { mode := .normal, fmap := fm } op) (.marker true)
      cases hk : J.setKey (p :: ps) (Cfg.rename { mode := .normal, fmap := fm } op) (.marker true) with
      | nil => exact absurd hk this
      | cons q qs => simp [normalShape, hk]

/-- **`calls=normal_op` writes the same tree in another notation** — for every raw parse result of any
size and depth and every `fmap`: the `normal_op` output and the default output are related by `Conv`,
the rule-by-rule notation change ({"op": n, "args": […], "kwargs": {…}}  ↔  {n: args unwrapped, **kwargs},
everything else component-wise).  Partial: calls whose whole argument list is the bare NULL placeholder
(`f(null)`) are excluded — known finding `normal_op:sole-null-arg`. -/
theorem normal_is_notation_for_simple (fm : List (String × String)) (r : Raw)
    (h : noSoleNull { mode := .normal, fmap := fm } r = true) :
    Conv (scrub { mode := .normal, fmap := fm } r) (scrub { mode := .simple, fmap := fm } r) :=
  conv_scrub fm r h

/-- the hypothesis is met by nested calls with keyword arguments and NULLs among several arguments,
and it does exclude `f(null)` -/
example :
    noSoleNull { mode := .normal, fmap := [("f", "g")] }
      (.dict [("select", .call "f" (.list [.call "add" (.list [.str "a", .int 1]) [], .sqlNull]) [("k", .str "v")])]) = true
    ∧ noSoleNull { mode := .normal, fmap := [] } (.call "f" .sqlNull []) = false := by decide

end MoSql.Props.C12
