import MoSql.Lemmas.ScrubProps
/-!
C08 — results are plain JSON in the documented simplified form.
Model: `MoSql.Scrub` (`utils.scrub`, `simple_op`, `normal_op`, `fmap`, `null_locations`, the
substitution loop of `_parse`), tied to the code by the stub-parser correspondence.
-/
namespace MoSql.Props.C08
open MoSql MoSql.Scrub

/-- **Simplified form, every raw tree, every `fmap`** (default `calls=`): what `scrub` returns is
either the bare NULL placeholder (whose slot the caller records) or a value in which every list
has at least two elements, no list element or dict value is `None`, no internal object occurs
and every NULL placeholder sits in a recorded slot. -/
theorem scrub_simple_wellShaped (fmap : List (String × String)) (r : Raw) (h : noCrash r = true) :
    wsOrBare (scrub { mode := .simple, fmap := fmap } r) = true :=
  ws_scrub _ rfl r h

/-- statements are dict-shaped: their scrubbed form is never the bare placeholder -/
theorem statement_wellShaped (fmap : List (String × String)) (kvs : List (String × Raw))
    (h : noCrashKw kvs = true) :
    wellShaped (scrub { mode := .simple, fmap := fmap } (.dict kvs)) = true := by
  have := ws_scrubKw { mode := .simple, fmap := fmap } rfl kvs h
  simpa [scrub, wellShaped] using this

/-- **Plain JSON under every `null=X`**: after `for o, n in null_locations: o[n] = null` nothing
library-internal and no unsubstituted placeholder is left, for every statement-shaped raw tree,
every `fmap` and every plain replacement value `X`. -/
theorem statement_plain (fmap : List (String × String)) (kvs : List (String × Raw)) (x : J)
    (h : noCrashKw kvs = true) (hx : noInternal x = true) :
    noInternal (run { mode := .simple, fmap := fmap } x (.dict kvs)) = true :=
  noInternal_finalize x hx _ (statement_wellShaped fmap kvs h)

/-- the full statement is FALSE for `calls=normal_op`: a sole NULL argument leaks the internal
`Call` object (known finding `normal_op:sole-null-arg`) -/
theorem normal_op_full_false :
    (run { mode := .normal } sqlNullNode (.dict [("select", .call "f" (.list [.sqlNull]) [])])).beq
      (.obj [("select", .obj [("op", .str "f"), ("args", .arr [.opaque "Call"])])]) = true := by
  decide

/-- non-vacuity: a statement with NULL in a list, in a dict slot and as a sole argument -/
example : noInternal (run {} sqlNullNode (.dict [("select",
    .call "f" (.list [.sqlNull, .str "a", .call "g" .sqlNull [("k", .sqlNull)]]) [])])) = true := by
  decide

end MoSql.Props.C08
