import MoSql.Lemmas.ScrubProps
import MoSql.OpJson
/-!
C11 — `null=X` is exactly "replace every NULL node by X".
-/
namespace MoSql.Props.C11
open MoSql MoSql.Scrub

/-- **Every raw tree, every `calls=` mode, every `fmap`, every `X`**: the result for `null=X` is
the default result with each `{"null": {}}` node replaced by `X` and nothing else changed —
provided the scrubbed tree contains no `{"null": {}}`-shaped node of its own (a decidable
condition; SQL has no function called `null`). -/
theorem null_subst (c : Cfg) (x : J) (r : Raw) (h : noNullNode (scrub c r) = true) :
    run c x r = substNull x (run c sqlNullNode r) :=
  finalize_subst x _ h

/-- the comparison folds (`= NULL` → `missing`, `<> NULL` → `exists`) are made by
`to_json_operator`, which never sees `null=`: they are the same for every `X` -/
theorem compare_fold_independent (assoc : List String) (a : Raw) :
    OpJson.mkBinary assoc "eq" a .sqlNull = .call "missing" a [] ∧
    OpJson.mkBinary assoc "neq" a .sqlNull = .call "exists" a [] := by
  constructor <;> simp [OpJson.mkBinary, OpJson.isSqlNull]

/-- under `calls=normal_op` the substitution does not reach a sole NULL argument (known
finding): with `X = 0` the placeholder is still there -/
theorem normal_op_full_false :
    (run { mode := .normal } (.int 0) (.dict [("select", .call "f" .sqlNull [])])).beq
      (.obj [("select", .obj [("op", .str "f"), ("args", .arr [.opaque "Call"])])]) = true := by
  decide

/-- non-vacuity of `null_subst` -/
example : noNullNode (scrub {} (.dict [("select", .call "f" (.list [.sqlNull, .str "a"]) [("k", .sqlNull)])])) = true := by
  decide

end MoSql.Props.C11
