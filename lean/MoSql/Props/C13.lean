import MoSql.Gen.Lexemes
import MoSql.Ref
import MoSql.Lemmas.ScriptProps
import MoSql.Lemmas.ManyCommandProps
/-!
C13 — a script parses to the list of its statements' trees.
Model: `MoSql.Script` (`parse_delimiters` and the accumulation loop of `_parse`).
-/
namespace MoSql.Props.C13
open MoSql MoSql.Script

/-- **Flatten rule, any number of lines and statements**: if every line contributes the trees of
its statements (non-empty dicts), the result of `_parse` is `None` for no statement, the tree
itself for exactly one, and otherwise the list of all trees in order — however the statements
are distributed over lines and however many lines are empty. -/
theorem flatten_rule (lines : List (List J)) (h : ∀ l ∈ lines, ∀ t ∈ l, isStmtTree t = true) :
    parseResult lines = unwrap lines.flatten := by
  simp [parseResult, accumulate_lines lines h]

theorem no_statement : parseResult [] = .null ∧ parseResult [[], []] = .null := ⟨rfl, rfl⟩

theorem single_statement (t : J) (h : isStmtTree t = true) : parseResult [[t]] = t := by
  rw [flatten_rule [[t]] (by simpa using h)]; rfl

/-- **Custom delimiter, any number of statements**: `s₁ d⏎ s₂ d⏎ … sₙ d⏎` is cut into exactly
`s₁ … sₙ` when no character of `d` occurs in a statement (partial: a delimiter character inside a
literal or comment is cut as well — known findings `delim:*`). -/
theorem split_inverts_join (d : List Char) (hd : d ≠ []) (ss : List (List Char))
    (h : ∀ s ∈ ss, (∀ c ∈ s, c ∉ d) ∧ startsNonWs s = true) :
    splitBlock d (joinD d ss).length (joinD d ss) = ss ++ [[]] := by
  refine splitBlock_joinD d hd ss _ ?_ h
  induction ss with
  | nil => simp
  | cons s rest ih =>
    have := ih (fun x hx => h x (List.mem_cons_of_mem _ hx))
    simp only [joinD, List.length_append, List.length_cons] at this ⊢
    omega

/-- without a directive the whole text is one block, handed to the statement parser unsplit
(semicolons are then separated by the grammar, which knows about literals and comments) -/
theorem no_directive_one_block (sql : List Char) (h : findDirective sql 0 true = none) :
    pieces sql = if (strip sql).isEmpty then [] else [.stmt (strip sql)] :=
  pieces_no_directive sql h

/-- **A directive is scoped**: what precedes it is split with the delimiter in force before it,
the directive is its own entry, and only what follows is split with the new delimiter. -/
theorem directive_scoped (fuel : Nat) (sql delim : List Char) (st en : Nat) (g : List Char)
    (h : findDirective sql 0 true = some (st, en, g)) :
    parseDelimiters (fuel + 1) sql delim =
      (if (strip (sql.take st)).isEmpty then []
       else if delim == [';'] then [Piece.stmt (strip (sql.take st))]
       else (splitBlock delim (strip (sql.take st)).length (strip (sql.take st))).map Piece.stmt)
      ++ [Piece.directive ((sql.drop st).take (en - st))]
      ++ parseDelimiters fuel (sql.drop en) (strip g) := by
  simp [parseDelimiters, h]

/-- **`;`-separated statements, any number of them**: leading semicolons, any run of one or more
semicolons between statements (doubled separators included), any trailing run — the grammar's
`many_command` returns exactly the statements, in order.  (A `;` inside a literal, a quoted name or a
comment is not a separator token; that is the lexer's doing and is exercised by the oracle.) -/
theorem many_split {S : Type} (lead : Nat) (xs : List (S × Nat)) (h : ManyCommand.separated xs = true) :
    ManyCommand.manyCommand (ManyCommand.semis lead ++ ManyCommand.body xs) = some (xs.map (·.1)) := by
  unfold ManyCommand.manyCommand
  rw [ManyCommand.go_semis0, ManyCommand.go_body xs h]

/-- two statements without a separator are not a script (parse_all fails), and the hypothesis of
`many_split` is met by a script with leading, doubled and trailing separators -/
example : ManyCommand.manyCommand [ManyCommand.Tk.stmt 1, .stmt 2] = none
    ∧ ManyCommand.separated [(1, 2), (2, 1), (3, 0)] = true
    ∧ ManyCommand.manyCommand (ManyCommand.semis 2 ++ ManyCommand.body [(1, 2), (2, 1), (3, 3)]) = some [1, 2, 3] := by
  decide

/-- the full statement is false: the textual split ignores quoting (witness: a literal
containing `$$⏎` under `DELIMITER $$` is cut in the middle) -/
theorem delimiter_in_literal_full_false :
    splitBlock "$$".toList 40 "select '$$\n' $$".toList
      = ["select '".toList, "' ".toList, []] := by decide

/-- Tie A: the regular expressions the model was written against are the ones the current source
compiles (regenerated on every run) -/
theorem patterns_pinned :
    ["delimiter_pattern", "delimiter_flags"].all (fun n =>
      ((Gen.lexPatterns.find? (·.1 == n)).map (·.2)) == ((Ref.lexPatterns.find? (·.1 == n)).map (·.2))) = true := by
  decide

end MoSql.Props.C13
