import MoSql.Props.C04
/-!
C03 — parse → format → parse is the identity on the formatter-supported fragment.
The expression core is carried by the C01/C04 theorems; the clause level is decided by the
round-trip oracle on generated and corpus statements.
-/
namespace MoSql.Props.C03
open MoSql MoSql.Fmt

/-- **format's output always parses, with nothing dropped** (infix core, every depth): for every tree
over the `Operator(...)` vocabulary avoiding the listed triples, every activation of `make_tree` on
the formatter's text consumes all of its tokens — the model of `parse` never answers the formatted
text with a truncated tree. -/
theorem format_output_fully_consumed (t : T) (p : Int)
    (h : admissible Gen.knownFmtTriples Gen.fmtOps t = true) :
    E.dropsTop Gen.ctx (fmtE Gen.fmtOps t p) = false :=
  E.dropsTop_of_okTop Gen.ctx C04.levels_ok _ (C04.fmt_output_compatible t p h)

/-- … and what it parses to is the semantics of what was written (from C04) -/
theorem format_then_parse (t : T) (p : Int)
    (h : admissible Gen.knownFmtTriples Gen.fmtOps t = true) :
    E.evalE Gen.ctx (fmtE Gen.fmtOps t p) = E.sem Gen.ctx (fmtE Gen.fmtOps t p) :=
  C04.parse_of_format t p h

/-- **Parentheses written by format are exactly as strong as needed at the top**: asked for the
loosest context (`prec = 100`, a select item), format writes no outer parentheses around an
operator expression. -/
theorem no_outer_parens (k : Nat) (l r : T) (hk : (Gen.fmtOps.getD k default).prec2 < 200) :
    fmtE Gen.fmtOps (.bin k l r) 200 =
      body (Gen.fmtOps.getD k default)
        (fmtE Gen.fmtOps l (slotPrec (Gen.fmtOps.getD k default) 0))
        (fmtE Gen.fmtOps r (slotPrec (Gen.fmtOps.getD k default) 1)) := by
  have hb : bare 200 (Gen.fmtOps.getD k default) = true := by
    simp [bare]; left; exact hk
  simp only [fmtE, hb, if_true]

end MoSql.Props.C03
