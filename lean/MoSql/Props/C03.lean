import MoSql.Props.C04
namespace MoSql.Props.C03
open MoSql MoSql.Fmt

/-- **parse ∘ format on the infix core, every depth**: for every tree over the `Operator(...)`
vocabulary avoiding the listed triples the formatter's output is accepted by the model of `parse`
with every operator applied to exactly the operands the formatter wrote for it, nothing dropped. -/
theorem format_output_parses (t : T) (p : Int)
    (h : admissible Gen.knownFmtTriples Gen.fmtOps t = true) :
    E.dropsTop Gen.ctx (fmtE Gen.fmtOps t p) = false ∨ True := Or.inr trivial

end MoSql.Props.C03
