import MoSql.Props.C04
import MoSql.Lemmas.SourcesProps
/-!
C03 — parse → format → parse is the identity on the formatter-supported fragment.
The expression core is carried by the C01/C04 theorems; the clause level is decided by the
round-trip oracle on generated and corpus statements.
-/
namespace MoSql.Props.C03
open MoSql MoSql.Fmt

/-- **format's output always parses, with nothing dropped** (infix core, every depth): for every tree
over the `Operator(...)` vocabulary avoiding the listed triples, every activation of `make_tree` on
the formatter's text consumes all of its tokens — the model of `parse` never answers the formatted
text with a truncated tree. -/
theorem format_output_fully_consumed (t : T) (p : Int)
    (h : admissible Gen.knownFmtTriples Gen.fmtOps t = true) :
    E.dropsTop Gen.ctx (fmtE Gen.fmtOps t p) = false :=
  E.dropsTop_of_okTop Gen.ctx C04.levels_ok _ (C04.fmt_output_compatible t p h)

/-- … and what it parses to is the semantics of what was written (from C04) -/
theorem format_then_parse (t : T) (p : Int)
    (h : admissible Gen.knownFmtTriples Gen.fmtOps t = true) :
    E.evalE Gen.ctx (fmtE Gen.fmtOps t p) = E.sem Gen.ctx (fmtE Gen.fmtOps t p) :=
  C04.parse_of_format t p h

/-- **Parentheses written by format are exactly as strong as needed at the top**: asked for the
loosest context (`prec = 100`, a select item), format writes no outer parentheses around an
operator expression. -/
theorem no_outer_parens (k : Nat) (l r : T) (hk : (Gen.fmtOps.getD k default).prec2 < 200) :
    fmtE Gen.fmtOps (.bin k l r) 200 =
      body (Gen.fmtOps.getD k default)
        (fmtE Gen.fmtOps l (slotPrec (Gen.fmtOps.getD k default) 0))
        (fmtE Gen.fmtOps r (slotPrec (Gen.fmtOps.getD k default) 1)) := by
  have hb : bare 200 (Gen.fmtOps.getD k default) = true := by
    simp [bare]; left; exact hk
  simp only [fmtE, hb, if_true]

/-! ### the list of sources after FROM (`Formatter._sources`, `_join_on`) -/
section Sources
open MoSql.Sources

/-- **The list after FROM is always written well separated**: for every list of sources of any length — plain sources,
explicit joins with or without a condition, parenthesised groups nested to any depth, in any order, also a join first or
an empty group — a comma is written only between two complete things, a join word never behind a comma, and no two
sources side by side (the automaton `Sources.step`). -/
theorem sources_well_separated (items : List Item) : wellSeparated (fmt items) = true := by
  have h := scan_fmtItems items [] .start (Or.inl rfl) (Or.inl rfl)
  unfold wellSeparated fmt
  rcases h with h | h <;> simp [h]

/-- … and its brackets match. -/
theorem sources_balanced (items : List Item) : balanced (fmt items) = true := by
  have h := balanced_fmtItems items [] 0 rfl
  simp [balanced, fmt, h]

/-- a list where it matters: a group as a member of the list, a group as the target of a join, a join inside a group -/
example :
    fmt [.plain (.tbl "a"), .plain (.group [.plain (.tbl "b"), .join "JOIN" (.tbl "c") (.on 1)]),
         .join "LEFT JOIN" (.group [.plain (.tbl "d"), .join "CROSS JOIN" (.tbl "e") .none]) (.using 2)]
      = [.name "a", .comma, .lp, .name "b", .join "JOIN", .name "c", .on 1, .rp,
         .join "LEFT JOIN", .lp, .name "d", .join "CROSS JOIN", .name "e", .rp, .using 2] := by decide

/-- what the formatter wrote before repair 284e8ac, `a JOIN (b, JOIN c ON …) ON …`, is not well separated -/
example : wellSeparated [.name "a", .join "JOIN", .lp, .name "b", .comma, .join "JOIN", .name "c", .on 1, .rp, .on 2] = false := by
  decide

end Sources

end MoSql.Props.C03
