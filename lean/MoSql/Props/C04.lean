import MoSql.Lemmas.FormatCompat
import MoSql.Lemmas.FormatCompat2
import MoSql.Lemmas.ExprSem
import MoSql.Lemmas.LevelsOK
import MoSql.Gen.FmtTable
/-!
C04 — format preserves meaning for every well-formed tree: the formatter's knowledge of
precedence agrees with the parser's for every ordered pair of operators and operand slot.
-/
namespace MoSql.Props.C04
open MoSql MoSql.Infix MoSql.Fmt

/-- Table obligation (re-decided on every run over the regenerated tables): for every ordered
pair of `Operator(...)` renderers and both operand slots, whenever `Operator.func` writes the
inner operator WITHOUT parentheses, the parser's level table keeps it as that operand —
except for the triples listed in known_findings.json. -/
theorem fmt_table_sound : soundTable Gen.knownFmtTriples Gen.fmtOps = true := by decide

/-- every `Operator(...)` renderer writes a binary operator that the parser's table knows -/
theorem fmt_table_wf : wfTable Gen.levels Gen.fmtOps = true := by decide

theorem levels_ok : LevelsOK Gen.levels := levelsOK_of_B (by decide)

/-- **C04 (infix core, every depth).**  For every tree over the `Operator(...)` vocabulary that
avoids the listed triples, and every outer precedence `p`, the text `format` emits is
precedence-compatible at every parenthesis level under the parser's current table … -/
theorem fmt_output_compatible (t : T) (p : Int)
    (h : admissible Gen.knownFmtTriples Gen.fmtOps t = true) :
    E.okTop Gen.ctx (fmtE Gen.fmtOps t p) = true :=
  okTop_fmtE Gen.ctx Gen.knownFmtTriples Gen.fmtOps fmt_table_sound fmt_table_wf t p h

/-- … hence (C01) the parser applies every operator to exactly the operands the formatter
wrote for it: parsing the formatter's output yields the demanded semantics of that output. -/
theorem parse_of_format (t : T) (p : Int)
    (h : admissible Gen.knownFmtTriples Gen.fmtOps t = true) :
    E.evalE Gen.ctx (fmtE Gen.fmtOps t p) = E.sem Gen.ctx (fmtE Gen.fmtOps t p) :=
  E.evalE_eq_sem Gen.ctx levels_ok _ (fmt_output_compatible t p h)

/-! ### the whole expression vocabulary: `Operator(...)` renderers and the hand-written ones -/

/-- Table obligation over EVERY expression renderer (21 `Operator(...)` ones and `_not`, `_binary_not`,
`_missing`, `_exists`, `_in`, `_nin`, `_regexp`, `_not_regexp`, `_between`, `_not_between`), whose use of
precedence is MEASURED on the real `Formatter` on every run: for every ordered pair of renderers and every
operand slot, whenever the outer one leaves the inner one without parentheses, the parser's level table
keeps it as that operand.  No exception list. -/
theorem all_renderers_sound : Fmt2.soundTable [] Gen.allOps = true := by decide

/-- every renderer writes an operator of the kind (prefix / binary / ternary) the parser's table has at that level -/
theorem all_renderers_wf : Fmt2.wfTable Gen.levels Gen.allOps = true := by decide

/-- **C04, whole expression vocabulary, every depth**: for every tree built from these 31 operators (any nesting
of NOT, ~, IS [NOT] NULL, [NOT] IN, [NOT] BETWEEN, [NOT] REGEXP, the LIKE family, comparisons, arithmetic, bit
operators, AND, OR) and every outer precedence, the text `format` emits is precedence-compatible at every
parenthesis level under the parser's current table … -/
theorem fmt_all_compatible (t : T2) (p : Int) (h : Fmt2.admissible [] Gen.allOps t = true) :
    E.okTop Gen.ctx (Fmt2.fmt Gen.allOps t p) = true :=
  Fmt2.okTop_fmt Gen.ctx [] Gen.allOps all_renderers_sound all_renderers_wf t p h

/-- … hence the parser applies every operator to exactly the operands the formatter wrote for it, and drops nothing -/
theorem parse_of_format_all (t : T2) (p : Int) (h : Fmt2.admissible [] Gen.allOps t = true) :
    E.evalE Gen.ctx (Fmt2.fmt Gen.allOps t p) = E.sem Gen.ctx (Fmt2.fmt Gen.allOps t p)
      ∧ E.dropsTop Gen.ctx (Fmt2.fmt Gen.allOps t p) = false :=
  ⟨E.evalE_eq_sem Gen.ctx levels_ok _ (fmt_all_compatible t p h),
   E.dropsTop_of_okTop Gen.ctx levels_ok _ (fmt_all_compatible t p h)⟩

/-- the hypothesis is met by a tree mixing hand-written and `Operator` renderers four levels deep:
`NOT ((a IS NULL) BETWEEN b AND (c + d)) AND e` -/
example :
    let i := fun (n : String) => (Gen.allOps.findIdx? (·.name == n)).getD 0
    Fmt2.admissible [] Gen.allOps
      (.bin (i "and")
        (.un (i "not") (.tern (i "between") (.un (i "missing") (.leaf "a" (.str "a"))) (.leaf "b" (.str "b"))
          (.bin (i "add") (.leaf "c" (.str "c")) (.leaf "d" (.str "d")))))
        (.leaf "e" (.str "e"))) = true := by decide

end MoSql.Props.C04
