import MoSql.Lemmas.FormatCompat
import MoSql.Lemmas.ExprSem
import MoSql.Lemmas.LevelsOK
import MoSql.Gen.FmtTable
/-!
C04 — format preserves meaning for every well-formed tree: the formatter's knowledge of
precedence agrees with the parser's for every ordered pair of operators and operand slot.
-/
namespace MoSql.Props.C04
open MoSql MoSql.Infix MoSql.Fmt

/-- Table obligation (re-decided on every run over the regenerated tables): for every ordered
pair of `Operator(...)` renderers and both operand slots, whenever `Operator.func` writes the
inner operator WITHOUT parentheses, the parser's level table keeps it as that operand —
except for the triples listed in known_findings.json. -/
theorem fmt_table_sound : soundTable Gen.knownFmtTriples Gen.fmtOps = true := by decide

/-- every `Operator(...)` renderer writes a binary operator that the parser's table knows -/
theorem fmt_table_wf : wfTable Gen.levels Gen.fmtOps = true := by decide

theorem levels_ok : LevelsOK Gen.levels := levelsOK_of_B (by decide)

/-- **C04 (infix core, every depth).**  For every tree over the `Operator(...)` vocabulary that
avoids the listed triples, and every outer precedence `p`, the text `format` emits is
precedence-compatible at every parenthesis level under the parser's current table … -/
theorem fmt_output_compatible (t : T) (p : Int)
    (h : admissible Gen.knownFmtTriples Gen.fmtOps t = true) :
    E.okTop Gen.ctx (fmtE Gen.fmtOps t p) = true :=
  okTop_fmtE Gen.ctx Gen.knownFmtTriples Gen.fmtOps fmt_table_sound fmt_table_wf t p h

/-- … hence (C01) the parser applies every operator to exactly the operands the formatter
wrote for it: parsing the formatter's output yields the demanded semantics of that output. -/
theorem parse_of_format (t : T) (p : Int)
    (h : admissible Gen.knownFmtTriples Gen.fmtOps t = true) :
    E.evalE Gen.ctx (fmtE Gen.fmtOps t p) = E.sem Gen.ctx (fmtE Gen.fmtOps t p) :=
  E.evalE_eq_sem Gen.ctx levels_ok _ (fmt_output_compatible t p h)

end MoSql.Props.C04
