import MoSql.Lex
/-
The identifier alternatives of the four dialect parsers (`sql_parser.py:22-43`), as first-match
choices over the token matchers of `MoSql.Lex`, plus `ident_w_dash` (BigQuery / MySQL names with
glued dashes).
-/
namespace MoSql.Dialect
open MoSql.Lex

/-- the loop of `ident_w_dash`:  (?:(?<=[^ 0-9])\-(?=[^ 0-9])|[IDENT])*  — `prev` is the character before -/
def dashLoop (rest : List (Nat × Nat)) : Char → List Char → List Char × List Char
  | _, [] => ([], [])
  | prev, c :: cs =>
    if inRanges rest c then
      let r := dashLoop rest c cs
      (c :: r.1, r.2)
    else if c == '-' && !(prev == ' ' || isDigit prev) then
      match cs with
      | n :: _ =>
        if !(n == ' ' || isDigit n) then
          let r := dashLoop rest c cs
          (c :: r.1, r.2)
        else ([], c :: cs)
      | [] => ([], c :: cs)
    else ([], c :: cs)

def matchDashWord (first rest : List (Nat × Nat)) : List Char → Option (List Char × List Char)
  | [] => none
  | c :: cs =>
    if inRanges first c then
      let r := dashLoop rest c cs
      some (c :: r.1, r.2)
    else none

inductive Kind where
  | ansi | backtick | square | word | dashWord
  deriving DecidableEq, Repr

structure Tables where
  first : List (Nat × Nat)
  rest : List (Nat × Nat)
  localFirst : List (Nat × Nat)     -- "@" + FIRST_IDENT_CHAR of `sqlserver_local_ident`

def alt (t : Tables) : Kind → List Char → Option (List Char × List Char)
  | .ansi, s => matchQuoted dq dq s
  | .backtick, s => matchQuoted bt bt s
  | .square, s => matchQuoted '[' rb s
  | .word, s => matchWord t.first t.rest s
  | .dashWord, s => matchDashWord t.first t.rest s

/-- `a | b | c`: the first alternative that matches -/
def firstMatch (ms : List (List Char → Option (List Char × List Char))) (s : List Char) : Option (List Char × List Char) :=
  match ms with
  | [] => none
  | m :: rest =>
    match m s with
    | some r => some r
    | none => firstMatch rest s

inductive D where
  | common | mysql | sqlserver | bigquery
  deriving DecidableEq, Repr

/-- `atomic_ident` of each dialect parser -/
def atomicIdent (t : Tables) : D → List Char → Option (List Char × List Char)
  | .common => firstMatch [alt t .ansi, alt t .backtick, alt t .word]
  | .mysql => firstMatch [alt t .backtick, alt t .square, alt t .dashWord]
  | .sqlserver => firstMatch [alt t .ansi, alt t .backtick, alt t .square, matchWord t.localFirst t.rest]
  | .bigquery => firstMatch [alt t .ansi, alt t .backtick, alt t .dashWord]

/-- no `-` directly after a name character -/
def noDashAfterName (rest : List (Nat × Nat)) : List Char → Bool
  | a :: b :: cs => !(inRanges rest a && b == '-') && noDashAfterName rest (b :: cs)
  | _ => true

/-- every range of `a` lies inside one range of `b` -/
def rangesSubset (a b : List (Nat × Nat)) : Bool :=
  a.all fun r => b.any fun q => q.1 ≤ r.1 && r.2 ≤ q.2

end MoSql.Dialect
