/-
Python values as the models see them.  `J` is what `parse` returns / `format` receives:
dict, list, str, int, float, bool, None — plus two constructors for what must NOT be there:
`opaque` (a library-internal object such as a leaked `Call`) and `marker` (the `SQL_NULL`
placeholder before `null_locations` has been applied; the flag says whether a slot was
recorded for the position it sits in).
Floats are carried as their `repr` text: no arithmetic is ever done on them.
-/
namespace MoSql

inductive J where
  | null
  | bool (b : Bool)
  | int (i : Int)
  | flt (s : String)
  | str (s : String)
  | arr (xs : List J)
  | obj (kvs : List (String × J))
  | opaque (what : String)
  | marker (slot : Bool)
  deriving Repr, Inhabited

namespace J

mutual
def beq : J → J → Bool
  | .null, .null => true
  | .bool a, .bool b => a == b
  | .int a, .int b => a == b
  | .flt a, .flt b => a == b
  | .str a, .str b => a == b
  | .arr xs, .arr ys => beqList xs ys
  | .obj xs, .obj ys => beqKvs xs ys
  | .opaque a, .opaque b => a == b
  | .marker a, .marker b => a == b
  | _, _ => false
def beqList : List J → List J → Bool
  | [], [] => true
  | x :: xs, y :: ys => beq x y && beqList xs ys
  | _, _ => false
def beqKvs : List (String × J) → List (String × J) → Bool
  | [], [] => true
  | (k, x) :: xs, (l, y) :: ys => k == l && beq x y && beqKvs xs ys
  | _, _ => false
end

instance : BEq J := ⟨beq⟩

def isNull : J → Bool
  | .null => true
  | _ => false

def isMarker : J → Bool
  | .marker _ => true
  | _ => false

/-- `d[k] = v` on an insertion-ordered dict -/
def setKey (kvs : List (String × J)) (k : String) (v : J) : List (String × J) :=
  match kvs with
  | [] => [(k, v)]
  | (k', v') :: rest => if k' == k then (k', v) :: rest else (k', v') :: setKey rest k v

def getKey (kvs : List (String × J)) (k : String) : Option J :=
  match kvs with
  | [] => none
  | (k', v) :: rest => if k' == k then some v else getKey rest k

/-! canonical text (keys sorted) — used only by the driver -/

def escapeStr (s : String) : String :=
  s.foldl (fun acc c =>
    if c == '"' then acc ++ "\\\"" else if c == '\\' then acc ++ "\\\\"
    else if c == '\n' then acc ++ "\\n" else if c == '\r' then acc ++ "\\r"
    else if c == '\t' then acc ++ "\\t"
    else if c.toNat < 32 then
      let h := Nat.toDigits 16 c.toNat
      acc ++ "\\u" ++ String.ofList (List.replicate (4 - h.length) '0' ++ h)
    else acc.push c) ""

def insertSorted (kv : String × String) : List (String × String) → List (String × String)
  | [] => [kv]
  | x :: xs => if kv.1 < x.1 then kv :: x :: xs else x :: insertSorted kv xs

mutual
def render : J → String
  | .null => "{\"$none\":1}"
  | .bool true => "true"
  | .bool false => "false"
  | .int i => "{\"$i\":\"" ++ toString i ++ "\"}"
  | .flt s => "{\"$f\":\"" ++ s ++ "\"}"
  | .str s => "\"" ++ escapeStr s ++ "\""
  | .arr xs => "[" ++ ",".intercalate (renderList xs) ++ "]"
  | .obj kvs =>
    let parts := (renderKvs kvs).foldl (fun acc kv => insertSorted kv acc) []
    "{" ++ ",".intercalate (parts.map fun (k, v) => "\"" ++ escapeStr k ++ "\":" ++ v) ++ "}"
  | .opaque w => "{\"$obj\":\"" ++ escapeStr w ++ "\"}"
  | .marker b => "{\"$marker\":" ++ (if b then "true" else "false") ++ "}"
def renderList : List J → List String
  | [] => []
  | x :: xs => render x :: renderList xs
def renderKvs : List (String × J) → List (String × String)
  | [] => []
  | (k, v) :: rest => (k, render v) :: renderKvs rest
end

end J
end MoSql
