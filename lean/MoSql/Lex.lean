/-
Lexeme codecs of `utils.py` / `formatting.py`, on `List Char`:

  * `encodeSQ`      — `Formatter._literal`: `"'" + s.replace("'", "''") + "'"`
  * `matchSQ`       — the body part of `ansi_string`  `\'(?:\'\'|[^'])*\'`  (longest match of a greedy,
                      backtracking regex = maximal run of doubled quotes / other characters, then a quote)
  * `decodeSpec`    — what SQL says a quoted literal denotes (undouble the quotes)
  * `decodeImpl`    — `utils.single_literal`: wrap the body in `\"\"\"…\"\"\"`, rewrite `''`→`\'`, `"`→`\"`, and have
                      Python evaluate it (`ast.literal_eval`); `pyEval` models Python's string-literal rules
  * `encodeDQ` / `decodeImplDQ` — double-quoted literals of the MySQL / BigQuery entry points
  * decimal integers.
-/
namespace MoSql.Lex

def q : Char := '\''
def dq : Char := '"'
def bs : Char := '\\'

/-! ### single-quoted literals -/

def doubleQuotes (quote : Char) : List Char → List Char
  | [] => []
  | c :: cs => if c == quote then quote :: quote :: doubleQuotes quote cs else c :: doubleQuotes quote cs

/-- `_literal` -/
def encodeSQ (s : List Char) : List Char := q :: (doubleQuotes q s ++ [q])

/-- body of a quoted token: consume `(qq | [^q])*` greedily — with the regex engine's backtracking:
a doubled quote is a pair if the rest can still be matched, otherwise its first quote closes the
token.  Returns (body, rest after the closing quote). -/
def matchBody (quote : Char) : List Char → Option (List Char × List Char)
  | [] => none
  | c :: cs =>
    if c == quote then
      match cs with
      | c2 :: cs2 =>
        if c2 == quote then
          match matchBody quote cs2 with
          | some (b, r) => some (quote :: quote :: b, r)
          | none => some ([], cs)
        else some ([], cs)
      | [] => some ([], [])
    else (matchBody quote cs).map fun (b, r) => (c :: b, r)

/-- `\'(?:\'\'|[^'])*\'` anchored at the start: (body, rest) -/
def matchSQ : List Char → Option (List Char × List Char)
  | c :: cs => if c == q then matchBody q cs else none
  | [] => none

/-- SQL: a doubled quote inside the literal denotes one quote -/
def undouble (quote : Char) : List Char → List Char
  | [] => []
  | [c] => [c]
  | c :: c2 :: cs => if c == quote && c2 == quote then quote :: undouble quote cs else c :: undouble quote (c2 :: cs)

def decodeSpec (tok : List Char) : Option (List Char) :=
  (matchSQ tok).map fun (b, _) => undouble q b

/-! ### what the implementation does: Python evaluates the text -/

/-- `body.replace("''", "\\'")` (left to right, non-overlapping) -/
def replacePairs (quote : Char) (by1 by2 : Char) : List Char → List Char
  | [] => []
  | [c] => [c]
  | c :: c2 :: cs =>
    if c == quote && c2 == quote then by1 :: by2 :: replacePairs quote by1 by2 cs
    else c :: replacePairs quote by1 by2 (c2 :: cs)

/-- `.replace('"', '\\"')` -/
def escapeDq : List Char → List Char
  | [] => []
  | c :: cs => if c == dq then bs :: dq :: escapeDq cs else c :: escapeDq cs

def isOct (c : Char) : Bool := '0' ≤ c && c ≤ '7'
def isHex (c : Char) : Bool := ('0' ≤ c && c ≤ '9') || ('a' ≤ c && c ≤ 'f') || ('A' ≤ c && c ≤ 'F')
def hexVal (c : Char) : Nat :=
  if '0' ≤ c && c ≤ '9' then c.toNat - '0'.toNat
  else if 'a' ≤ c && c ≤ 'f' then c.toNat - 'a'.toNat + 10
  else c.toNat - 'A'.toNat + 10

def hexNum (cs : List Char) : Nat := cs.foldl (fun a c => a * 16 + hexVal c) 0
def octNum (cs : List Char) : Nat := cs.foldl (fun a c => a * 8 + (c.toNat - '0'.toNat)) 0

/-- Python's evaluation of the inside of a double-quoted string literal (`triple`: `\"\"\"…\"\"\"`, else `\"…\"`).
`none` = the literal is rejected (SyntaxError / ValueError), which the parser turns into `Except`. -/
def pyEvalG (triple : Bool) : (fuel : Nat) → List Char → Option (List Char)
  | 0, _ => some []
  | _, [] => some []
  | fuel + 1, c :: cs =>
    if c == '\x00' then none                                     -- "source code string cannot contain null bytes"
    else if !triple && (c == '\n' || c == '\r') then none        -- a one-line "…" literal ends at the line end
    else if !triple && c == dq then none                         -- … and at an unescaped quote
    else if c == '\r' then                                       -- universal newlines of the tokenizer
      match cs with
      | '\n' :: cs' => (pyEvalG triple fuel cs').map ('\n' :: ·)
      | _ => (pyEvalG triple fuel cs).map ('\n' :: ·)
    else if c == bs then
      match cs with
      | [] => none                                               -- the closing quotes get escaped: unterminated
      | e :: r =>
        if e == bs then (pyEvalG triple fuel r).map (bs :: ·)
        else if e == q then (pyEvalG triple fuel r).map (q :: ·)
        else if e == dq then (pyEvalG triple fuel r).map (dq :: ·)
        else if e == 'n' then (pyEvalG triple fuel r).map ('\n' :: ·)
        else if e == 't' then (pyEvalG triple fuel r).map ('\t' :: ·)
        else if e == 'r' then (pyEvalG triple fuel r).map ('\r' :: ·)
        else if e == 'a' then (pyEvalG triple fuel r).map ('\x07' :: ·)
        else if e == 'b' then (pyEvalG triple fuel r).map ('\x08' :: ·)
        else if e == 'f' then (pyEvalG triple fuel r).map ('\x0c' :: ·)
        else if e == 'v' then (pyEvalG triple fuel r).map ('\x0b' :: ·)
        else if e == '\n' then pyEvalG triple fuel r                     -- line continuation
        else if e == '\r' then
          match r with
          | '\n' :: r' => pyEvalG triple fuel r'
          | _ => pyEvalG triple fuel r
        else if isOct e then
          let ds := (e :: r).takeWhile isOct |>.take 3
          (pyEvalG triple fuel ((e :: r).drop ds.length)).map (Char.ofNat (octNum ds) :: ·)
        else if e == 'x' then
          match r with
          | h1 :: h2 :: r' =>
            if isHex h1 && isHex h2 then (pyEvalG triple fuel r').map (Char.ofNat (hexNum [h1, h2]) :: ·) else none
          | _ => none
        else if e == 'u' then
          let ds := r.take 4
          if ds.length == 4 && ds.all isHex then (pyEvalG triple fuel (r.drop 4)).map (Char.ofNat (hexNum ds) :: ·) else none
        else if e == 'U' then
          let ds := r.take 8
          if ds.length == 8 && ds.all isHex && hexNum ds < 0x110000 then
            (pyEvalG triple fuel (r.drop 8)).map (Char.ofNat (hexNum ds) :: ·)
          else none
        else if e == 'N' then none                               -- \N{…}: named characters are not modelled (rejected unless well-formed)
        else if e == '\x00' then none
        else (pyEvalG triple fuel (e :: r)).map (bs :: ·)                 -- unknown escape: the backslash stays
    else if c == dq then
      -- an UNESCAPED double quote (its escaping backslash was itself escaped): inside the
      -- triple-quoted source up to two are content, three close the literal early; at the very end
      -- one leaves a stray quote, two form an empty literal that is concatenated away
      let k := (c :: cs).takeWhile (· == dq) |>.length
      let rest := (c :: cs).drop k
      if rest.isEmpty then
        if k == 2 then some [] else none
      else if k ≥ 3 then none
      else (pyEvalG triple fuel rest).map (List.replicate k dq ++ ·)
    else (pyEvalG triple fuel cs).map (c :: ·)

/-- evaluation of a triple-double-quoted literal (`single_literal`, `double_literal`) -/
def pyEval : Nat → List Char → Option (List Char) := pyEvalG true

/-- evaluation of a one-line double-quoted literal (`double_column`, `backtick_column`, `square_column`) -/
def pyEval1 : Nat → List Char → Option (List Char) := pyEvalG false

/-- `single_literal` applied to a token `'…'` (no encoding prefix) -/
def decodeImpl (tok : List Char) : Option (List Char) :=
  match matchSQ tok with
  | some (b, _) =>
    let src := escapeDq (replacePairs q bs q b)
    pyEval (src.length + 1) src
  | none => none

/-! ### double-quoted literals (`parse_mysql`, `parse_bigquery`) -/

def encodeDQ (s : List Char) : List Char := dq :: (doubleQuotes dq s ++ [dq])

def matchDQ : List Char → Option (List Char × List Char)
  | c :: cs => if c == dq then matchBody dq cs else none
  | [] => none

/-- `double_literal`: `'\"\"\"' + val[1:-1].replace('""', '\\"') + '\"\"\"'` -/
def decodeImplDQ (tok : List Char) : Option (List Char) :=
  match matchDQ tok with
  | some (b, _) =>
    let src := replacePairs dq bs dq b
    pyEval (src.length + 1) src
  | none => none

/-! ### quoted identifiers -/

def bt : Char := '`'
def rb : Char := ']'

def quoteWith (open_ close : Char) (s : List Char) : List Char := open_ :: (doubleQuotes close s ++ [close])

def matchQuoted (open_ close : Char) : List Char → Option (List Char × List Char)
  | c :: cs => if c == open_ then matchBody close cs else none
  | [] => none

/-- `mo_dots.literal_field`: a dot at either end becomes `\b`, an inner dot is doubled -/
def lfRest : List Char → List Char          -- every character but the first
  | [] => []
  | [c] => if c == '.' then ['\x08'] else [c]
  | c :: c2 :: cs =>
    -- Python's `$` also matches before one final newline: a dot there counts as a trailing dot
    if cs.isEmpty && c2 == '\n' then (if c == '.' then ['\x08'] else [c]) ++ ['\n']
    else (if c == '.' then ['.', '.'] else [c]) ++ lfRest (c2 :: cs)

def literalField : List Char → List Char
  | [] => []
  | c :: cs => (if c == '.' then ['\x08'] else [c]) ++ lfRest cs

/-- `double_column`: `'"' + val[1:-1].replace('""', '\\"') + '"'`, evaluated, dots escaped -/
def decodeAnsiIdent (tok : List Char) : Option (List Char) :=
  match matchQuoted dq dq tok with
  | some (b, _) =>
    let src := replacePairs dq bs dq b
    (pyEval1 (src.length + 1) src).map literalField
  | none => none

/-- `backtick_column`: ``.replace("``", "`").replace('"', '\\"')`` -/
def decodeBacktickIdent (tok : List Char) : Option (List Char) :=
  match matchQuoted bt bt tok with
  | some (b, _) =>
    let src := escapeDq (undouble bt b)
    (pyEval1 (src.length + 1) src).map literalField
  | none => none

/-- `square_column`: `.replace("]]", "]").replace('"', '\\"')` -/
def decodeSquareIdent (tok : List Char) : Option (List Char) :=
  match matchQuoted '[' rb tok with
  | some (b, _) =>
    let src := escapeDq (undouble rb b)
    (pyEval1 (src.length + 1) src).map literalField
  | none => none

/-! ### decimal integers -/

def digitChar (d : Nat) : Char := Char.ofNat (d + 48)

/-- decimal digits of `n`, least significant first -/
def revDigits : (fuel : Nat) → Nat → List Nat
  | 0, _ => []
  | fuel + 1, n => if n < 10 then [n] else (n % 10) :: revDigits fuel (n / 10)

/-- `str(n)` for a natural number -/
def digits (n : Nat) : List Char := ((revDigits (n + 1) n).reverse).map digitChar

def isDigit (c : Char) : Bool := '0' ≤ c && c ≤ '9'

/-- `int(text)` for a string of decimal digits -/
def parseNat (cs : List Char) : Nat := cs.foldl (fun a c => a * 10 + (c.toNat - 48)) 0

end MoSql.Lex

namespace MoSql.Lex

/-- `parse_int` (after the exactness fix): `int(mantissa) * 10 ** int(exponent)` for the text
`digits [eE] [+]? digits` that `int_num` accepts (sign handled by the caller) -/
def stripPlus : List Char → List Char
  | '+' :: t => t
  | t => t

def parseIntText (cs : List Char) : Nat :=
  let mant := cs.takeWhile isDigit
  let rest := cs.dropWhile isDigit
  match rest with
  | [] => parseNat mant
  | _ :: e => parseNat mant * 10 ^ parseNat (stripPlus e)

end MoSql.Lex

namespace MoSql.Lex

/-! ### bare names -/

def isAsciiAlphaU (c : Char) : Bool :=
  (97 ≤ c.toNat && c.toNat ≤ 122) || (65 ≤ c.toNat && c.toNat ≤ 90) || c.toNat == 95
def isAsciiWord (c : Char) : Bool := isAsciiAlphaU c || (48 ≤ c.toNat && c.toNat ≤ 57)

/-- `formatting.VALID` (`^[a-zA-Z_]\w*\Z`, ASCII) -/
def validName : List Char → Bool
  | [] => false
  | c :: cs => isAsciiAlphaU c && cs.all isAsciiWord

/-- `_should_quote` -/
def shouldQuote (isKeyword : List Char → Bool) (s : List Char) : Bool :=
  s != ['*'] && (!validName s || isKeyword s)

/-- `escape` for one path segment -/
def escSegment (quote : Char) (isKeyword : List Char → Bool) (s : List Char) : List Char :=
  if shouldQuote isKeyword s then quoteWith quote quote s else s

def inRanges (rs : List (Nat × Nat)) (c : Char) : Bool := rs.any fun r => r.1 ≤ c.toNat && c.toNat ≤ r.2

/-- `Word(first, rest)`: a character of `first`, then the maximal run of characters of `rest` -/
def matchWord (first rest : List (Nat × Nat)) : List Char → Option (List Char × List Char)
  | [] => none
  | c :: cs =>
    if inRanges first c then some (c :: cs.takeWhile (inRanges rest), cs.dropWhile (inRanges rest)) else none

end MoSql.Lex
