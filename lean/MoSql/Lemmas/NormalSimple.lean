import MoSql.Scrub
/-
`calls=normal_op` versus the default `simple_op`: the two outputs differ in notation only.
`Conv n s` is that notation change, written as rules: a normal node {"op": name, "args": […], "kwargs": {…}}
corresponds to the simple node {name: args-unwrapped, **kwargs}; everything else corresponds
component-wise.
-/
namespace MoSql.Scrub

/-- how `simple_op` stores the argument list `xs` that `normal_op` keeps as a list -/
inductive ConvArgs : List J → J → Prop where
  | none : ConvArgs [] (.obj [])
  | one (x : J) : ConvArgs [x] x
  | many (xs : List J) : 2 ≤ xs.length → ConvArgs xs (.arr xs)

mutual
inductive Conv : J → J → Prop where
  | null : Conv .null .null
  | bool (b : Bool) : Conv (.bool b) (.bool b)
  | int (i : Int) : Conv (.int i) (.int i)
  | flt (s : String) : Conv (.flt s) (.flt s)
  | str (s : String) : Conv (.str s) (.str s)
  | opq (s : String) : Conv (.opaque s) (.opaque s)
  | marker (b : Bool) : Conv (.marker b) (.marker b)
  | arr {xs ys : List J} : ConvList xs ys → Conv (.arr xs) (.arr ys)
  | dict {kvs kvs' : List (String × J)} : ConvKvs kvs kvs' → Conv (.obj kvs) (.obj kvs')
  /-- a normal node: operands converted first, then stored the `simple_op` way -/
  | node {name : String} {args args' : List J} {kw kw' : List (String × J)} {v : J} :
      ConvList args args' → ConvArgs args' v → ConvKvs kw kw' →
      Conv (.obj ([("op", .str name)] ++ (if args.isEmpty then [] else [("args", .arr args)])
                    ++ (if kw.isEmpty then [] else [("kwargs", .obj kw)])))
           (.obj (setKeySlot kw' name v))
inductive ConvList : List J → List J → Prop where
  | nil : ConvList [] []
  | cons {x y : J} {xs ys : List J} : Conv x y → ConvList xs ys → ConvList (x :: xs) (y :: ys)
inductive ConvKvs : List (String × J) → List (String × J) → Prop where
  | nil : ConvKvs [] []
  | cons {k : String} {x y : J} {xs ys : List (String × J)} : Conv x y → ConvKvs xs ys → ConvKvs ((k, x) :: xs) ((k, y) :: ys)
end

end MoSql.Scrub

namespace MoSql.Scrub

/- no call whose whole argument list is the bare NULL placeholder (`f(null)`: known finding for `normal_op`) -/
mutual
def noSoleNull (c : Cfg) : Raw → Bool
  | .call _ args kw => !(scrub c args).isMarker && noSoleNull c args && noSoleNullKw c kw
  | .list xs => noSoleNullList c xs
  | .grp r => noSoleNull c r
  | .dict kvs => noSoleNullKw c kvs
  | _ => true
def noSoleNullList (c : Cfg) : List Raw → Bool
  | [] => true
  | r :: rs => noSoleNull c r && noSoleNullList c rs
def noSoleNullKw (c : Cfg) : List (String × Raw) → Bool
  | [] => true
  | (_, r) :: rest => noSoleNull c r && noSoleNullKw c rest
end

theorem conv_isNull {a b : J} (h : Conv a b) : a.isNull = b.isNull := by
  cases h <;> simp [J.isNull]

theorem conv_isMarker {a b : J} (h : Conv a b) : a.isMarker = b.isMarker := by
  cases h <;> simp [J.isMarker]

theorem conv_mark {a b : J} (h : Conv a b) : Conv (mark a) (mark b) := by
  cases h with
  | marker b => simpa [mark] using Conv.marker true
  | null => simpa [mark] using Conv.null
  | bool b => simpa [mark] using Conv.bool b
  | int i => simpa [mark] using Conv.int i
  | flt s => simpa [mark] using Conv.flt s
  | str s => simpa [mark] using Conv.str s
  | opq s => simpa [mark] using Conv.opq s
  | arr h => simpa [mark] using Conv.arr h
  | dict h => simpa [mark] using Conv.dict h
  | node h1 h2 h3 => simpa [mark] using Conv.node h1 h2 h3

theorem convList_length {xs ys : List J} (h : ConvList xs ys) : xs.length = ys.length := by
  induction xs generalizing ys with
  | nil => cases h; rfl
  | cons x xs ih => cases h with | cons _ ht => simp [ih ht]

theorem convList_filter {xs ys : List J} (h : ConvList xs ys) :
    ConvList (xs.filter (fun j => !j.isNull)) (ys.filter (fun j => !j.isNull)) := by
  induction xs generalizing ys with
  | nil => cases h; exact .nil
  | cons x xs ih =>
    cases h with
    | cons hx ht =>
      rename_i y ys'
      have e := conv_isNull hx
      by_cases hn : x.isNull = true
      · have hy : y.isNull = true := by rw [← e]; exact hn
        simpa [List.filter, hn, hy] using ih ht
      · have hn' : x.isNull = false := by simpa using hn
        have hy : y.isNull = false := by rw [← e]; exact hn'
        simpa [List.filter, hn', hy] using ConvList.cons hx (ih ht)

theorem convList_map_mark {xs ys : List J} (h : ConvList xs ys) : ConvList (xs.map mark) (ys.map mark) := by
  induction xs generalizing ys with
  | nil => cases h; exact .nil
  | cons x xs ih => cases h with | cons hx ht => exact .cons (conv_mark hx) (ih ht)

theorem conv_collapse {xs ys : List J} (h : ConvList xs ys) : Conv (collapse xs) (collapse ys) := by
  have hf := convList_filter h
  unfold collapse
  generalize xs.filter (fun j => !j.isNull) = fx at hf
  generalize ys.filter (fun j => !j.isNull) = fy at hf
  cases hf with
  | nil => exact .null
  | cons hx ht =>
    cases ht with
    | nil => exact hx
    | cons hx2 ht2 => exact .arr (convList_map_mark (.cons hx (.cons hx2 ht2)))

end MoSql.Scrub

namespace MoSql.Scrub

/-- top-level shape invariant: a list that `scrub` returns has at least two elements (shorter ones are unwrapped) -/
def arr2 : J → Bool
  | .arr xs => decide (2 ≤ xs.length)
  | _ => true

theorem arr2_collapse (xs : List J) (h : ∀ x ∈ xs, arr2 x = true) : arr2 (collapse xs) = true := by
  unfold collapse
  have hf : ∀ x ∈ xs.filter (fun j => !j.isNull), arr2 x = true := fun x hx => h x (List.mem_filter.mp hx).1
  generalize xs.filter (fun j => !j.isNull) = fx at hf
  match fx, hf with
  | [], _ => rfl
  | [x], hf => exact hf x (by simp)
  | x :: y :: zs, _ => simp [arr2]

theorem arr2_applyOp (c : Cfg) (op : String) (a : J) (kw : List (String × J)) : arr2 (applyOp c op a kw) = true := by
  unfold applyOp
  cases c.mode <;> simp only <;> (try cases a) <;> simp [arr2]

mutual
theorem arr2_scrub (c : Cfg) : ∀ r : Raw, arr2 (scrub c r) = true
  | .none => rfl
  | .str _ => rfl
  | .int _ => rfl
  | .flt _ => rfl
  | .bool _ => rfl
  | .sqlNull => rfl
  | .crash _ => rfl
  | .call op args kw => by simp only [scrub]; exact arr2_applyOp c op _ _
  | .list xs => by simp only [scrub]; exact arr2_collapse _ (arr2_scrubList c xs)
  | .grp r => by
    simp only [scrub]
    exact arr2_collapse _ (by intro x hx; simp at hx; subst hx; exact arr2_scrub c r)
  | .dict kvs => by simp [scrub, arr2]
theorem arr2_scrubList (c : Cfg) : ∀ rs : List Raw, ∀ x ∈ scrubList c rs, arr2 x = true
  | [], x, hx => by simp [scrubList] at hx
  | r :: rs, x, hx => by
    simp only [scrubList, List.mem_cons] at hx
    rcases hx with e | e
    · subst e; exact arr2_scrub c r
    · exact arr2_scrubList c rs x e
end

theorem conv_applyOp (fm : List (String × String)) (op : String) {A A' : J} {K K' : List (String × J)}
    (hA : Conv A A') (hK : ConvKvs K K') (hm : A.isMarker = false) (h2 : arr2 A = true) :
    Conv (applyOp { mode := .normal, fmap := fm } op A K) (applyOp { mode := .simple, fmap := fm } op A' K') := by
  have hname : Cfg.rename { mode := Mode.normal, fmap := fm } op = Cfg.rename { mode := Mode.simple, fmap := fm } op := rfl
  have hkw : ∀ {x : List (String × J)}, (if x.isEmpty = true then ([] : List (String × J)) else [("kwargs", J.obj x)])
      = (if x.isEmpty then [] else [("kwargs", J.obj x)]) := rfl
  unfold applyOp
  simp only [hm, Bool.false_eq_true, if_false, hname]
  cases hA with
  | marker b => simp [J.isMarker] at hm
  | null =>
    have := @Conv.node (Cfg.rename { mode := Mode.simple, fmap := fm } op) [] [] K K' (.obj []) .nil .none hK
    simpa [listwrap] using this
  | arr hl =>
    rename_i xs ys
    have hx2 : 2 ≤ xs.length := by simpa [arr2] using h2
    have hy2 : 2 ≤ ys.length := by rw [← convList_length hl]; exact hx2
    have hne : xs.isEmpty = false := by cases xs <;> simp_all
    have := @Conv.node (Cfg.rename { mode := Mode.simple, fmap := fm } op) xs ys K K' (.arr ys) hl (.many ys hy2) hK
    cases xs with
    | nil => simp at hx2
    | cons x xs' => simpa [listwrap, hne] using this
  | bool b =>
    have := @Conv.node (Cfg.rename { mode := Mode.simple, fmap := fm } op) [.bool b] [.bool b] K K' (.bool b) (.cons (.bool b) .nil) (.one _) hK
    simpa [listwrap] using this
  | int i =>
    have := @Conv.node (Cfg.rename { mode := Mode.simple, fmap := fm } op) [.int i] [.int i] K K' (.int i) (.cons (.int i) .nil) (.one _) hK
    simpa [listwrap] using this
  | flt s =>
    have := @Conv.node (Cfg.rename { mode := Mode.simple, fmap := fm } op) [.flt s] [.flt s] K K' (.flt s) (.cons (.flt s) .nil) (.one _) hK
    simpa [listwrap] using this
  | str s =>
    have := @Conv.node (Cfg.rename { mode := Mode.simple, fmap := fm } op) [.str s] [.str s] K K' (.str s) (.cons (.str s) .nil) (.one _) hK
    simpa [listwrap] using this
  | opq s =>
    have := @Conv.node (Cfg.rename { mode := Mode.simple, fmap := fm } op) [.opaque s] [.opaque s] K K' (.opaque s) (.cons (.opq s) .nil) (.one _) hK
    simpa [listwrap] using this
  | dict hd =>
    rename_i kvs kvs'
    have := @Conv.node (Cfg.rename { mode := Mode.simple, fmap := fm } op) [.obj kvs] [.obj kvs'] K K' (.obj kvs') (.cons (.dict hd) .nil) (.one _) hK
    simpa [listwrap] using this
  | node h1 h2' h3 =>
    rename_i name args args' kw kw' v
    have hc : Conv (.obj ([("op", .str name)] ++ (if args.isEmpty then [] else [("args", .arr args)])
                    ++ (if kw.isEmpty then [] else [("kwargs", .obj kw)]))) (.obj (setKeySlot kw' name v)) := .node h1 h2' h3
    have := @Conv.node (Cfg.rename { mode := Mode.simple, fmap := fm } op) [_] [_] K K' _ (.cons hc .nil) (.one _) hK
    simpa [listwrap] using this

end MoSql.Scrub

namespace MoSql.Scrub

mutual
theorem conv_scrub (fm : List (String × String)) : ∀ r : Raw, noSoleNull { mode := .normal, fmap := fm } r = true →
    Conv (scrub { mode := .normal, fmap := fm } r) (scrub { mode := .simple, fmap := fm } r)
  | .none, _ => .null
  | .str s, _ => .str s
  | .int i, _ => .int i
  | .flt s, _ => .flt s
  | .bool b, _ => .bool b
  | .sqlNull, _ => .marker false
  | .crash w, _ => .opq _
  | .call op args kw, h => by
    simp only [noSoleNull, Bool.and_eq_true, Bool.not_eq_true'] at h
    simp only [scrub]
    exact conv_applyOp fm op (conv_scrub fm args h.1.2) (conv_scrubKw fm kw h.2) h.1.1 (arr2_scrub _ args)
  | .list xs, h => by
    simp only [noSoleNull] at h
    simp only [scrub]
    exact conv_collapse (conv_scrubList fm xs h)
  | .grp r, h => by
    simp only [noSoleNull] at h
    simp only [scrub]
    exact conv_collapse (.cons (conv_scrub fm r h) .nil)
  | .dict kvs, h => by
    simp only [noSoleNull] at h
    simp only [scrub]
    exact .dict (conv_scrubKw fm kvs h)
theorem conv_scrubList (fm : List (String × String)) : ∀ rs : List Raw, noSoleNullList { mode := .normal, fmap := fm } rs = true →
    ConvList (scrubList { mode := .normal, fmap := fm } rs) (scrubList { mode := .simple, fmap := fm } rs)
  | [], _ => .nil
  | r :: rs, h => by
    simp only [noSoleNullList, Bool.and_eq_true] at h
    simp only [scrubList]
    exact .cons (conv_scrub fm r h.1) (conv_scrubList fm rs h.2)
theorem conv_scrubKw (fm : List (String × String)) : ∀ kvs : List (String × Raw), noSoleNullKw { mode := .normal, fmap := fm } kvs = true →
    ConvKvs (scrubKw { mode := .normal, fmap := fm } kvs) (scrubKw { mode := .simple, fmap := fm } kvs)
  | [], _ => .nil
  | (k, r) :: rest, h => by
    simp only [noSoleNullKw, Bool.and_eq_true] at h
    have hr := conv_scrub fm r h.1
    have hn := conv_isNull hr
    simp only [scrubKw]
    by_cases hnull : (scrub { mode := .normal, fmap := fm } r).isNull = true
    · have : (scrub { mode := .simple, fmap := fm } r).isNull = true := by rw [← hn]; exact hnull
      simp only [hnull, this, if_true]
      exact conv_scrubKw fm rest h.2
    · have hf : (scrub { mode := .normal, fmap := fm } r).isNull = false := by simpa using hnull
      have : (scrub { mode := .simple, fmap := fm } r).isNull = false := by rw [← hn]; exact hf
      simp only [hf, this, Bool.false_eq_true, if_false]
      exact .cons (conv_mark hr) (conv_scrubKw fm rest h.2)
end

end MoSql.Scrub
