import MoSql.Peg
/-!
Simulation lemma for the recogniser engine: if two texts are related position by position (`Rc` on the places
where the engine tries to match, `Re` on the places where a match can end), the whitespace engines map ends to
places, and every terminal of the grammar behaves alike on related places, then the engine returns the same
tokens on both texts — for every grammar, every nesting, every fuel.
-/
namespace MoSql.Peg

/-- outcomes of a terminal on two related places -/
def TermRel (Re : Str → Str → Prop) : Option (Str × Str) → Option (Str × Str) → Prop
  | none, none => True
  | some (s, r), some (s', r') => s = s' ∧ Re r r'
  | _, _ => False

/-- outcomes of the engine on two related places -/
def ResRel (Re : Str → Str → Prop) : Res → Res → Prop
  | .fail, .fail => True
  | .diverge, .diverge => True
  | .ok ts r, .ok ts' r' => ts = ts' ∧ Re r r'
  | _, _ => False

structure Sim (E : Env) (Rc Re : Str → Str → Prop) (P : Term → Bool) (Q : Nat → Bool) : Prop where
  c_e : ∀ x x', Rc x x' → Re x x'
  lt_iff : ∀ x x' y y', Re x x' → Re y y' → (y.length < x.length ↔ y'.length < x'.length)
  nil_iff : ∀ x x', Re x x' → x.isEmpty = x'.isEmpty
  skip : ∀ ws, Q ws = true → ∀ x x', Re x x' → Rc (E.skip ws x) (E.skip ws x')
  term : ∀ t, P t = true → ∀ x x', Rc x x' → TermRel Re (matchTerm t x) (matchTerm t x')

section
variable {E : Env} {Rc Re : Str → Str → Prop} {P : Term → Bool} {Q : Nat → Bool}

/-- what the loops need from the recursive call -/
def RecOK (Rc Re : Str → Str → Prop) (P : Term → Bool) (Q : Nat → Bool) (rec : G → Str → Res) : Prop :=
  ∀ g x x', G.wf P Q g = true → Rc x x' → ResRel Re (rec g x) (rec g x')

theorem decide_lt_eq (h : Sim E Rc Re P Q) {x x' y y' : Str} (hx : Re x x') (hy : Re y y') :
    decide (y.length < x.length) = decide (y'.length < x'.length) := by
  have := h.lt_iff x x' y y' hx hy
  by_cases h1 : y.length < x.length
  · simp [h1, this.mp h1]
  · have h2 : ¬ y'.length < x'.length := fun c => h1 (this.mpr c)
    simp [h1, h2]

theorem seqLoop_sim (h : Sim E Rc Re P Q) {rec : G → Str → Res} (hrec : RecOK Rc Re P Q rec) (ws : Nat) (hws : Q ws = true) :
    ∀ (gs : List G) (idx idx' fin fin' : Str) (acc : List Tok), wfList P Q gs = true → Rc idx idx' → Re fin fin' →
      ResRel Re (seqLoop rec (E.skip ws) gs idx fin acc) (seqLoop rec (E.skip ws) gs idx' fin' acc)
  | [], idx, idx', fin, fin', acc, _, _, hf => by simp [seqLoop, ResRel, hf]
  | g :: gs, idx, idx', fin, fin', acc, hwf, hi, hf => by
    simp only [wfList, Bool.and_eq_true] at hwf
    have hd := decide_lt_eq h (h.c_e _ _ hi) hf
    -- the place where `g` is tried
    have hi1 : Rc (if fin.length < idx.length then E.skip ws fin else idx)
                  (if fin'.length < idx'.length then E.skip ws fin' else idx') := by
      by_cases c : fin.length < idx.length
      · have c' : fin'.length < idx'.length := (h.lt_iff _ _ _ _ (h.c_e _ _ hi) hf).mp c
        simp only [c, c', if_true]; exact h.skip ws hws _ _ hf
      · have c' : ¬ fin'.length < idx'.length := fun d => c ((h.lt_iff _ _ _ _ (h.c_e _ _ hi) hf).mpr d)
        simp only [c, c', if_false]; exact hi
    have hr := hrec g _ _ hwf.1 hi1
    simp only [seqLoop]
    generalize rec g (if fin.length < idx.length then E.skip ws fin else idx) = A at hr ⊢
    generalize rec g (if fin'.length < idx'.length then E.skip ws fin' else idx') = B at hr ⊢
    cases A <;> cases B <;> simp only [ResRel] at hr <;> try (first | exact hr | exact trivial)
    case ok.ok ts r ts' r' =>
      obtain ⟨hts, hrr⟩ := hr
      subst hts
      have hd2 := decide_lt_eq h (h.c_e _ _ hi1) hrr
      by_cases c : (emptyMany g && ts.isEmpty && !decide (r.length < (if fin.length < idx.length then E.skip ws fin else idx).length)) = true
      · have c' : (emptyMany g && ts.isEmpty && !decide (r'.length < (if fin'.length < idx'.length then E.skip ws fin' else idx').length)) = true := by
          rw [← hd2]; exact c
        simp only [c, c', if_true]
        exact seqLoop_sim h hrec ws hws gs _ _ _ _ acc hwf.2 hi1 hf
      · have c' : ¬ (emptyMany g && ts.isEmpty && !decide (r'.length < (if fin'.length < idx'.length then E.skip ws fin' else idx').length)) = true := by
          rw [← hd2]; exact c
        simp only [c, c', if_false]
        exact seqLoop_sim h hrec ws hws gs _ _ _ _ (acc ++ ts) hwf.2 hi1 hrr

theorem altLoop_sim (_h : Sim E Rc Re P Q) {rec : G → Str → Res} (hrec : RecOK Rc Re P Q rec) :
    ∀ (gs : List G) (x x' : Str), wfList P Q gs = true → Rc x x' → ResRel Re (altLoop rec gs x) (altLoop rec gs x')
  | [], _, _, _, _ => by simp [altLoop, ResRel]
  | g :: gs, x, x', hwf, hx => by
    simp only [wfList, Bool.and_eq_true] at hwf
    have hr := hrec g x x' hwf.1 hx
    simp only [altLoop]
    generalize rec g x = A at hr ⊢
    generalize rec g x' = B at hr ⊢
    cases A <;> cases B <;> simp only [ResRel] at hr <;> try (first | exact hr | exact trivial)
    case fail.fail => exact altLoop_sim _h hrec gs x x' hwf.2 hx

/-- the best match so far, on both sides -/
def BestRel (Re : Str → Str → Prop) : Option (List Tok × Str) → Option (List Tok × Str) → Prop
  | none, none => True
  | some (ts, r), some (ts', r') => ts = ts' ∧ Re r r'
  | _, _ => False

theorem longestLoop_sim (h : Sim E Rc Re P Q) {rec : G → Str → Res} (hrec : RecOK Rc Re P Q rec) :
    ∀ (gs : List G) (x x' : Str) (b b' : Option (List Tok × Str)), wfList P Q gs = true → Rc x x' → BestRel Re b b' →
      ResRel Re (longestLoop rec gs x b) (longestLoop rec gs x' b')
  | [], _, _, b, b', _, _, hb => by
    cases b <;> cases b' <;> simp only [BestRel] at hb <;> try exact hb.elim
    · simp [longestLoop, ResRel]
    · rename_i p p'
      obtain ⟨ts, r⟩ := p
      obtain ⟨ts', r'⟩ := p'
      simpa [longestLoop, ResRel, BestRel] using hb
  | g :: gs, x, x', b, b', hwf, hx, hb => by
    simp only [wfList, Bool.and_eq_true] at hwf
    have hr := hrec g x x' hwf.1 hx
    simp only [longestLoop]
    generalize rec g x = A at hr ⊢
    generalize rec g x' = B at hr ⊢
    cases A <;> cases B <;> simp only [ResRel] at hr <;> try (first | exact hr | exact trivial)
    case fail.fail => exact longestLoop_sim h hrec gs x x' b b' hwf.2 hx hb
    case ok.ok ts r ts' r' =>
      obtain ⟨hts, hrr⟩ := hr
      subst hts
      cases b <;> cases b' <;> simp only [BestRel] at hb <;> try exact hb.elim
      · exact longestLoop_sim h hrec gs x x' _ _ hwf.2 hx (by simp [BestRel, hrr])
      · rename_i p p'
        obtain ⟨bt, br⟩ := p
        obtain ⟨bt', br'⟩ := p'
        simp only [BestRel] at hb
        obtain ⟨hbt, hbr⟩ := hb
        subst hbt
        by_cases c : r.length < br.length
        · have c' : r'.length < br'.length := (h.lt_iff _ _ _ _ hbr hrr).mp c
          simp only [c, c', if_true]
          exact longestLoop_sim h hrec gs x x' _ _ hwf.2 hx (by simp [BestRel, hrr])
        · have c' : ¬ r'.length < br'.length := fun d => c ((h.lt_iff _ _ _ _ hbr hrr).mpr d)
          simp only [c, c', if_false]
          exact longestLoop_sim h hrec gs x x' _ _ hwf.2 hx (by simp [BestRel, hbr])

theorem manyLoop_sim (h : Sim E Rc Re P Q) {rec : G → Str → Res} (hrec : RecOK Rc Re P Q rec) (ws : Nat) (hws : Q ws = true)
    (g : G) (hg : G.wf P Q g = true) (mn mx : Nat) :
    ∀ (k : Nat) (fin fin' : Str) (count : Nat) (acc : List Tok), Re fin fin' →
      ResRel Re (manyLoop rec (E.skip ws) g mn mx k fin count acc) (manyLoop rec (E.skip ws) g mn mx k fin' count acc)
  | 0, _, _, _, _, _ => by simp [manyLoop, ResRel]
  | k + 1, fin, fin', count, acc, hf => by
    have hstop : ResRel Re (if count < mn then Res.fail else Res.ok acc fin) (if count < mn then Res.fail else Res.ok acc fin') := by
      by_cases c : count < mn <;> simp [c, ResRel, hf]
    have hne := h.nil_iff _ _ hf
    simp only [manyLoop]
    by_cases c0 : fin.isEmpty = true
    · have c0' : fin'.isEmpty = true := by rw [← hne]; exact c0
      simp only [c0, c0', if_true]; exact hstop
    · have c0' : ¬ fin'.isEmpty = true := by rw [← hne]; exact c0
      simp only [c0, c0', if_false]
      have hi := h.skip ws hws _ _ hf
      have hr := hrec g _ _ hg hi
      generalize rec g (E.skip ws fin) = A at hr ⊢
      generalize rec g (E.skip ws fin') = B at hr ⊢
      cases A <;> cases B <;> simp only [ResRel] at hr <;> try (first | exact hr | exact trivial | exact hstop)
      case ok.ok ts r ts' r' =>
        obtain ⟨hts, hrr⟩ := hr
        subst hts
        have hie := h.c_e _ _ hi
        have hne2 := h.nil_iff _ _ hie
        by_cases c1 : r.length < (E.skip ws fin).length
        · have c1' : r'.length < (E.skip ws fin').length := (h.lt_iff _ _ _ _ hie hrr).mp c1
          simp only [c1, c1', if_true]
          by_cases c2 : count + 1 ≥ mx
          · simp only [c2, if_true]
            by_cases c3 : count + 1 < mn <;> simp [c3, ResRel, hrr]
          · simp only [c2, if_false]
            exact manyLoop_sim h hrec ws hws g hg mn mx k r r' (count + 1) (acc ++ ts) hrr
        · have c1' : ¬ r'.length < (E.skip ws fin').length := fun d => c1 ((h.lt_iff _ _ _ _ hie hrr).mpr d)
          simp only [c1, c1', if_false]
          by_cases c4 : (E.skip ws fin).isEmpty = true
          · have c4' : (E.skip ws fin').isEmpty = true := by rw [← hne2]; exact c4
            simp only [c4, c4', if_true]
            by_cases c5 : count < mn
            · simp [c5, ResRel]
            · by_cases c6 : count = 0
              · subst c6; simp [c5, ResRel, hie]
              · simp [c5, c6, ResRel, hf]
          · have c4' : ¬ (E.skip ws fin').isEmpty = true := by rw [← hne2]; exact c4
            simp [c4, c4', ResRel]

/-- **The engine returns the same tokens on related texts** — any grammar over the given terminals and whitespace
engines, any nesting, any fuel. -/
theorem run_sim (h : Sim E Rc Re P Q) (hrules : ∀ i, G.wf P Q (E.rule i) = true) :
    ∀ (n : Nat), RecOK Rc Re P Q (run E n)
  | 0 => by intro g x x' _ _; simp [run, ResRel]
  | n + 1 => by
    have ih := run_sim h hrules n
    intro g x x' hwf hx
    cases g with
    | term t =>
      have ht := h.term t (by simpa [G.wf] using hwf) x x' hx
      simp only [run]
      generalize matchTerm t x = A at ht ⊢
      generalize matchTerm t x' = B at ht ⊢
      cases A <;> cases B <;> simp only [TermRel] at ht <;> try exact ht.elim
      · simp [ResRel]
      · rename_i p p'
        obtain ⟨s, r⟩ := p
        obtain ⟨s', r'⟩ := p'
        simp only [TermRel] at ht
        simp [ResRel, ht.1, ht.2]
    | empty => simp [run, ResRel, h.c_e _ _ hx]
    | seq ws gs =>
      simp only [G.wf, Bool.and_eq_true] at hwf
      simp only [run]
      exact seqLoop_sim h ih ws hwf.1 gs x x' x x' [] hwf.2 hx (h.c_e _ _ hx)
    | alt gs =>
      simp only [G.wf] at hwf
      simp only [run]
      exact altLoop_sim h ih gs x x' hwf hx
    | longest gs =>
      simp only [G.wf] at hwf
      simp only [run]
      exact longestLoop_sim h ih gs x x' none none hwf hx (by simp [BestRel])
    | many ws g mn mx =>
      simp only [G.wf, Bool.and_eq_true] at hwf
      simp only [run]
      exact manyLoop_sim h ih ws hwf.1 g hwf.2 mn mx n x x' 0 [] (h.c_e _ _ hx)
    | opt g =>
      have hr := ih g x x' (by simpa [G.wf] using hwf) hx
      simp only [run]
      generalize run E n g x = A at hr ⊢
      generalize run E n g x' = B at hr ⊢
      cases A <;> cases B <;> simp only [ResRel] at hr <;> try (first | exact hr | exact trivial)
      · simp [ResRel, h.c_e _ _ hx]
    | group g =>
      have hr := ih g x x' (by simpa [G.wf] using hwf) hx
      simp only [run]
      generalize run E n g x = A at hr ⊢
      generalize run E n g x' = B at hr ⊢
      cases A <;> cases B <;> simp only [ResRel] at hr <;> try (first | exact hr | exact trivial)
      · simp [ResRel, hr.1, hr.2]
    | suppress g =>
      have hr := ih g x x' (by simpa [G.wf] using hwf) hx
      simp only [run]
      generalize run E n g x = A at hr ⊢
      generalize run E n g x' = B at hr ⊢
      cases A <;> cases B <;> simp only [ResRel] at hr <;> try (first | exact hr | exact trivial)
      · simp [ResRel, hr.2]
    | ref i =>
      simp only [run]
      exact ih (E.rule i) x x' (hrules i) hx
    | notAhead g =>
      have hr := ih g x x' (by simpa [G.wf] using hwf) hx
      simp only [run]
      generalize run E n g x = A at hr ⊢
      generalize run E n g x' = B at hr ⊢
      cases A <;> cases B <;> simp only [ResRel] at hr <;> try (first | exact hr | exact trivial)
      · simp [ResRel, h.c_e _ _ hx]
    | ahead g =>
      have hr := ih g x x' (by simpa [G.wf] using hwf) hx
      simp only [run]
      generalize run E n g x = A at hr ⊢
      generalize run E n g x' = B at hr ⊢
      cases A <;> cases B <;> simp only [ResRel] at hr <;> try (first | exact hr | exact trivial)
      · simp [ResRel, h.c_e _ _ hx]

/-- the same for a whole parse (`Parser._parse_once`, with or without `parse_all`) -/
theorem parseTop_sim (h : Sim E Rc Re P Q) (hrules : ∀ i, G.wf P Q (E.rule i) = true) (fuel ws : Nat) (hws : Q ws = true)
    (g : G) (hg : G.wf P Q g = true) (parseAll : Bool) (x x' : Str) (hx : Re x x') :
    ResRel Re (parseTop E fuel ws g parseAll x) (parseTop E fuel ws g parseAll x') := by
  have hr := run_sim h hrules fuel g _ _ hg (h.skip ws hws _ _ hx)
  simp only [parseTop]
  generalize run E fuel g (E.skip ws x) = A at hr ⊢
  generalize run E fuel g (E.skip ws x') = B at hr ⊢
  cases A <;> cases B <;> simp only [ResRel] at hr <;> try (first | exact hr | exact trivial)
  case ok.ok ts r ts' r' =>
    obtain ⟨hts, hrr⟩ := hr
    subst hts
    cases parseAll
    · simp [ResRel, hrr]
    · have he := h.nil_iff _ _ (h.c_e _ _ (h.skip ws hws _ _ hrr))
      by_cases c : (E.skip ws r).isEmpty = true
      · have c' : (E.skip ws r').isEmpty = true := by rw [← he]; exact c
        simp [c, c', ResRel, hrr]
      · have c' : ¬ (E.skip ws r').isEmpty = true := by rw [← he]; exact c
        simp [c, c', ResRel]

end
end MoSql.Peg
