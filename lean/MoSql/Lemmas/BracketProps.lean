import MoSql.Brackets
import MoSql.Expr
namespace MoSql.Brackets

theorem balFrom_net : ∀ (ts : List Tk) (d : Nat), balFrom d ts = true → (d : Int) + net ts = 0
  | [], d, h => by simp [balFrom] at h; simp [net, h]
  | .lb :: ts, d, h => by
    have := balFrom_net ts (d + 1) (by simpa [balFrom] using h)
    simp [net, w] at this ⊢; omega
  | .rb :: ts, 0, h => by simp [balFrom] at h
  | .rb :: ts, d + 1, h => by
    have := balFrom_net ts d (by simpa [balFrom] using h)
    simp [net, w] at this ⊢; omega
  | .other :: ts, d, h => by
    have := balFrom_net ts d (by simpa [balFrom] using h)
    simp [net, w] at this ⊢; omega

theorem balanced_net (ts : List Tk) (h : balanced ts = true) : net ts = 0 := by
  have := balFrom_net ts 0 h; simpa using this

theorem net_append (a b : List Tk) : net (a ++ b) = net a + net b := by
  induction a with
  | nil => simp [net]
  | cons t ts ih => simp [net, ih]; omega

theorem net_eraseIdx : ∀ (ts : List Tk) (i : Nat) (h : i < ts.length),
    net (ts.eraseIdx i) = net ts - w (ts[i]'h)
  | t :: ts, 0, _ => by simp [net]; omega
  | t :: ts, i + 1, h => by
    have := net_eraseIdx ts i (by simpa using h)
    simp [net, this]; omega

/-- a self-contained balanced segment: it can be skipped at any depth, whatever follows -/
def Seg (xs : List Tk) : Prop := ∀ d ys, balFrom d (xs ++ ys) = balFrom d ys

theorem Seg.nil : Seg [] := fun _ _ => rfl
theorem Seg.other : Seg [.other] := fun d ys => by simp [balFrom]
theorem Seg.append {a b : List Tk} (ha : Seg a) (hb : Seg b) : Seg (a ++ b) := fun d ys => by
  rw [List.append_assoc, ha, hb]
theorem Seg.wrap {a : List Tk} (ha : Seg a) : Seg (.lb :: (a ++ [.rb])) := fun d ys => by
  have : (Tk.lb :: (a ++ [.rb])) ++ ys = .lb :: (a ++ (.rb :: ys)) := by simp
  rw [this]
  simp only [balFrom]
  rw [ha]; simp [balFrom]
theorem Seg.cons_other {a : List Tk} (ha : Seg a) : Seg (.other :: a) :=
  Seg.append Seg.other ha
theorem Seg.balanced {a : List Tk} (ha : Seg a) : balanced a = true := by
  have := ha 0 []; simpa [Brackets.balanced, balFrom] using this

end MoSql.Brackets

namespace MoSql.E
open MoSql.Brackets

/- token classes of the written form of an expression (one `other` per non-bracket token) -/
mutual
def tks : E → List Tk
  | .atom _ _ => [.other]
  | .paren e => .lb :: (tks e ++ [.rb])
  | .call _ args => .other :: .lb :: (tksList args ++ [.rb])
  | .pre _ e => .other :: tks e
  | .cast _ e _ => tks e ++ [.other, .other]
  | .bin _ l r => tks l ++ .other :: tks r
  | .tern _ a b c => tks a ++ .other :: (tks b ++ .other :: tks c)
def tksList : List E → List Tk
  | [] => []
  | e :: es => tks e ++ .other :: tksList es
end

mutual
theorem tks_seg : ∀ e : E, Seg (tks e)
  | .atom _ _ => Seg.other
  | .paren e => by simpa [tks] using Seg.wrap (tks_seg e)
  | .call _ args => by
    simp only [tks]
    exact Seg.cons_other (Seg.wrap (tksList_seg args))
  | .pre _ e => by simpa [tks] using Seg.cons_other (tks_seg e)
  | .cast _ e _ => by
    simp only [tks]
    exact Seg.append (tks_seg e) (Seg.cons_other Seg.other)
  | .bin _ l r => by
    simp only [tks]
    exact Seg.append (tks_seg l) (Seg.cons_other (tks_seg r))
  | .tern _ a b c => by
    simp only [tks]
    exact Seg.append (tks_seg a) (Seg.cons_other (Seg.append (tks_seg b) (Seg.cons_other (tks_seg c))))
theorem tksList_seg : ∀ es : List E, Seg (tksList es)
  | [] => Seg.nil
  | e :: es => by
    simp only [tksList]
    exact Seg.append (tks_seg e) (Seg.cons_other (tksList_seg es))
end

end MoSql.E
