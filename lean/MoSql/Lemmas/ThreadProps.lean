import MoSql.Session
namespace MoSql.Session

/-- what is known about thread `t` in a reachable state: a bookkeeping state `(h, d)` of its critical
section, and the store `solo` a run of the same program alone would have reached -/
def TInv (args : Nat → String → Val) (prog : Nat → List Instr) (s0 : Store) (s : Sys) (t : Nat) : Prop :=
  ∃ (h : Bool) (d : List String) (solo : Store),
    sectionOK h d (s.th t).todo = true ∧
    (h = true ↔ s.owner = some t) ∧
    run (args t) (prog t) s0 [] = run (args t) (s.th t).todo solo (s.th t).tr ∧
    (h = true → ∀ g ∈ d, solo g = args t g ∧ s.store g = args t g)

def Inv (args : Nat → String → Val) (prog : Nat → List Instr) (s0 : Store) (s : Sys) : Prop :=
  ∀ t, TInv args prog s0 s t

theorem inv_init (args : Nat → String → Val) (prog : Nat → List Instr) (s0 s0' : Store)
    (hp : ∀ t, sectionOK false [] (prog t) = true) : Inv args prog s0 (sysInit prog s0') := by
  intro t
  refine ⟨false, [], s0, by simpa [sysInit] using hp t, by simp [sysInit], by simp [sysInit], by simp⟩

theorem upd_same (f : Nat → Thread) (t : Nat) (x : Thread) : upd f t x t = x := by simp [upd]
theorem upd_other (f : Nat → Thread) (t u : Nat) (x : Thread) (h : u ≠ t) : upd f t x u = f u := by simp [upd, h]

theorem inv_step (args : Nat → String → Val) (prog : Nat → List Instr) (s0 : Store) (s : Sys) (t : Nat)
    (hI : Inv args prog s0 s) : Inv args prog s0 (stepT args s t) := by
  obtain ⟨h, d, solo, hok, hown, hrun, hval⟩ := hI t
  unfold stepT
  cases htodo : (s.th t).todo with
  | nil => simpa [htodo] using hI
  | cons i p =>
    rw [htodo] at hok hrun
    cases i with
    | acq =>
      simp only [sectionOK, Bool.and_eq_true, Bool.not_eq_true'] at hok
      by_cases hfree : s.owner = none
      · simp only [hfree, if_true]
        intro u
        by_cases hu : u = t
        · subst hu
          refine ⟨true, [], solo, by simpa [upd_same] using hok.2, by simp, ?_, by simp⟩
          simpa [upd_same, run] using hrun
        · obtain ⟨hu', du, solou, hoku, hownu, hrunu, hvalu⟩ := hI u
          have hfalse : hu' = false := by
            cases hu' with
            | false => rfl
            | true => have := hownu.mp rfl; rw [hfree] at this; cases this
          subst hfalse
          refine ⟨false, du, solou, by simpa [upd_other _ _ _ _ hu] using hoku, ?_, by simpa [upd_other _ _ _ _ hu] using hrunu, by simp⟩
          simp only [Bool.false_eq_true, false_iff]
          intro e; injection e with e; exact hu e.symm
      · simpa [hfree] using hI
    | rel =>
      simp only [sectionOK, Bool.and_eq_true] at hok
      have howner : s.owner = some t := hown.mp hok.1
      intro u
      by_cases hu : u = t
      · subst hu
        refine ⟨false, [], solo, by simpa [upd_same] using hok.2, by simp, ?_, by simp⟩
        simpa [upd_same, run] using hrun
      · obtain ⟨hu', du, solou, hoku, hownu, hrunu, hvalu⟩ := hI u
        have hfalse : hu' = false := by
          cases hu' with
          | false => rfl
          | true =>
            have := hownu.mp rfl; rw [howner] at this; injection this with e; exact absurd e.symm hu
        subst hfalse
        exact ⟨false, du, solou, by simpa [upd_other _ _ _ _ hu] using hoku, by simp,
          by simpa [upd_other _ _ _ _ hu] using hrunu, by simp⟩
    | set g =>
      simp only [sectionOK, Bool.and_eq_true] at hok
      have hh : h = true := hok.1
      have howner : s.owner = some t := hown.mp hh
      intro u
      by_cases hu : u = t
      · subst hu
        refine ⟨true, g :: d, (fun y => if y = g then args u g else solo y), by simpa [upd_same, hh] using hok.2,
          by simpa using howner, ?_, ?_⟩
        · simpa [upd_same, run] using hrun
        · intro _ y hy
          by_cases hyg : y = g
          · subst hyg; simp
          · have hyd : y ∈ d := by simpa [hyg] using hy
            simpa [hyg] using hval hh y hyd
      · obtain ⟨hu', du, solou, hoku, hownu, hrunu, hvalu⟩ := hI u
        have hfalse : hu' = false := by
          cases hu' with
          | false => rfl
          | true =>
            have := hownu.mp rfl; rw [howner] at this; injection this with e; exact absurd e.symm hu
        subst hfalse
        refine ⟨false, du, solou, by simpa [upd_other _ _ _ _ hu] using hoku, ?_, by simpa [upd_other _ _ _ _ hu] using hrunu, by simp⟩
        simp only [Bool.false_eq_true, false_iff]
        intro e; rw [howner] at e; injection e with e; exact hu e.symm
    | use g =>
      simp only [sectionOK, Bool.and_eq_true, List.contains_iff_mem] at hok
      have hh : h = true := hok.1.1
      have hg : g ∈ d := hok.1.2
      have hseen : s.store g = solo g := by
        have := hval hh g hg; rw [this.1, this.2]
      intro u
      by_cases hu : u = t
      · subst hu
        refine ⟨h, d, solo, by simpa [upd_same] using hok.2, by simpa using hown, ?_, by simpa using hval⟩
        simpa [upd_same, run, hseen] using hrun
      · obtain ⟨hu', du, solou, hoku, hownu, hrunu, hvalu⟩ := hI u
        exact ⟨hu', du, solou, by simpa [upd_other _ _ _ _ hu] using hoku, by simpa using hownu,
          by simpa [upd_other _ _ _ _ hu] using hrunu, by simpa using hvalu⟩

    | touch g =>
      simp only [sectionOK, Bool.and_eq_true] at hok
      intro u
      by_cases hu : u = t
      · subst hu
        refine ⟨h, d, solo, by simpa [upd_same] using hok.2, by simpa using hown, ?_, by simpa using hval⟩
        simpa [upd_same, run] using hrun
      · obtain ⟨hu', du, solou, hoku, hownu, hrunu, hvalu⟩ := hI u
        exact ⟨hu', du, solou, by simpa [upd_other _ _ _ _ hu] using hoku, by simpa using hownu,
          by simpa [upd_other _ _ _ _ hu] using hrunu, by simpa using hvalu⟩

theorem inv_sched (args : Nat → String → Val) (prog : Nat → List Instr) (s0 : Store) :
    ∀ (sched : List Nat) (s : Sys), Inv args prog s0 s → Inv args prog s0 (runSched args s sched)
  | [], _, h => h
  | t :: rest, s, h => by
    simp only [runSched, List.foldl]
    exact inv_sched args prog s0 rest (stepT args s t) (inv_step args prog s0 s t h)

end MoSql.Session

namespace MoSql.Session

theorem sectionOK_false_d (d : List String) : ∀ q : List Instr, sectionOK false d q = sectionOK false [] q
  | [] => rfl
  | .acq :: _ => rfl
  | .rel :: _ => by simp [sectionOK]
  | .set _ :: _ => by simp [sectionOK]
  | .use _ :: _ => by simp [sectionOK]
  | .touch _ :: _ => by simp [sectionOK]

theorem sectionOK_append : ∀ (p q : List Instr) (h : Bool) (d : List String),
    sectionOK h d p = true → sectionOK false [] q = true → sectionOK h d (p ++ q) = true
  | [], q, h, d, hp, hq => by
    have : h = false := by simpa [sectionOK] using hp
    subst this; simpa [sectionOK_false_d d q] using hq
  | .acq :: p, q, h, d, hp, hq => by
    simp only [List.cons_append, sectionOK, Bool.and_eq_true] at hp ⊢
    exact ⟨hp.1, sectionOK_append p q true [] hp.2 hq⟩
  | .rel :: p, q, h, d, hp, hq => by
    simp only [List.cons_append, sectionOK, Bool.and_eq_true] at hp ⊢
    exact ⟨hp.1, sectionOK_append p q false [] hp.2 hq⟩
  | .set g :: p, q, h, d, hp, hq => by
    simp only [List.cons_append, sectionOK, Bool.and_eq_true] at hp ⊢
    exact ⟨hp.1, sectionOK_append p q h (g :: d) hp.2 hq⟩
  | .use g :: p, q, h, d, hp, hq => by
    simp only [List.cons_append, sectionOK, Bool.and_eq_true] at hp ⊢
    exact ⟨hp.1, sectionOK_append p q h d hp.2 hq⟩
  | .touch g :: p, q, h, d, hp, hq => by
    simp only [List.cons_append, sectionOK, Bool.and_eq_true] at hp ⊢
    exact ⟨hp.1, sectionOK_append p q h d hp.2 hq⟩

theorem sectionOK_flatten : ∀ (calls : List (List Instr)), (∀ c ∈ calls, sectionOK false [] c = true) →
    sectionOK false [] calls.flatten = true
  | [], _ => rfl
  | c :: cs, h => by
    simp only [List.flatten_cons]
    exact sectionOK_append c cs.flatten false [] (h c List.mem_cons_self)
      (sectionOK_flatten cs (fun x hx => h x (List.mem_cons_of_mem _ hx)))

/-- thread `t` can take a step that changes the state -/
def enabled (s : Sys) (t : Nat) : Prop :=
  match (s.th t).todo with
  | [] => False
  | .acq :: _ => s.owner = none
  | _ => True

theorem no_deadlock (args : Nat → String → Val) (prog : Nat → List Instr) (s0 : Store) (s : Sys)
    (hI : Inv args prog s0 s) (u : Nat) (hu : (s.th u).todo ≠ []) : ∃ t, enabled s t := by
  cases hown : s.owner with
  | none =>
    refine ⟨u, ?_⟩
    unfold enabled
    cases htodo : (s.th u).todo with
    | nil => exact absurd htodo hu
    | cons i p => cases i <;> simp [hown]
  | some t =>
    refine ⟨t, ?_⟩
    obtain ⟨h, d, solo, hok, hiff, _, _⟩ := hI t
    have hh : h = true := hiff.mpr hown
    subst hh
    unfold enabled
    cases htodo : (s.th t).todo with
    | nil => rw [htodo] at hok; simp [sectionOK] at hok
    | cons i p =>
      rw [htodo] at hok
      cases i <;> simp_all [sectionOK]

end MoSql.Session
