import MoSql.Query
import MoSql.Scrub
namespace MoSql.Query
open MoSql

theorem fold_run (op : String) (hu : isUnionOp op = true) :
    ∀ (run : List (String × J)) (xs : List J) (rest : List (String × J)),
      (∀ p ∈ run, sameOp op p = true) →
      fold (.obj [(op, .arr xs)]) (some op) (run ++ rest)
        = fold (.obj [(op, .arr (xs ++ run.map (·.2)))]) (some op) rest
  | [], xs, rest, _ => by simp
  | (o, so) :: run, xs, rest, h => by
    have ho : o = op := by
      have := h (o, so) (List.mem_cons_self); simpa [sameOp] using this
    subst ho
    have ih := fold_run o hu run (xs ++ [so]) rest (fun p hp => h p (List.mem_cons_of_mem _ hp))
    simp only [List.cons_append, fold, step, hu, beq_self_eq_true, Bool.and_self, if_true]
    rw [ih]
    simp

theorem step_plain (acc : J) (last : Option String) (o : String) (so : J)
    (h : ((last == some o) && isUnionOp o) = false) :
    step acc last o so = .obj [(o, .arr [acc, so])] := by
  unfold step
  rw [h]
  rfl

theorem fold_last_irrelevant (acc : J) (op : String) :
    ∀ rest : List (String × J), (isUnionOp op = false ∨ ∀ p so, rest.head? = some (p, so) → p ≠ op) →
      fold acc (some op) rest = fold acc none rest
  | [], _ => rfl
  | (o, so) :: rest, h => by
    have h1 : ((some op == some o) && isUnionOp o) = false := by
      rcases h with h | h
      · by_cases ho : o = op
        · subst ho; simp [h]
        · have : (some op == some o) = false := by simpa using fun h' => ho h'.symm
          simp [this]
      · have hne := h o so rfl
        have : (some op == some o) = false := by simpa using fun h' => hne h'.symm
        simp [this]
    have h2 : (((none : Option String) == some o) && isUnionOp o) = false := by simp
    show fold (step acc (some op) o so) (some o) rest = fold (step acc none o so) (some o) rest
    rw [step_plain acc (some op) o so h1, step_plain acc none o so h2]

theorem takeWhile_append_dropWhile {α : Type} (p : α → Bool) (l : List α) :
    l.takeWhile p ++ l.dropWhile p = l := List.takeWhile_append_dropWhile

theorem dropWhile_head (op : String) (rest : List (String × J)) :
    ∀ p so, (rest.dropWhile (sameOp op)).head? = some (p, so) → p ≠ op := by
  intro p so h hp
  induction rest with
  | nil => simp at h
  | cons x xs ih =>
    simp only [List.dropWhile] at h
    split at h
    · exact ih h
    · rename_i hx
      simp only [List.head?_cons, Option.some.injEq] at h
      subst h
      simp [sameOp, hp] at hx

/-- **`to_union_call` groups as demanded, for chains of any length** -/
theorem fold_eq_spec : ∀ (fuel : Nat) (rest : List (String × J)) (acc : J), rest.length ≤ fuel →
    fold acc none rest = spec acc fuel rest
  | 0, [], acc, _ => rfl
  | 0, _ :: _, _, h => by simp at h
  | fuel + 1, [], acc, _ => rfl
  | fuel + 1, (op, so) :: rest, acc, h => by
    simp only [List.length_cons, Nat.add_le_add_iff_right] at h
    simp only [fold, spec]
    have hstep : step acc none op so = .obj [(op, .arr [acc, so])] :=
      step_plain acc none op so (by simp)
    rw [hstep]
    cases hu : isUnionOp op with
    | true =>
      simp only [if_true]
      have hsplit := takeWhile_append_dropWhile (sameOp op) rest
      have hlen : (rest.dropWhile (sameOp op)).length ≤ fuel :=
        Nat.le_trans (List.dropWhile_sublist (sameOp op)).length_le h
      conv => lhs; rw [← hsplit]
      rw [fold_run op hu _ [acc, so] _ (fun p hp =>
        (List.all_eq_true.mp (List.all_takeWhile (p := sameOp op) (l := rest))) p hp)]
      rw [fold_last_irrelevant _ op _ (Or.inr (dropWhile_head op rest))]
      exact fold_eq_spec fuel _ _ hlen
    | false =>
      simp only [Bool.false_eq_true, if_false]
      rw [fold_last_irrelevant _ op rest (Or.inl hu)]
      exact fold_eq_spec fuel rest _ h

end MoSql.Query

namespace MoSql.Scrub
open MoSql

theorem scrubList_eq_map (c : Cfg) : ∀ rs : List Raw, scrubList c rs = rs.map (scrub c)
  | [] => rfl
  | r :: rs => by simp [scrubList, scrubList_eq_map c rs]

theorem scrubKw_keys (c : Cfg) : ∀ kvs : List (String × Raw),
    (scrubKw c kvs).map (·.1) = (kvs.filter (fun kv => !(scrub c kv.2).isNull)).map (·.1)
  | [] => rfl
  | (k, r) :: rest => by
    simp only [scrubKw]
    cases h : (scrub c r).isNull with
    | true => simp [h, scrubKw_keys c rest]
    | false => simp [h, scrubKw_keys c rest]

theorem scrubKw_value (c : Cfg) : ∀ (kvs : List (String × Raw)) (k : String) (r : Raw),
    (k, r) ∈ kvs → (scrub c r).isNull = false → (k, mark (scrub c r)) ∈ scrubKw c kvs
  | [], _, _, h, _ => by cases h
  | (k', r') :: rest, k, r, h, hn => by
    simp only [scrubKw]
    rcases List.mem_cons.mp h with h | h
    · cases h
      simp [hn]
    · have ih := scrubKw_value c rest k r h hn
      split
      · exact ih
      · exact List.mem_cons_of_mem _ ih

theorem collapse_many (ys : List J) (hn : ∀ y ∈ ys, y.isNull = false) (hl : 2 ≤ ys.length) :
    collapse ys = .arr (ys.map mark) := by
  unfold collapse
  have hf : ys.filter (fun j => !j.isNull) = ys := by
    apply List.filter_eq_self.mpr
    intro y hy; simp [hn y hy]
  rw [hf]
  match ys, hl with
  | a :: b :: rest, _ => rfl

end MoSql.Scrub
