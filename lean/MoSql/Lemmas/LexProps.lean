import MoSql.Lex
namespace MoSql.Lex

/-! ### the quoted token is consumed exactly, and SQL-decodes to the original text -/

theorem matchBody_doubled (quote : Char) (rest : List Char)
    (hr : ∀ c cs, rest = c :: cs → (c == quote) = false) :
    ∀ s : List Char, matchBody quote (doubleQuotes quote s ++ quote :: rest) = some (doubleQuotes quote s, rest)
  | [] => by
    show matchBody quote (quote :: rest) = some ([], rest)
    unfold matchBody
    cases rest with
    | nil => simp
    | cons c cs => simp [hr c cs rfl]
  | c :: s => by
    have ih := matchBody_doubled quote rest hr s
    by_cases hc : (c == quote) = true
    · have hq : c = quote := by simpa using hc
      subst hq
      show matchBody c (doubleQuotes c (c :: s) ++ c :: rest) = _
      have : doubleQuotes c (c :: s) = c :: c :: doubleQuotes c s := by simp [doubleQuotes]
      rw [this]
      show matchBody c (c :: c :: (doubleQuotes c s ++ c :: rest)) = _
      unfold matchBody
      simp [ih]
    · have hc' : (c == quote) = false := by simpa using hc
      have : doubleQuotes quote (c :: s) = c :: doubleQuotes quote s := by simp [doubleQuotes, hc']
      rw [this]
      show matchBody quote (c :: (doubleQuotes quote s ++ quote :: rest)) = _
      unfold matchBody
      simp [hc', ih]

theorem undouble_doubled (quote : Char) : ∀ s : List Char, undouble quote (doubleQuotes quote s) = s
  | [] => rfl
  | c :: s => by
    have ih := undouble_doubled quote s
    by_cases hc : (c == quote) = true
    · have hq : c = quote := by simpa using hc
      subst hq
      simp [doubleQuotes, undouble, ih]
    · have hc' : (c == quote) = false := by simpa using hc
      simp only [doubleQuotes, hc', Bool.false_eq_true, if_false]
      cases hd : doubleQuotes quote s with
      | nil => rw [hd] at ih; simp [undouble, ← ih]
      | cons c2 cs2 =>
        rw [hd] at ih
        simp [undouble, hc', ih]

/-! ### the implementation's decoder on text without backslash, CR or NUL -/

def plainChar (c : Char) : Bool := !(c == bs) && !(c == '\r') && !(c == '\x00')

/-- the Python source text the decoder builds for the string `s` -/
def pySource (s : List Char) : List Char :=
  match s with
  | [] => []
  | c :: cs => if c == q then bs :: q :: pySource cs else if c == dq then bs :: dq :: pySource cs else c :: pySource cs

theorem replacePairs_doubled : ∀ s : List Char,
    escapeDq (replacePairs q bs q (doubleQuotes q s)) = pySource s
  | [] => rfl
  | c :: s => by
    have ih := replacePairs_doubled s
    by_cases hc : (c == q) = true
    · have hq : c = q := by simpa using hc
      subst hq
      have h1 : (bs == dq) = false := by decide
      have h2 : (q == dq) = false := by decide
      simp [doubleQuotes, replacePairs, escapeDq, pySource, h1, h2, ih]
    · have hc' : (c == q) = false := by simpa using hc
      simp only [doubleQuotes, hc', Bool.false_eq_true, if_false, pySource]
      cases hd : doubleQuotes q s with
      | nil =>
        rw [hd] at ih
        by_cases hd2 : (c == dq) = true
        · simp [replacePairs, escapeDq, hd2] at ih ⊢; exact ih
        · have hd2' : (c == dq) = false := by simpa using hd2
          simp [replacePairs, escapeDq, hd2'] at ih ⊢; exact ih
      | cons c2 cs2 =>
        rw [hd] at ih
        by_cases hd2 : (c == dq) = true
        · simp [replacePairs, escapeDq, hc', hd2] at ih ⊢; exact ih
        · have hd2' : (c == dq) = false := by simpa using hd2
          simp [replacePairs, escapeDq, hc', hd2'] at ih ⊢; exact ih

theorem pyEval_pySource : ∀ (s : List Char) (fuel : Nat), s.length < fuel →
    (∀ c ∈ s, plainChar c = true) → pyEvalG true fuel (pySource s) = some s
  | [], fuel, _, _ => by cases fuel <;> rfl
  | c :: s, 0, h, _ => by simp at h
  | c :: s, fuel + 1, h, hp => by
    have hc := hp c (List.mem_cons_self)
    simp only [plainChar, Bool.and_eq_true, Bool.not_eq_true'] at hc
    obtain ⟨⟨hbs, hcr⟩, hnul⟩ := hc
    have ih := pyEval_pySource s fuel (by simpa using h) (fun x hx => hp x (List.mem_cons_of_mem _ hx))
    by_cases hq : (c == q) = true
    · have : c = q := by simpa using hq
      subst this
      have e1 : (bs == '\x00') = false := by decide
      have e2 : (bs == '\r') = false := by decide
      have e3 : (q == bs) = false := by decide
      simp [pySource, pyEvalG, e1, e2, e3, ih]
    · have hq' : (c == q) = false := by simpa using hq
      by_cases hd : (c == dq) = true
      · have : c = dq := by simpa using hd
        subst this
        have e1 : (bs == '\x00') = false := by decide
        have e2 : (bs == '\r') = false := by decide
        have e3 : (dq == bs) = false := by decide
        have e4 : (dq == q) = false := by decide
        simp [pySource, pyEvalG, e1, e2, e3, e4, ih]
      · have hd' : (c == dq) = false := by simpa using hd
        simp [pySource, pyEvalG, hq', hd', hbs, hcr, hnul, ih]

theorem pySource_length_le : ∀ s : List Char, s.length ≤ (pySource s).length
  | [] => Nat.le_refl _
  | c :: s => by
    have := pySource_length_le s
    simp only [pySource]
    split
    · simp; omega
    · split <;> simp <;> omega

/-! ### decimal integers -/

def valRev : List Nat → Nat
  | [] => 0
  | d :: ds => d + 10 * valRev ds

theorem valRev_revDigits : ∀ (fuel n : Nat), n < fuel → valRev (revDigits fuel n) = n
  | 0, n, h => by simp at h
  | fuel + 1, n, h => by
    unfold revDigits
    split
    · simp [valRev]
    · rename_i hn
      have : n / 10 < fuel := by omega
      simp only [valRev, valRev_revDigits fuel (n / 10) this]
      omega

theorem revDigits_lt_ten : ∀ (fuel n : Nat), ∀ d ∈ revDigits fuel n, d < 10
  | 0, _, d, h => by simp [revDigits] at h
  | fuel + 1, n, d, h => by
    unfold revDigits at h
    split at h
    · simp at h; omega
    · simp only [List.mem_cons] at h
      rcases h with h | h
      · omega
      · exact revDigits_lt_ten fuel (n / 10) d h

def parseDigits (ds : List Nat) : Nat := ds.foldl (fun a d => a * 10 + d) 0

theorem foldl_digits_append (ds : List Nat) (d a : Nat) :
    (ds ++ [d]).foldl (fun a d => a * 10 + d) a = (ds.foldl (fun a d => a * 10 + d) a) * 10 + d := by
  simp [List.foldl_append]

theorem parseDigits_reverse : ∀ ds : List Nat, parseDigits ds.reverse = valRev ds
  | [] => rfl
  | d :: ds => by
    have ih := parseDigits_reverse ds
    unfold parseDigits at ih ⊢
    rw [List.reverse_cons, foldl_digits_append, ih, valRev]
    omega

theorem digitChar_val (d : Nat) (h : d < 10) : (digitChar d).toNat - 48 = d := by
  have : ∀ d, d < 10 → (digitChar d).toNat - 48 = d := by decide
  exact this d h

theorem parseNat_map_digitChar : ∀ (ds : List Nat) (a : Nat), (∀ d ∈ ds, d < 10) →
    (ds.map digitChar).foldl (fun a c => a * 10 + (c.toNat - 48)) a = ds.foldl (fun a d => a * 10 + d) a
  | [], _, _ => rfl
  | d :: ds, a, h => by
    simp only [List.map, List.foldl]
    rw [digitChar_val d (h d (List.mem_cons_self))]
    exact parseNat_map_digitChar ds _ (fun x hx => h x (List.mem_cons_of_mem _ hx))

end MoSql.Lex

namespace MoSql.Lex

/-! ### double-quoted literals -/

def pySourceDQ (s : List Char) : List Char :=
  match s with
  | [] => []
  | c :: cs => if c == dq then bs :: dq :: pySourceDQ cs else c :: pySourceDQ cs

theorem replacePairs_doubledDQ : ∀ s : List Char,
    replacePairs dq bs dq (doubleQuotes dq s) = pySourceDQ s
  | [] => rfl
  | c :: s => by
    have ih := replacePairs_doubledDQ s
    by_cases hc : (c == dq) = true
    · have hq : c = dq := by simpa using hc
      subst hq
      simp [doubleQuotes, replacePairs, pySourceDQ, ih]
    · have hc' : (c == dq) = false := by simpa using hc
      simp only [doubleQuotes, hc', Bool.false_eq_true, if_false, pySourceDQ]
      cases hd : doubleQuotes dq s with
      | nil => rw [hd] at ih; simp [replacePairs] at ih ⊢; exact ih
      | cons c2 cs2 =>
        rw [hd] at ih
        simp [replacePairs, hc'] at ih ⊢; exact ih

theorem pyEval_pySourceDQ : ∀ (s : List Char) (fuel : Nat), s.length < fuel →
    (∀ c ∈ s, plainChar c = true) → pyEvalG true fuel (pySourceDQ s) = some s
  | [], fuel, _, _ => by cases fuel <;> rfl
  | c :: s, 0, h, _ => by simp at h
  | c :: s, fuel + 1, h, hp => by
    have hc := hp c (List.mem_cons_self)
    simp only [plainChar, Bool.and_eq_true, Bool.not_eq_true'] at hc
    obtain ⟨⟨hbs, hcr⟩, hnul⟩ := hc
    have ih := pyEval_pySourceDQ s fuel (by simpa using h) (fun x hx => hp x (List.mem_cons_of_mem _ hx))
    by_cases hd : (c == dq) = true
    · have : c = dq := by simpa using hd
      subst this
      have e1 : (bs == '\x00') = false := by decide
      have e2 : (bs == '\r') = false := by decide
      have e3 : (dq == bs) = false := by decide
      have e4 : (dq == q) = false := by decide
      simp [pySourceDQ, pyEvalG, e1, e2, e3, e4, ih]
    · have hd' : (c == dq) = false := by simpa using hd
      simp [pySourceDQ, pyEvalG, hd', hbs, hcr, hnul, ih]

theorem pySourceDQ_length_le : ∀ s : List Char, s.length ≤ (pySourceDQ s).length
  | [] => Nat.le_refl _
  | c :: s => by
    have := pySourceDQ_length_le s
    simp only [pySourceDQ]
    split <;> simp <;> omega

/-! ### digit strings -/

theorem isDigit_digitChar (d : Nat) (h : d < 10) : isDigit (digitChar d) = true := by
  have : ∀ d, d < 10 → isDigit (digitChar d) = true := by decide
  exact this d h

theorem digits_all_digit (n : Nat) : ∀ c ∈ digits n, isDigit c = true := by
  intro c hc
  simp only [digits, List.mem_map, List.mem_reverse] at hc
  obtain ⟨d, hd, rfl⟩ := hc
  exact isDigit_digitChar d (revDigits_lt_ten _ _ d hd)

theorem parseNat_digits (n : Nat) : parseNat (digits n) = n := by
  unfold parseNat digits
  rw [parseNat_map_digitChar _ 0 (by
    intro d hd
    exact revDigits_lt_ten _ _ d (List.mem_reverse.mp hd))]
  have := parseDigits_reverse (revDigits (n + 1) n)
  unfold parseDigits at this
  rw [this, valRev_revDigits (n + 1) n (Nat.lt_succ_self n)]

end MoSql.Lex

namespace MoSql.Lex

/-! ### quoted identifiers -/

/-- what may appear in a quoted identifier for the decoder to be exact -/
def plainIdChar (c : Char) : Bool := plainChar c && !(c == '\n')

theorem escapeDq_eq : ∀ s : List Char, escapeDq s = pySourceDQ s
  | [] => rfl
  | c :: s => by simp [escapeDq, pySourceDQ, escapeDq_eq s]

theorem pyEval1_pySourceDQ : ∀ (s : List Char) (fuel : Nat), s.length < fuel →
    (∀ c ∈ s, plainIdChar c = true) → pyEvalG false fuel (pySourceDQ s) = some s
  | [], fuel, _, _ => by cases fuel <;> rfl
  | c :: s, 0, h, _ => by simp at h
  | c :: s, fuel + 1, h, hp => by
    have hc := hp c (List.mem_cons_self)
    simp only [plainIdChar, plainChar, Bool.and_eq_true, Bool.not_eq_true'] at hc
    obtain ⟨⟨⟨hbs, hcr⟩, hnul⟩, hnl⟩ := hc
    have ih := pyEval1_pySourceDQ s fuel (by simpa using h) (fun x hx => hp x (List.mem_cons_of_mem _ hx))
    by_cases hd : (c == dq) = true
    · have : c = dq := by simpa using hd
      subst this
      have e1 : (bs == '\x00') = false := by decide
      have e2 : (bs == '\r') = false := by decide
      have e3 : (dq == bs) = false := by decide
      have e4 : (dq == q) = false := by decide
      have e5 : (bs == '\n') = false := by decide
      have e6 : (bs == dq) = false := by decide
      simp [pySourceDQ, pyEvalG, e1, e2, e3, e4, e5, e6, ih]
    · have hd' : (c == dq) = false := by simpa using hd
      simp [pySourceDQ, pyEvalG, hd', hbs, hcr, hnul, hnl, ih]

theorem matchQuoted_quoteWith (open_ close : Char) (s : List Char) :
    matchQuoted open_ close (quoteWith open_ close s) = some (doubleQuotes close s, []) := by
  have := matchBody_doubled close [] (by intro c cs h; cases h) s
  simp only [quoteWith, matchQuoted, beq_self_eq_true, if_true]
  exact this

/-! ### bare names -/

theorem takeWhile_all {α : Type} (p : α → Bool) : ∀ (xs rest : List α), xs.all p = true →
    (∀ r rs, rest = r :: rs → p r = false) →
    (xs ++ rest).takeWhile p = xs ∧ (xs ++ rest).dropWhile p = rest
  | [], rest, _, hr => by
    cases rest with
    | nil => simp
    | cons r rs => simp [List.takeWhile, List.dropWhile, hr r rs rfl]
  | x :: xs, rest, h, hr => by
    simp only [List.all_cons, Bool.and_eq_true] at h
    have ih := takeWhile_all p xs rest h.2 hr
    simp [List.takeWhile, List.dropWhile, h.1, ih.1, ih.2]

end MoSql.Lex

namespace MoSql.Lex

theorem takeWhile_digits_append (ds : List Char) (hd : ∀ c ∈ ds, isDigit c = true) (c : Char) (r : List Char) (hc : isDigit c = false) :
    (ds ++ c :: r).takeWhile isDigit = ds ∧ (ds ++ c :: r).dropWhile isDigit = c :: r := by
  induction ds with
  | nil => simp [List.takeWhile, List.dropWhile, hc]
  | cons d ds ih =>
    have hd0 : isDigit d = true := hd d List.mem_cons_self
    have ih' := ih (fun x hx => hd x (List.mem_cons_of_mem _ hx))
    simp [List.takeWhile, List.dropWhile, hd0, ih'.1, ih'.2]

theorem stripPlus_of_digits : ∀ (ks : List Char), (∀ c ∈ ks, isDigit c = true) → stripPlus ks = ks
  | [], _ => rfl
  | c :: cs, h => by
    have hc : isDigit c = true := h c List.mem_cons_self
    unfold stripPlus
    split
    · rename_i t heq
      simp only [List.cons.injEq] at heq
      rw [heq.1] at hc
      simp [isDigit] at hc
    · rfl

theorem takeWhile_all_digits : ∀ (ds : List Char), (∀ c ∈ ds, isDigit c = true) →
    ds.takeWhile isDigit = ds ∧ ds.dropWhile isDigit = []
  | [], _ => by simp
  | d :: ds, h => by
    have hd0 : isDigit d = true := h d List.mem_cons_self
    have ih := takeWhile_all_digits ds (fun x hx => h x (List.mem_cons_of_mem _ hx))
    simp [List.takeWhile, List.dropWhile, hd0, ih.1, ih.2]

/-- `parse_int` on the text `<digits>e[+]<digits>`: exactly mantissa × 10^exponent, whatever the sizes -/
theorem parseIntText_exponent (n k : Nat) (e : Char) (he : isDigit e = false) (plus : Bool) :
    parseIntText (digits n ++ e :: ((if plus then ['+'] else []) ++ digits k)) = n * 10 ^ k := by
  have h := takeWhile_digits_append (digits n) (digits_all_digit n) e ((if plus then ['+'] else []) ++ digits k) he
  unfold parseIntText
  simp only [h.1, h.2, parseNat_digits]
  cases plus
  · simp only [Bool.false_eq_true, if_false, List.nil_append, stripPlus_of_digits (digits k) (digits_all_digit k), parseNat_digits]
  · simp only [if_true, List.cons_append, List.nil_append, stripPlus, parseNat_digits]

/-- … and without an exponent -/
theorem parseIntText_plain (n : Nat) : parseIntText (digits n) = n := by
  unfold parseIntText
  have h := takeWhile_all_digits (digits n) (digits_all_digit n)
  simp only [h.1, h.2, parseNat_digits]

end MoSql.Lex
