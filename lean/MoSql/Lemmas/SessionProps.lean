import MoSql.Session
namespace MoSql.Session

theorem run_indep (a : String → Val) : ∀ (p : List Instr) (d : List String) (s₁ s₂ : Store) (tr : List Val),
    resetBeforeUse d p = true → (∀ g ∈ d, s₁ g = s₂ g) → (run a p s₁ tr).2 = (run a p s₂ tr).2
  | [], _, _, _, _, _, _ => rfl
  | .set g :: p, d, s₁, s₂, tr, h, hd => by
    simp only [run]
    apply run_indep a p (g :: d) _ _ tr (by simpa [resetBeforeUse] using h)
    intro x hx
    by_cases hxg : x = g
    · simp [hxg]
    · simp only [hxg, if_false]
      exact hd x (by simpa [hxg] using hx)
  | .use g :: p, d, s₁, s₂, tr, h, hd => by
    simp only [resetBeforeUse, Bool.and_eq_true, List.contains_iff_mem] at h
    simp only [run]
    rw [hd g h.1]
    exact run_indep a p d s₁ s₂ _ h.2 hd
  | .acq :: p, d, s₁, s₂, tr, h, hd => by
    simp only [run]; exact run_indep a p d s₁ s₂ tr (by simpa [resetBeforeUse] using h) hd
  | .rel :: p, d, s₁, s₂, tr, h, hd => by
    simp only [run]; exact run_indep a p d s₁ s₂ tr (by simpa [resetBeforeUse] using h) hd
  | .touch g :: p, d, s₁, s₂, tr, h, hd => by
    simp only [run]; exact run_indep a p d s₁ s₂ tr (by simpa [resetBeforeUse] using h) hd

/-- cache invariant: whatever is cached under a key is what `build` makes for that key -/
def CacheOK (build : Key → Parser) (c : Key → Option Parser) : Prop := ∀ k p, c k = some p → p = build k

theorem lookup_ok (build : Key → Parser) (c : Key → Option Parser) (k : Key) (h : CacheOK build c) :
    (lookup build c k).1 = build k ∧ CacheOK build (lookup build c k).2 := by
  unfold lookup
  cases hk : c k with
  | some p => exact ⟨h k p hk, h⟩
  | none =>
    refine ⟨rfl, ?_⟩
    intro k' p' hp
    by_cases e : k' = k
    · subst e; simp at hp; exact hp.symm
    · simp [e] at hp; exact h k' p' hp

theorem after_cacheOK (build : Key → Parser) : ∀ (cs : List Call) (s : State),
    CacheOK build s.cache → CacheOK build (after build s cs).cache
  | [], s, h => h
  | c :: cs, s, h => by
    have := (lookup_ok build s.cache c.key h).2
    exact after_cacheOK build cs (step build s c).1 (by simpa [step] using this)

end MoSql.Session

namespace MoSql.Session

theorem rbu_mono : ∀ (p : List Instr) (d d' : List String), (∀ g ∈ d, g ∈ d') →
    resetBeforeUse d p = true → resetBeforeUse d' p = true
  | [], _, _, _, _ => rfl
  | .set g :: p, d, d', hs, h => by
    simp only [resetBeforeUse] at h ⊢
    exact rbu_mono p (g :: d) (g :: d') (by
      intro x hx
      rcases List.mem_cons.mp hx with e | e
      · exact e ▸ List.mem_cons_self
      · exact List.mem_cons_of_mem _ (hs x e)) h
  | .use g :: p, d, d', hs, h => by
    simp only [resetBeforeUse, Bool.and_eq_true, List.contains_iff_mem] at h ⊢
    exact ⟨hs g h.1, rbu_mono p d d' hs h.2⟩
  | .acq :: p, d, d', hs, h => by
    simp only [resetBeforeUse] at h ⊢; exact rbu_mono p d d' hs h
  | .rel :: p, d, d', hs, h => by
    simp only [resetBeforeUse] at h ⊢; exact rbu_mono p d d' hs h
  | .touch g :: p, d, d', hs, h => by
    simp only [resetBeforeUse] at h ⊢; exact rbu_mono p d d' hs h

theorem rbu_append : ∀ (p q : List Instr) (d : List String),
    resetBeforeUse d p = true → resetBeforeUse [] q = true → resetBeforeUse d (p ++ q) = true
  | [], q, d, _, hq => rbu_mono q [] d (by intro g hg; cases hg) hq
  | .set g :: p, q, d, hp, hq => by
    simp only [List.cons_append, resetBeforeUse] at hp ⊢; exact rbu_append p q (g :: d) hp hq
  | .use g :: p, q, d, hp, hq => by
    simp only [List.cons_append, resetBeforeUse, Bool.and_eq_true] at hp ⊢
    exact ⟨hp.1, rbu_append p q d hp.2 hq⟩
  | .acq :: p, q, d, hp, hq => by
    simp only [List.cons_append, resetBeforeUse] at hp ⊢; exact rbu_append p q d hp hq
  | .rel :: p, q, d, hp, hq => by
    simp only [List.cons_append, resetBeforeUse] at hp ⊢; exact rbu_append p q d hp hq
  | .touch g :: p, q, d, hp, hq => by
    simp only [List.cons_append, resetBeforeUse] at hp ⊢; exact rbu_append p q d hp hq

/-- a script of `n` lines runs the body `n` times -/
def loop (body : List Instr) : Nat → List Instr
  | 0 => []
  | n + 1 => body ++ loop body n

theorem rbu_loop (body : List Instr) (h : resetBeforeUse [] body = true) : ∀ n, resetBeforeUse [] (loop body n) = true
  | 0 => rfl
  | n + 1 => rbu_append body (loop body n) [] h (rbu_loop body h n)

end MoSql.Session
