import MoSql.Script
namespace MoSql.Script
open MoSql

/-! ### the flatten rule of `_parse` -/

/-- what a statement's tree looks like to the accumulation loop: a non-empty dict -/
def isStmtTree : J → Bool
  | .obj (_ :: _) => true
  | _ => false

theorem accumulate_lines : ∀ lines : List (List J), (∀ l ∈ lines, ∀ t ∈ l, isStmtTree t = true) →
    accumulate (lines.map lineOutput) = lines.flatten
  | [], _ => rfl
  | l :: ls, h => by
    have ih := accumulate_lines ls (fun l' hl' => h l' (List.mem_cons_of_mem _ hl'))
    have hl := h l (List.mem_cons_self)
    match l, hl with
    | [], _ => simp [lineOutput, accumulate, truthy, ih]
    | [t], hl =>
      have ht := hl t (List.mem_cons_self)
      match t, ht with
      | .obj (kv :: kvs), _ => simp [lineOutput, accumulate, truthy, ih]
    | t1 :: t2 :: ts, _ => simp [lineOutput, accumulate, truthy, ih]

/-! ### splitting a block on a custom delimiter -/

theorem isPrefix_self_append (d rest : List Char) : isPrefix d (d ++ rest) = true := by
  induction d with
  | nil => rfl
  | cons c cs ih => simp [isPrefix, ih]

theorem isPrefix_head_ne {d : List Char} {c : Char} {cs : List Char} (hd : d ≠ []) (hc : c ∉ d) :
    isPrefix d (c :: cs) = false := by
  cases d with
  | nil => exact absurd rfl hd
  | cons x xs =>
    have : x ≠ c := fun h => hc (h ▸ List.mem_cons_self)
    simp [isPrefix, this]

theorem enderAt_newline (rest : List Char)
    (hr : rest = [] ∨ ∃ c cs, rest = c :: cs ∧ isWs c = false) : enderAt ('\n' :: rest) = some 1 := by
  rcases hr with h | ⟨c, cs, h, hc⟩
  · subst h; simp [enderAt, wsRun, isWs]
  · subst h
    have hn : isWs '\n' = true := by decide
    have hw : wsRun ('\n' :: c :: cs) = 1 := by
      simp only [wsRun, hn, hc, if_true, Bool.false_eq_true, if_false]
    unfold enderAt
    simp only [hw]
    have hlen : (('\n' :: c :: cs).length == 1) = false := by simp
    simp only [hlen, Bool.false_eq_true, if_false]
    simp [lastNewlineIn, lastNewlineIn.go]

theorem findSplit_hit (d : List Char) (hd : d ≠ []) (rest : List Char)
    (hr : rest = [] ∨ ∃ c cs, rest = c :: cs ∧ isWs c = false) :
    ∀ (s : List Char) (pos : Nat), (∀ c ∈ s, c ∉ d) →
      findSplit d (s ++ (d ++ '\n' :: rest)) pos = some (pos + s.length, pos + s.length + d.length + 1)
  | [], pos, _ => by
    cases d with
    | nil => exact absurd rfl hd
    | cons x xs =>
      have hp := isPrefix_self_append (x :: xs) ('\n' :: rest)
      simp only [List.nil_append, List.cons_append] at hp ⊢
      unfold findSplit
      simp only [hp, if_true]
      have : (x :: (xs ++ '\n' :: rest)).drop (x :: xs).length = '\n' :: rest := by
        simp
      rw [this, enderAt_newline rest hr]
      simp
  | c :: cs, pos, h => by
    have hc : c ∉ d := h c (List.mem_cons_self)
    have ih := findSplit_hit d hd rest hr cs (pos + 1) (fun x hx => h x (List.mem_cons_of_mem _ hx))
    simp only [List.cons_append]
    unfold findSplit
    rw [isPrefix_head_ne hd hc]
    simp only [Bool.false_eq_true, if_false, ih, List.length_cons]
    congr 2 <;> omega

/-- statements written one per delimiter line -/
def joinD (d : List Char) : List (List Char) → List Char
  | [] => []
  | s :: ss => s ++ (d ++ '\n' :: joinD d ss)

def startsNonWs : List Char → Bool
  | [] => false
  | c :: _ => !isWs c

theorem joinD_start (d : List Char) (ss : List (List Char)) (h : ∀ s ∈ ss, startsNonWs s = true) :
    joinD d ss = [] ∨ ∃ c cs, joinD d ss = c :: cs ∧ isWs c = false := by
  cases ss with
  | nil => left; rfl
  | cons s rest =>
    right
    have hs := h s (List.mem_cons_self)
    cases s with
    | nil => simp [startsNonWs] at hs
    | cons c cs =>
      refine ⟨c, cs ++ (d ++ '\n' :: joinD d rest), rfl, ?_⟩
      simpa [startsNonWs] using hs

/-- **Splitting inverts joining**, for any number of statements: if no character of the delimiter
occurs in a statement and every statement starts with a non-blank character, the block
`s₁ d \n s₂ d \n … sₙ d \n` is cut into exactly `s₁ … sₙ` (plus the empty remainder that the real
generator also yields, which parses to nothing). -/
theorem splitBlock_joinD (d : List Char) (hd : d ≠ []) :
    ∀ (ss : List (List Char)) (fuel : Nat), ss.length ≤ fuel →
      (∀ s ∈ ss, (∀ c ∈ s, c ∉ d) ∧ startsNonWs s = true) →
      splitBlock d fuel (joinD d ss) = ss ++ [[]]
  | [], fuel, _, _ => by
    cases fuel with
    | zero => rfl
    | succ n =>
      cases d with
      | nil => exact absurd rfl hd
      | cons x xs => simp [splitBlock, joinD, findSplit]
  | s :: ss, 0, hf, _ => by simp at hf
  | s :: ss, fuel + 1, hf, h => by
    have hs := h s (List.mem_cons_self)
    have hrest := joinD_start d ss (fun x hx => (h x (List.mem_cons_of_mem _ hx)).2)
    have hfs := findSplit_hit d hd (joinD d ss) hrest s 0 hs.1
    simp only [joinD, splitBlock, hfs, Nat.zero_add]
    have hne : (s.length + d.length + 1 == 0) = false := by simp
    simp only [hne, Bool.false_eq_true, if_false]
    have ih := splitBlock_joinD d hd ss fuel (by simpa using hf)
      (fun x hx => h x (List.mem_cons_of_mem _ hx))
    have h1 : (s ++ (d ++ '\n' :: joinD d ss)).take s.length = s := by simp
    have h2 : (s ++ (d ++ '\n' :: joinD d ss)).drop (s.length + d.length + 1) = joinD d ss := by
      rw [show s.length + d.length + 1 = s.length + (d.length + 1) by omega, ← List.drop_drop]
      simp
    rw [h1, h2, ih]
    simp

/-! ### directives -/

theorem pieces_no_directive (sql : List Char) (h : findDirective sql 0 true = none) :
    pieces sql = if (strip sql).isEmpty then [] else [.stmt (strip sql)] := by
  simp [pieces, parseDelimiters, h]

end MoSql.Script
