import MoSql.Lemmas.InfixCorrect
/-! Contraction preserves everything the induction needs; the loop therefore ends in the
single item `val w`. -/
namespace MoSql.Infix
variable {V : Type}

/-! ### contraction keeps value, well-formedness and compatibility, and shrinks the tree -/

theorem contractL_val (B : Builders V) (lv : List Level) (k : Nat) :
    ∀ w : W V, (w.contractL B lv k).val B lv = w.val B lv
  | .leaf _ => rfl
  | .pre j t x => by simp [W.contractL, W.val, contractL_val B lv k x]
  | .suf j x t => by
    unfold W.contractL; split
    · simp [W.val, contractL_val B lv k x]
    · split <;> simp [W.val]
  | .bin j l t r => by
    unfold W.contractL; split
    · simp [W.val, contractL_val B lv k l]
    · split
      · simp [W.val]
      · simp [W.val, contractL_val B lv k r]
  | .tern j a t0 b t1 c => by
    unfold W.contractL; split
    · simp [W.val, contractL_val B lv k a]
    · split
      · simp [W.val]
      · split
        · simp [W.val, contractL_val B lv k b]
        · simp [W.val, contractL_val B lv k c]

theorem contractR_val (B : Builders V) (lv : List Level) (k : Nat) :
    ∀ w : W V, (w.contractR B lv k).val B lv = w.val B lv
  | .leaf _ => rfl
  | .pre j t x => by
    unfold W.contractR; split
    · simp [W.val, contractR_val B lv k x]
    · split <;> simp [W.val]
  | .suf j x t => by simp [W.contractR, W.val, contractR_val B lv k x]
  | .bin j l t r => by
    unfold W.contractR; split
    · simp [W.val, contractR_val B lv k r]
    · simp [W.val, contractR_val B lv k l]
  | .tern j a t0 b t1 c => by
    unfold W.contractR; split
    · simp [W.val, contractR_val B lv k c]
    · split
      · simp [W.val, contractR_val B lv k b]
      · simp [W.val, contractR_val B lv k a]

theorem contractL_top (B : Builders V) (lv : List Level) (k : Nat) (w : W V) :
    (w.contractL B lv k).top = w.top ∨ (w.contractL B lv k).top = none := by
  cases w with
  | leaf v => left; rfl
  | pre j t x => left; rfl
  | suf j x t =>
    unfold W.contractL; split
    · left; rfl
    · split
      · right; rfl
      · left; rfl
  | bin j l t r =>
    unfold W.contractL; split
    · left; rfl
    · split
      · right; rfl
      · left; rfl
  | tern j a t0 b t1 c =>
    unfold W.contractL; split
    · left; rfl
    · split
      · right; rfl
      · split <;> (left; rfl)

theorem contractR_top (B : Builders V) (lv : List Level) (k : Nat) (w : W V) :
    (w.contractR B lv k).top = w.top ∨ (w.contractR B lv k).top = none := by
  cases w with
  | leaf v => left; rfl
  | pre j t x =>
    unfold W.contractR; split
    · left; rfl
    · split
      · right; rfl
      · left; rfl
  | suf j x t => left; rfl
  | bin j l t r => unfold W.contractR; split <;> (left; rfl)
  | tern j a t0 b t1 c =>
    unfold W.contractR; split
    · left; rfl
    · split <;> (left; rfl)

theorem le_of_top {w w' : W V} {k : Nat} (h : w'.top = w.top ∨ w'.top = none) (hle : w.le k) :
    w'.le k := by
  intro j hj
  rcases h with h | h
  · exact hle j (h ▸ hj)
  · rw [h] at hj; cases hj

theorem lt_of_top {w w' : W V} {k : Nat} (h : w'.top = w.top ∨ w'.top = none) (hlt : w.lt k) :
    w'.lt k := by
  intro j hj
  rcases h with h | h
  · exact hlt j (h ▸ hj)
  · rw [h] at hj; cases hj

theorem contractL_wf (B : Builders V) (lv : List Level) (k : Nat) :
    ∀ w : W V, w.WF lv → (w.contractL B lv k).WF lv
  | .leaf _, _ => trivial
  | .pre j t x, h => ⟨h.1, contractL_wf B lv k x h.2⟩
  | .suf j x t, h => by
    unfold W.contractL; split
    · exact ⟨h.1, contractL_wf B lv k x h.2⟩
    · split
      · trivial
      · exact h
  | .bin j l t r, h => by
    unfold W.contractL; split
    · exact ⟨h.1, contractL_wf B lv k l h.2.1, h.2.2⟩
    · split
      · trivial
      · exact ⟨h.1, h.2.1, contractL_wf B lv k r h.2.2⟩
  | .tern j a t0 b t1 c, h => by
    unfold W.contractL; split
    · exact ⟨h.1, contractL_wf B lv k a h.2.1, h.2.2.1, h.2.2.2⟩
    · split
      · trivial
      · split
        · exact ⟨h.1, h.2.1, contractL_wf B lv k b h.2.2.1, h.2.2.2⟩
        · exact ⟨h.1, h.2.1, h.2.2.1, contractL_wf B lv k c h.2.2.2⟩

theorem contractR_wf (B : Builders V) (lv : List Level) (k : Nat) :
    ∀ w : W V, w.WF lv → (w.contractR B lv k).WF lv
  | .leaf _, _ => trivial
  | .pre j t x, h => by
    unfold W.contractR; split
    · exact ⟨h.1, contractR_wf B lv k x h.2⟩
    · split
      · trivial
      · exact h
  | .suf j x t, h => ⟨h.1, contractR_wf B lv k x h.2⟩
  | .bin j l t r, h => by
    unfold W.contractR; split
    · exact ⟨h.1, h.2.1, contractR_wf B lv k r h.2.2⟩
    · exact ⟨h.1, contractR_wf B lv k l h.2.1, h.2.2⟩
  | .tern j a t0 b t1 c, h => by
    unfold W.contractR; split
    · exact ⟨h.1, h.2.1, h.2.2.1, contractR_wf B lv k c h.2.2.2⟩
    · split
      · exact ⟨h.1, h.2.1, contractR_wf B lv k b h.2.2.1, h.2.2.2⟩
      · exact ⟨h.1, contractR_wf B lv k a h.2.1, h.2.2.1, h.2.2.2⟩

theorem contractL_compat (B : Builders V) (lv : List Level) (k : Nat) :
    ∀ w : W V, w.Compat → (w.contractL B lv k).Compat
  | .leaf _, _ => trivial
  | .pre j t x, h =>
    ⟨le_of_top (contractL_top B lv k x) h.1, contractL_compat B lv k x h.2⟩
  | .suf j x t, h => by
    unfold W.contractL; split
    · exact ⟨le_of_top (contractL_top B lv k x) h.1, contractL_compat B lv k x h.2⟩
    · split
      · trivial
      · exact h
  | .bin j l t r, h => by
    unfold W.contractL; split
    · exact ⟨le_of_top (contractL_top B lv k l) h.1, h.2.1,
        contractL_compat B lv k l h.2.2.1, h.2.2.2⟩
    · split
      · trivial
      · exact ⟨h.1, lt_of_top (contractL_top B lv k r) h.2.1, h.2.2.1,
          contractL_compat B lv k r h.2.2.2⟩
  | .tern j a t0 b t1 c, h => by
    obtain ⟨h1, h2, h3, h4, h5, h6⟩ := h
    unfold W.contractL; split
    · exact ⟨le_of_top (contractL_top B lv k a) h1, h2, h3, contractL_compat B lv k a h4, h5, h6⟩
    · split
      · trivial
      · split
        · exact ⟨h1, lt_of_top (contractL_top B lv k b) h2, h3, h4,
            contractL_compat B lv k b h5, h6⟩
        · exact ⟨h1, h2, lt_of_top (contractL_top B lv k c) h3, h4, h5,
            contractL_compat B lv k c h6⟩

theorem contractR_compat (B : Builders V) (lv : List Level) (k : Nat) :
    ∀ w : W V, w.Compat → (w.contractR B lv k).Compat
  | .leaf _, _ => trivial
  | .pre j t x, h => by
    unfold W.contractR; split
    · exact ⟨le_of_top (contractR_top B lv k x) h.1, contractR_compat B lv k x h.2⟩
    · split
      · trivial
      · exact h
  | .suf j x t, h =>
    ⟨le_of_top (contractR_top B lv k x) h.1, contractR_compat B lv k x h.2⟩
  | .bin j l t r, h => by
    unfold W.contractR; split
    · exact ⟨h.1, lt_of_top (contractR_top B lv k r) h.2.1, h.2.2.1,
        contractR_compat B lv k r h.2.2.2⟩
    · exact ⟨le_of_top (contractR_top B lv k l) h.1, h.2.1,
        contractR_compat B lv k l h.2.2.1, h.2.2.2⟩
  | .tern j a t0 b t1 c, h => by
    obtain ⟨h1, h2, h3, h4, h5, h6⟩ := h
    unfold W.contractR; split
    · exact ⟨h1, h2, lt_of_top (contractR_top B lv k c) h3, h4, h5,
        contractR_compat B lv k c h6⟩
    · split
      · exact ⟨h1, lt_of_top (contractR_top B lv k b) h2, h3, h4,
          contractR_compat B lv k b h5, h6⟩
      · exact ⟨le_of_top (contractR_top B lv k a) h1, h2, h3,
          contractR_compat B lv k a h4, h5, h6⟩

/-! ### every reduction shortens the list -/

theorem reducePre_length (B : Builders V) (L : Level) :
    ∀ xs ys : List (Item V), reducePre B L xs = some ys → ys.length < xs.length
  | [], _, h => by simp [reducePre] at h
  | [_], _, h => by simp [reducePre] at h
  | o :: b :: rest, ys, h => by
    unfold reducePre at h
    split at h
    · rename_i r hr
      cases h
      have := reducePre_length B L (b :: rest) r hr
      simp only [List.length_cons] at this ⊢; omega
    · split at h
      · split at h
        · cases h; simp
        · cases h
      · cases h

theorem reduceSuf_length (B : Builders V) (L : Level) :
    ∀ xs ys : List (Item V), reduceSuf B L xs = some ys → ys.length < xs.length
  | [], _, h => by simp [reduceSuf] at h
  | [_], _, h => by simp [reduceSuf] at h
  | a :: o :: rest, ys, h => by
    unfold reduceSuf at h
    split at h
    · split at h
      · cases h; simp
      · obtain ⟨r, hr, rfl⟩ := Option.map_eq_some_iff.mp h
        have := reduceSuf_length B L _ r hr
        simp only [List.length_cons] at this ⊢; omega
    · obtain ⟨r, hr, rfl⟩ := Option.map_eq_some_iff.mp h
      have := reduceSuf_length B L _ r hr
      simp only [List.length_cons] at this ⊢; omega

theorem reduceBin_length (B : Builders V) (L : Level) :
    ∀ xs ys : List (Item V), reduceBin B L xs = some ys → ys.length < xs.length
  | [], _, h => by simp [reduceBin] at h
  | [_], _, h => by simp [reduceBin] at h
  | [_, _], _, h => by simp [reduceBin] at h
  | a :: o :: b :: rest, ys, h => by
    unfold reduceBin at h
    split at h
    · split at h
      · cases h; simp
      · obtain ⟨r, hr, rfl⟩ := Option.map_eq_some_iff.mp h
        have := reduceBin_length B L _ r hr
        simp only [List.length_cons] at this ⊢; omega
    · obtain ⟨r, hr, rfl⟩ := Option.map_eq_some_iff.mp h
      have := reduceBin_length B L _ r hr
      simp only [List.length_cons] at this ⊢; omega

theorem reduceTern_length (B : Builders V) (L : Level) :
    ∀ xs ys : List (Item V), reduceTern B L xs = some ys → ys.length < xs.length
  | [], _, h => by simp [reduceTern] at h
  | [_], _, h => by simp [reduceTern] at h
  | [_, _], _, h => by simp [reduceTern] at h
  | [_, _, _], _, h => by simp [reduceTern] at h
  | [_, _, _, _], _, h => by simp [reduceTern] at h
  | a :: o0 :: b :: o1 :: c :: rest, ys, h => by
    unfold reduceTern at h
    split at h
    · split at h
      · cases h; simp
      · obtain ⟨r, hr, rfl⟩ := Option.map_eq_some_iff.mp h
        have := reduceTern_length B L _ r hr
        simp only [List.length_cons] at this ⊢; omega
    · obtain ⟨r, hr, rfl⟩ := Option.map_eq_some_iff.mp h
      have := reduceTern_length B L _ r hr
      simp only [List.length_cons] at this ⊢; omega

theorem reduce_length (B : Builders V) (L : Level) (xs ys : List (Item V))
    (h : reduce B L xs = some ys) : ys.length < xs.length := by
  unfold reduce at h
  cases hk : L.kind <;> rw [hk] at h
  · exact reducePre_length B L xs ys h
  · exact reduceSuf_length B L xs ys h
  · exact reduceBin_length B L xs ys h
  · exact reduceTern_length B L xs ys h

theorem firstReduce_length (B : Builders V) :
    ∀ (lv : List Level) (xs ys : List (Item V)), firstReduce B lv xs = some ys → ys.length < xs.length
  | [], _, _, h => by simp [firstReduce] at h
  | L :: ls, xs, ys, h => by
    unfold firstReduce at h
    split at h
    · rename_i r hr; cases h; exact reduce_length B L xs _ hr
    · exact firstReduce_length B ls xs ys h

/-! ### the first level that can reduce is the tightest level present -/

theorem firstReduce_at (B : Builders V) (items r : List (Item V)) :
    ∀ (lv : List Level) (k : Nat) (Lk : Level), lv[k]? = some Lk → reduce B Lk items = some r →
      (∀ j Lj, j < k → lv[j]? = some Lj → reduce B Lj items = none) →
      firstReduce B lv items = some r
  | [], k, Lk, h, _, _ => by simp at h
  | L :: ls, 0, Lk, h, hr, _ => by
    simp at h; subst h
    simp [firstReduce, hr]
  | L :: ls, k + 1, Lk, h, hr, hlt => by
    have h0 : reduce B L items = none := hlt 0 L (Nat.succ_pos _) rfl
    simp only [firstReduce, h0]
    refine firstReduce_at B items r ls k Lk (by simpa using h) hr ?_
    intro j Lj hj hLj
    exact hlt (j + 1) Lj (Nat.succ_lt_succ hj) (by simpa using hLj)

theorem exists_min_has (w : W V) : ∀ n, w.has n = true → ∃ k, w.has k = true ∧ AllGe k w := by
  intro n
  induction n using Nat.strongRecOn with
  | _ n ih =>
    intro hn
    by_cases h : ∃ j, j < n ∧ w.has j = true
    · obtain ⟨j, hj, hhj⟩ := h
      exact ih j hj hhj
    · refine ⟨n, hn, ?_⟩
      intro j hj
      cases hh : w.has j with
      | false => rfl
      | true => exact absurd ⟨j, hj, hh⟩ h

theorem has_level {lv : List Level} : ∀ {w : W V} {k : Nat}, w.WF lv → w.has k = true →
    ∃ Lk, lv[k]? = some Lk
  | .leaf _, _, _, h => by simp [W.has] at h
  | .pre j t x, k, hwf, h => by
    simp only [W.has, Bool.or_eq_true, beq_iff_eq] at h
    rcases h with h | h
    · subst h; obtain ⟨⟨L, hL, _⟩, _⟩ := hwf; exact ⟨L, hL⟩
    · exact has_level hwf.2 h
  | .suf j x t, k, hwf, h => by
    simp only [W.has, Bool.or_eq_true, beq_iff_eq] at h
    rcases h with h | h
    · subst h; obtain ⟨⟨L, hL, _⟩, _⟩ := hwf; exact ⟨L, hL⟩
    · exact has_level hwf.2 h
  | .bin j l t r, k, hwf, h => by
    simp only [W.has, Bool.or_eq_true, beq_iff_eq] at h
    rcases h with (h | h) | h
    · subst h; obtain ⟨⟨L, hL, _⟩, _⟩ := hwf; exact ⟨L, hL⟩
    · exact has_level hwf.2.1 h
    · exact has_level hwf.2.2 h
  | .tern j a t0 b t1 c, k, hwf, h => by
    simp only [W.has, Bool.or_eq_true, beq_iff_eq] at h
    rcases h with ((h | h) | h) | h
    · subst h; obtain ⟨⟨L, hL, _⟩, _⟩ := hwf; exact ⟨L, hL⟩
    · exact has_level hwf.2.1 h
    · exact has_level hwf.2.2.1 h
    · exact has_level hwf.2.2.2 h

/-- one iteration of the loop on `flat w` -/
theorem step_flat (B : Builders V) (lv : List Level) (hOK : LevelsOK lv) (w : W V)
    (hwf : w.WF lv) (hc : w.Compat) (j : Nat) (hj : w.top = some j) :
    ∃ w' : W V, firstReduce B lv w.flat = some w'.flat ∧ w'.WF lv ∧ w'.Compat ∧
      w'.val B lv = w.val B lv := by
  obtain ⟨k, hk, hge⟩ := exists_min_has w j (top_has hj)
  obtain ⟨Lk, hLk⟩ := has_level hwf hk
  have hnone : ∀ i Li, i < k → lv[i]? = some Li → reduce B Li w.flat = none := by
    intro i Li hi hLi
    refine reduce_none B Li _ (noTok_of_not_has lv hOK hLi w hwf ?_ (hge i hi))
    intro i' hi'; exact hge i' (Nat.lt_trans hi' hi)
  by_cases hkind : Lk.kind = Kind.pre
  · refine ⟨w.contractR B lv k, ?_, contractR_wf B lv k w hwf, contractR_compat B lv k w hc,
      contractR_val B lv k w⟩
    have := reduce_contractR lv hOK B hLk hkind w hwf hc hge hk [] [] (NoTok.nil _)
    simp only [List.nil_append, List.append_nil] at this
    exact firstReduce_at B _ _ lv k Lk hLk this hnone
  · refine ⟨w.contractL B lv k, ?_, contractL_wf B lv k w hwf, contractL_compat B lv k w hc,
      contractL_val B lv k w⟩
    have := reduce_contractL lv hOK B hLk hkind w hwf hc hge hk [] [] (NoTok.nil _)
    simp only [List.nil_append, List.append_nil] at this
    exact firstReduce_at B _ _ lv k Lk hLk this hnone

theorem reduce_single (B : Builders V) (L : Level) (x : Item V) : reduce B L [x] = none := by
  unfold reduce; cases L.kind <;> rfl

theorem firstReduce_single (B : Builders V) (x : Item V) :
    ∀ lv : List Level, firstReduce B lv [x] = none
  | [] => rfl
  | L :: ls => by simp [firstReduce, reduce_single, firstReduce_single B x ls]

/-- **the loop computes the precedence tree**, for every compatible expression of any size -/
theorem run_flat (B : Builders V) (lv : List Level) (hOK : LevelsOK lv) :
    ∀ (n : Nat) (w : W V), w.WF lv → w.Compat → w.flat.length ≤ n →
      run B lv n w.flat = [.val (w.val B lv)] := by
  intro n
  induction n with
  | zero =>
    intro w _ _ hlen
    cases w <;> simp [W.flat] at hlen
  | succ n ih =>
    intro w hwf hc hlen
    cases hw : w.top with
    | none =>
      cases w <;> simp [W.top] at hw
      simp [W.flat, W.val, run, firstReduce_single]
    | some j =>
      obtain ⟨w', hstep, hwf', hc', hval⟩ := step_flat B lv hOK w hwf hc j hw
      have hlt := firstReduce_length B lv _ _ hstep
      simp only [run, hstep]
      rw [ih w' hwf' hc' (by omega), hval]

theorem makeTree_flat (B : Builders V) (lv : List Level) (hOK : LevelsOK lv) (w : W V)
    (hwf : w.WF lv) (hc : w.Compat) :
    makeTree B lv w.flat = ⟨some (w.val B lv), []⟩ := by
  simp [makeTree, run_flat B lv hOK _ w hwf hc (Nat.le_refl _), Item.asVal]

end MoSql.Infix
