import MoSql.Lemmas.PegSim
import MoSql.Lemmas.SkipProps
/-!
The simulation of `PegSim` instantiated for two texts that differ in ONE gap: `pre ++ f ++ post` and
`pre ++ f' ++ post`.  Places in front of the gap are `u ++ f ++ post` / `u ++ f' ++ post` for the same rest `u` of
`pre`; places behind it are the same text on both sides.
-/
namespace MoSql.Peg

def GapRel (f f' post : Str) (good : Str → Prop) (x x' : Str) : Prop :=
  (∃ u, good u ∧ x = u ++ (f ++ post) ∧ x' = u ++ (f' ++ post)) ∨ (x = x' ∧ x.length ≤ post.length)

/-- what has to be known about the whitespace engines and the terminals of the grammar, for the two fillers:
`goodE` = rests of `pre` at which a match can end, `goodC` = rests of `pre` at which a match is tried -/
structure GapHyp (E : Env) (f f' post : Str) (goodC goodE : Str → Prop) (P : Term → Bool) (Q : Nat → Bool) : Prop where
  f_ne : f ≠ []
  f'_ne : f' ≠ []
  c_e : ∀ u, goodC u → goodE u
  skip_le : ∀ ws, Q ws = true → ∀ x, (E.skip ws x).length ≤ x.length
  /-- skipping from an end in front of the gap leads to a place in front of it on both sides, or behind it on both -/
  skip_gap : ∀ ws, Q ws = true → ∀ u, goodE u →
    GapRel f f' post goodC (E.skip ws (u ++ (f ++ post))) (E.skip ws (u ++ (f' ++ post)))
  /-- a terminal tried in front of the gap does not see which filler stands in it -/
  term_gap : ∀ t, P t = true → ∀ u, goodC u →
    TermRel (GapRel f f' post goodE) (matchTerm t (u ++ (f ++ post))) (matchTerm t (u ++ (f' ++ post)))

/-! ### a terminal never lengthens the text -/
theorem stripPrefix_le (cl : Bool) : ∀ (s x r : Str), stripPrefix cl s x = some r → r.length ≤ x.length
  | [], x, r, h => by simp [stripPrefix] at h; subst h; exact Nat.le_refl _
  | _ :: _, [], r, h => by simp [stripPrefix] at h
  | a :: s, b :: x, r, h => by
    simp only [stripPrefix] at h
    by_cases c : chEq cl a b = true
    · simp only [c, if_true] at h
      have := stripPrefix_le cl s x r h
      simp only [List.length_cons]; omega
    · simp [c] at h

theorem quotedBody_le (q : Char) : ∀ (n : Nat) (x b r : Str), x.length ≤ n → quotedBody q x = some (b, r) → r.length ≤ x.length
  | _, [], b, r, _, h => by simp [quotedBody] at h
  | _, [c], b, r, _, h => by
    simp only [quotedBody] at h
    by_cases cq : (c == q) = true
    · simp [cq] at h; simp [← h.2]
    · simp [cq] at h
  | 0, _ :: _ :: _, _, _, hn, _ => by simp at hn
  | n + 1, c :: c2 :: cs, b, r, hn, h => by
    simp only [quotedBody] at h
    by_cases cq : (c == q) = true
    · simp only [cq, if_true] at h
      by_cases cq2 : (c2 == q) = true
      · simp only [cq2, if_true] at h
        cases h0 : quotedBody q cs with
        | none =>
          simp only [h0, Option.some.injEq, Prod.mk.injEq] at h
          rw [← h.2]; simp
        | some p =>
          obtain ⟨b0, r0⟩ := p
          simp only [h0, Option.some.injEq, Prod.mk.injEq] at h
          have := quotedBody_le q n cs b0 r0 (by simp only [List.length_cons] at hn; omega) h0
          simp only [List.length_cons]; rw [← h.2]; omega
      · simp only [cq2] at h
        simp only [Bool.false_eq_true, if_false, Option.some.injEq, Prod.mk.injEq] at h
        rw [← h.2]; simp
    · simp only [cq] at h
      simp only [Bool.false_eq_true, if_false, Option.map_eq_some_iff] at h
      obtain ⟨⟨b0, r0⟩, h0, h1⟩ := h
      simp only [Prod.mk.injEq] at h1
      have := quotedBody_le q n (c2 :: cs) b0 r0 (by simp only [List.length_cons] at hn ⊢; omega) h0
      simp only [List.length_cons] at this ⊢; rw [← h1.2]; omega

theorem matchTerm_le (t : Term) (x s r : Str) (h : matchTerm t x = some (s, r)) : r.length ≤ x.length := by
  cases t with
  | lit s0 cl =>
    simp only [matchTerm, Option.map_eq_some_iff] at h
    obtain ⟨r0, h0, h1⟩ := h
    simp only [Prod.mk.injEq] at h1
    rw [← h1.2]; exact stripPrefix_le cl s0 x r0 h0
  | kw s0 cl =>
    simp only [matchTerm] at h
    cases hs : stripPrefix cl s0 x with
    | none => simp [hs] at h
    | some r0 =>
      have hle := stripPrefix_le cl s0 x r0 hs
      cases r0 with
      | nil => simp [hs] at h; simp [h.2]
      | cons c r1 =>
        simp only [hs] at h
        by_cases cw : isWordChar c = true
        · simp [cw] at h
        · simp only [cw] at h
          simp only [Bool.false_eq_true, if_false, Option.some.injEq, Prod.mk.injEq] at h
          rw [← h.2]; exact hle
  | word first rest =>
    cases x with
    | nil => simp [matchTerm] at h
    | cons c cs =>
      simp only [matchTerm] at h
      by_cases ci : inRanges first c = true
      · simp only [ci, if_true, Option.some.injEq, Prod.mk.injEq] at h
        rw [← h.2]
        have := (List.dropWhile_sublist (l := cs) (inRanges rest)).length_le
        simp only [List.length_cons]; omega
      · simp [ci] at h
  | quoted q =>
    cases x with
    | nil => simp [matchTerm] at h
    | cons c cs =>
      simp only [matchTerm] at h
      by_cases cq : (c == q) = true
      · simp only [cq, if_true, Option.map_eq_some_iff] at h
        obtain ⟨⟨b0, r0⟩, h0, h1⟩ := h
        simp only [Prod.mk.injEq] at h1
        have := quotedBody_le q cs.length cs b0 r0 (Nat.le_refl _) h0
        simp only [List.length_cons]; rw [← h1.2]; omega
      · simp [cq] at h

/-! ### the gap relation is a simulation -/
theorem gap_sim {E : Env} {f f' post : Str} {goodC goodE : Str → Prop} {P : Term → Bool} {Q : Nat → Bool}
    (h : GapHyp E f f' post goodC goodE P Q) :
    Sim E (GapRel f f' post goodC) (GapRel f f' post goodE) P Q where
  c_e := by
    intro x x' hx
    rcases hx with ⟨u, hu, h1, h2⟩ | ⟨h1, h2⟩
    · exact Or.inl ⟨u, h.c_e u hu, h1, h2⟩
    · exact Or.inr ⟨h1, h2⟩
  lt_iff := by
    intro x x' y y' hx hy
    have hf : 0 < f.length := List.length_pos_iff.mpr h.f_ne
    have hf' : 0 < f'.length := List.length_pos_iff.mpr h.f'_ne
    rcases hx with ⟨u, _, h1, h2⟩ | ⟨h1, h2⟩ <;> rcases hy with ⟨v, _, k1, k2⟩ | ⟨k1, k2⟩
    · subst h1 h2 k1 k2; simp only [List.length_append]; omega
    · subst h1 h2 k1; simp only [List.length_append]; omega
    · subst h1 k1 k2; simp only [List.length_append]; omega
    · subst h1 k1; exact Iff.rfl
  nil_iff := by
    intro x x' hx
    rcases hx with ⟨u, _, h1, h2⟩ | ⟨h1, _⟩
    · subst h1 h2
      have a : (u ++ (f ++ post)).isEmpty = false := by
        cases u <;> cases hf : f <;> simp_all [h.f_ne]
      have b : (u ++ (f' ++ post)).isEmpty = false := by
        cases u <;> cases hf : f' <;> simp_all [h.f'_ne]
      rw [a, b]
    · subst h1; rfl
  skip := by
    intro ws hws x x' hx
    rcases hx with ⟨u, hu, h1, h2⟩ | ⟨h1, h2⟩
    · subst h1 h2; exact h.skip_gap ws hws u hu
    · subst h1; exact Or.inr ⟨rfl, Nat.le_trans (h.skip_le ws hws x) h2⟩
  term := by
    intro t ht x x' hx
    rcases hx with ⟨u, hu, h1, h2⟩ | ⟨h1, h2⟩
    · subst h1 h2; exact h.term_gap t ht u hu
    · subst h1
      cases hm : matchTerm t x with
      | none => simp [TermRel]
      | some p =>
        obtain ⟨s, r⟩ := p
        simp only [TermRel, true_and]
        exact Or.inr ⟨rfl, Nat.le_trans (matchTerm_le t x s r hm) h2⟩

/-- what a caller sees of a match: failure, the tokens, or no answer -/
def Res.outcome : Res → Option (Option (List Tok))
  | .fail => some none
  | .ok ts _ => some (some ts)
  | .diverge => none

theorem outcome_eq_of_rel {Re : Str → Str → Prop} {a b : Res} (h : ResRel Re a b) : a.outcome = b.outcome := by
  cases a <;> cases b <;> simp only [ResRel] at h <;> try exact h.elim
  · rfl
  · rfl
  · simp [Res.outcome, h.1]

/-! ### the comment-aware engine at the gap itself -/
theorem comment_skip_at_gap (f f' post : Str) (good : Str → Prop) (hf : Skip.Filler f) (hf' : Skip.Filler f')
    (hp : Skip.stopsHere post = true) :
    GapRel f f' post good (Skip.skip ([] ++ (f ++ post))) (Skip.skip ([] ++ (f' ++ post))) := by
  simp only [List.nil_append]
  rw [Skip.skip_filler f post hf, Skip.skip_filler f' post hf', Skip.skip_stops post hp]
  exact Or.inr ⟨rfl, Nat.le_refl _⟩

/-- `u` begins with something no filler can begin with, whatever follows `u` (one character: not white, `#`, `-`, `/`;
two or more: the first two do not open a comment) -/
def solidStart : Str → Bool
  | [] => false
  | [c] => !Skip.isWhite c && c != '#' && c != '-' && c != '/'
  | c :: c2 :: _ => Skip.stopsHere [c, c2]

theorem stopsHere_of_solidStart : ∀ (u k : Str), solidStart u = true → Skip.stopsHere (u ++ k) = true
  | [], _, h => by simp [solidStart] at h
  | [c], k, h => by
    simp only [solidStart, Bool.and_eq_true, Bool.not_eq_true', bne_iff_ne, ne_eq] at h
    obtain ⟨⟨⟨hw, hh⟩, hd⟩, hs⟩ := h
    have hd' : (c == '-') = false := by simpa using hd
    have hs' : (c == '/') = false := by simpa using hs
    simp [Skip.stopsHere, hw, hh, hd', hs']
  | c :: c2 :: cs, k, h => by
    simp only [solidStart, Skip.stopsHere, List.head?_cons] at h
    simpa [Skip.stopsHere] using h

/-- in front of the gap: from an end `w ++ u'` (a filler `w`, then something solid) the comment-aware engine goes to `u'`
on both sides, whatever fills the gap behind it -/
theorem comment_skip_before_gap (f f' post w u' : Str) (good : Str → Prop) (hw : Skip.Filler w)
    (hs : solidStart u' = true) (hg : good u') :
    GapRel f f' post good (Skip.skip ((w ++ u') ++ (f ++ post))) (Skip.skip ((w ++ u') ++ (f' ++ post))) := by
  have e1 : Skip.skip ((w ++ u') ++ (f ++ post)) = u' ++ (f ++ post) := by
    rw [List.append_assoc, Skip.skip_filler w _ hw, Skip.skip_stops _ (stopsHere_of_solidStart u' _ hs)]
  have e2 : Skip.skip ((w ++ u') ++ (f' ++ post)) = u' ++ (f' ++ post) := by
    rw [List.append_assoc, Skip.skip_filler w _ hw, Skip.skip_stops _ (stopsHere_of_solidStart u' _ hs)]
  rw [e1, e2]
  exact Or.inl ⟨u', hg, rfl, rfl⟩

/-- … and from an end that is followed by nothing but filler up to the gap, it goes behind the gap on both sides -/
theorem comment_skip_filler_before_gap (f f' post u : Str) (good : Str → Prop) (hu : Skip.Filler u) (hf : Skip.Filler f)
    (hf' : Skip.Filler f') (hp : Skip.stopsHere post = true) :
    GapRel f f' post good (Skip.skip (u ++ (f ++ post))) (Skip.skip (u ++ (f' ++ post))) := by
  rw [Skip.skip_filler u _ hu, Skip.skip_filler u _ hu, Skip.skip_filler f post hf, Skip.skip_filler f' post hf',
    Skip.skip_stops post hp]
  exact Or.inr ⟨rfl, Nat.le_refl _⟩

/-! ### terminals that do not see the gap -/
theorem stripPrefix_append (cl : Bool) : ∀ (s u k : Str), s.length ≤ u.length →
    stripPrefix cl s (u ++ k) = (stripPrefix cl s u).map (· ++ k)
  | [], u, k, _ => by simp [stripPrefix]
  | _ :: _, [], _, h => by simp at h
  | a :: s, b :: u, k, h => by
    simp only [List.cons_append, stripPrefix]
    by_cases c : chEq cl a b = true
    · simp only [c, if_true]
      exact stripPrefix_append cl s u k (by simp only [List.length_cons] at h; omega)
    · simp [c]

/-- a literal that fits into what is left in front of the gap matches — or not — alike on both texts -/
theorem lit_term_gap (f f' post u s : Str) (cl : Bool) (goodE : Str → Prop) (hlen : s.length ≤ u.length)
    (hgood : ∀ r0, stripPrefix cl s u = some r0 → goodE r0) :
    TermRel (GapRel f f' post goodE) (matchTerm (.lit s cl) (u ++ (f ++ post))) (matchTerm (.lit s cl) (u ++ (f' ++ post))) := by
  simp only [matchTerm, stripPrefix_append cl s u _ hlen]
  cases h : stripPrefix cl s u with
  | none => simp [TermRel]
  | some r0 =>
    simp only [Option.map_some, TermRel, true_and]
    exact Or.inl ⟨r0, hgood r0 h, rfl, rfl⟩

end MoSql.Peg
