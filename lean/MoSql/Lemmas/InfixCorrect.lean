import MoSql.Lemmas.InfixList
/-!
`make_tree` is correct on every precedence-compatible expression, of any size.

Strategy: while the item list is `flat w` for a compatible tree `w` (leaves = values already
built), the first level that can reduce is the tightest level `k` occurring in `w`, and the
occurrence it reduces is a node of `w` whose operands are all leaves; the list becomes
`flat (contract w)` where `contract` replaces that node by a leaf carrying its value.
-/
namespace MoSql.Infix
variable {V : Type}

def AllGe (k : Nat) (w : W V) : Prop := ∀ j, j < k → w.has j = false

/-- contraction for levels searched left-to-right (suffix, binary, ternary) -/
def W.contractL (B : Builders V) (lv : List Level) (k : Nat) : W V → W V
  | .leaf v => .leaf v
  | .pre j t x => .pre j t (x.contractL B lv k)
  | .suf j x t =>
    if x.has k then .suf j (x.contractL B lv k) t
    else if j = k then .leaf ((W.suf j x t).val B lv) else .suf j x t
  | .bin j l t r =>
    if l.has k then .bin j (l.contractL B lv k) t r
    else if j = k then .leaf ((W.bin j l t r).val B lv)
    else .bin j l t (r.contractL B lv k)
  | .tern j a t0 b t1 c =>
    if a.has k then .tern j (a.contractL B lv k) t0 b t1 c
    else if j = k then .leaf ((W.tern j a t0 b t1 c).val B lv)
    else if b.has k then .tern j a t0 (b.contractL B lv k) t1 c
    else .tern j a t0 b t1 (c.contractL B lv k)

/-- contraction for prefix levels (searched right-to-left) -/
def W.contractR (B : Builders V) (lv : List Level) (k : Nat) : W V → W V
  | .leaf v => .leaf v
  | .pre j t x =>
    if x.has k then .pre j t (x.contractR B lv k)
    else if j = k then .leaf ((W.pre j t x).val B lv) else .pre j t x
  | .suf j x t => .suf j (x.contractR B lv k) t
  | .bin j l t r =>
    if r.has k then .bin j l t (r.contractR B lv k) else .bin j (l.contractR B lv k) t r
  | .tern j a t0 b t1 c =>
    if c.has k then .tern j a t0 b t1 (c.contractR B lv k)
    else if b.has k then .tern j a t0 (b.contractR B lv k) t1 c
    else .tern j (a.contractR B lv k) t0 b t1 c

/-! ### small facts -/

theorem top_has {w : W V} {j : Nat} (h : w.top = some j) : w.has j = true := by
  cases w <;> simp [W.top] at h <;> simp [W.has, h]

theorem leaf_of_le {w : W V} {k : Nat} (hle : w.le k) (hge : AllGe k w) (hk : w.has k = false) :
    ∃ v, w = .leaf v := by
  cases hw : w.top with
  | none => cases w <;> simp [W.top] at hw; exact ⟨_, rfl⟩
  | some j =>
    exfalso
    have h1 := hle j hw
    have h2 := top_has hw
    rcases Nat.lt_or_ge j k with h | h
    · rw [hge j h] at h2; cases h2
    · have : j = k := Nat.le_antisymm h1 h
      subst this; rw [hk] at h2; cases h2

theorem leaf_of_lt {w : W V} {k : Nat} (hlt : w.lt k) (hge : AllGe k w) : ∃ v, w = .leaf v := by
  cases hw : w.top with
  | none => cases w <;> simp [W.top] at hw; exact ⟨_, rfl⟩
  | some j =>
    exfalso
    have h1 := hlt j hw
    have h2 := top_has hw
    rw [hge j h1] at h2; cases h2

theorem getD_of_getElem? {lv : List Level} {k : Nat} {L : Level} (h : lv[k]? = some L) :
    lv.getD k default = L := by
  simp [List.getD, h]

theorem allGe_pre {k j : Nat} {t : Tok V} {x : W V} (h : AllGe k (.pre j t x)) : AllGe k x :=
  fun i hi => by have := h i hi; simp only [W.has, Bool.or_eq_false_iff] at this; exact this.2
theorem allGe_suf {k j : Nat} {t : Tok V} {x : W V} (h : AllGe k (.suf j x t)) : AllGe k x :=
  fun i hi => by have := h i hi; simp only [W.has, Bool.or_eq_false_iff] at this; exact this.2
theorem allGe_binL {k j : Nat} {t : Tok V} {l r : W V} (h : AllGe k (.bin j l t r)) : AllGe k l :=
  fun i hi => by have := h i hi; simp only [W.has, Bool.or_eq_false_iff] at this; exact this.1.2
theorem allGe_binR {k j : Nat} {t : Tok V} {l r : W V} (h : AllGe k (.bin j l t r)) : AllGe k r :=
  fun i hi => by have := h i hi; simp only [W.has, Bool.or_eq_false_iff] at this; exact this.2
theorem allGe_ternA {k j : Nat} {t0 t1 : Tok V} {a b c : W V}
    (h : AllGe k (.tern j a t0 b t1 c)) : AllGe k a :=
  fun i hi => by have := h i hi; simp only [W.has, Bool.or_eq_false_iff] at this; exact this.1.1.2
theorem allGe_ternB {k j : Nat} {t0 t1 : Tok V} {a b c : W V}
    (h : AllGe k (.tern j a t0 b t1 c)) : AllGe k b :=
  fun i hi => by have := h i hi; simp only [W.has, Bool.or_eq_false_iff] at this; exact this.1.2
theorem allGe_ternC {k j : Nat} {t0 t1 : Tok V} {a b c : W V}
    (h : AllGe k (.tern j a t0 b t1 c)) : AllGe k c :=
  fun i hi => by have := h i hi; simp only [W.has, Bool.or_eq_false_iff] at this; exact this.2
theorem allGe_top {k j : Nat} {w : W V} (h : AllGe k w) (ht : w.top = some j) : k ≤ j := by
  rcases Nat.lt_or_ge j k with h' | h'
  · have := h j h'; rw [top_has ht] at this; cases this
  · exact h'

section
variable (lv : List Level) (hOK : LevelsOK lv)
include hOK

theorem id0_ne {j k : Nat} {Lj Lk : Level} (hj : lv[j]? = some Lj) (hk : lv[k]? = some Lk)
    (hne : j ≠ k) : (Lj.id0 == Lk.id0) = false := by
  cases h : Lj.id0 == Lk.id0 with
  | false => rfl
  | true => exact absurd (hOK.1 j k Lj Lk hj hk (by simpa using h)) hne

theorem id1_ne {j k : Nat} {Lj Lk : Level} (hj : lv[j]? = some Lj) (hkind : Lj.kind = Kind.tern)
    (hk : lv[k]? = some Lk) (hle : k ≤ j) : (Lj.id1 == Lk.id0) = false := by
  cases h : Lj.id1 == Lk.id0 with
  | false => rfl
  | true =>
    have := hOK.2 j k Lj Lk hj hkind hk hle
    exact absurd (by simpa using h : Lj.id1 = Lk.id0).symm this

/-- a subtree without a node at the tightest level `k` contains no token of that level -/
theorem noTok_of_not_has {k : Nat} {Lk : Level} (hLk : lv[k]? = some Lk) :
    ∀ w : W V, w.WF lv → AllGe k w → w.has k = false → NoTok Lk.id0 w.flat
  | .leaf v, _, _, _ => NoTok.cons (isOp_val _ _) (NoTok.nil _)
  | .pre j t x, hwf, hge, hk => by
    simp only [W.has, Bool.or_eq_false_iff, beq_eq_false_iff_ne] at hk
    obtain ⟨⟨Lj, hLj, _, hid⟩, hx⟩ := hwf
    have ihx := noTok_of_not_has hLk x hx
      (fun i hi => by have := hge i hi; simp only [W.has, Bool.or_eq_false_iff] at this; exact this.2)
      hk.2
    refine NoTok.cons ?_ ihx
    simp only [isOp_op, ← hid]
    exact id0_ne lv hOK hLj hLk hk.1
  | .suf j x t, hwf, hge, hk => by
    simp only [W.has, Bool.or_eq_false_iff, beq_eq_false_iff_ne] at hk
    obtain ⟨⟨Lj, hLj, _, hid⟩, hx⟩ := hwf
    have ihx := noTok_of_not_has hLk x hx
      (fun i hi => by have := hge i hi; simp only [W.has, Bool.or_eq_false_iff] at this; exact this.2)
      hk.2
    refine NoTok.append ihx (NoTok.cons ?_ (NoTok.nil _))
    simp only [isOp_op, ← hid]
    exact id0_ne lv hOK hLj hLk hk.1
  | .bin j l t r, hwf, hge, hk => by
    simp only [W.has, Bool.or_eq_false_iff, beq_eq_false_iff_ne] at hk
    obtain ⟨⟨Lj, hLj, _, hid⟩, hl, hr⟩ := hwf
    have ihl := noTok_of_not_has hLk l hl
      (fun i hi => by
        have := hge i hi; simp only [W.has, Bool.or_eq_false_iff] at this; exact this.1.2)
      hk.1.2
    have ihr := noTok_of_not_has hLk r hr
      (fun i hi => by
        have := hge i hi; simp only [W.has, Bool.or_eq_false_iff] at this; exact this.2)
      hk.2
    refine NoTok.append ihl (NoTok.cons ?_ ihr)
    simp only [isOp_op, ← hid]
    exact id0_ne lv hOK hLj hLk hk.1.1
  | .tern j a t0 b t1 c, hwf, hge, hk => by
    simp only [W.has, Bool.or_eq_false_iff, beq_eq_false_iff_ne] at hk
    obtain ⟨⟨Lj, hLj, hkind, hid0, hid1⟩, ha, hb, hc⟩ := hwf
    have hjk : k ≤ j := by
      rcases Nat.lt_or_ge j k with h | h
      · have := hge j h; simp [W.has] at this
      · exact h
    have iha := noTok_of_not_has hLk a ha
      (fun i hi => by
        have := hge i hi; simp only [W.has, Bool.or_eq_false_iff] at this; exact this.1.1.2)
      hk.1.1.2
    have ihb := noTok_of_not_has hLk b hb
      (fun i hi => by
        have := hge i hi; simp only [W.has, Bool.or_eq_false_iff] at this; exact this.1.2)
      hk.1.2
    have ihc := noTok_of_not_has hLk c hc
      (fun i hi => by
        have := hge i hi; simp only [W.has, Bool.or_eq_false_iff] at this; exact this.2)
      hk.2
    refine NoTok.append iha (NoTok.cons ?_ (NoTok.append ihb (NoTok.cons ?_ ihc)))
    · simp only [isOp_op, ← hid0]
      exact id0_ne lv hOK hLj hLk hk.1.1.1
    · simp only [isOp_op, ← hid1]
      exact id1_ne lv hOK hLj hkind hLk hjk


/-- Left-to-right levels: the reduction performed at the tightest level `k` is the contraction. -/
theorem reduce_contractL (B : Builders V) {k : Nat} {Lk : Level} (hLk : lv[k]? = some Lk)
    (hkind : Lk.kind ≠ Kind.pre) :
    ∀ w : W V, w.WF lv → w.Compat → AllGe k w → w.has k = true →
      ∀ Lf R : List (Item V), NoTok Lk.id0 Lf →
        reduce B Lk (Lf ++ w.flat ++ R) = some (Lf ++ (w.contractL B lv k).flat ++ R)
  | .leaf v, _, _, _, hk, _, _, _ => by simp [W.has] at hk
  | .pre j t x, hwf, hc, hge, hk, Lf, R, hno => by
    obtain ⟨⟨Lj, hLj, hkj, hid⟩, hx⟩ := hwf
    have hjk : j ≠ k := by
      intro h; subst h; rw [hLj] at hLk; cases hLk; exact hkind hkj
    have hxk : x.has k = true := by
      simp only [W.has, Bool.or_eq_true, beq_iff_eq] at hk
      rcases hk with h | h
      · exact absurd h hjk
      · exact h
    have hno' : NoTok Lk.id0 (Lf ++ [.op t]) := by
      refine NoTok.append hno (NoTok.cons ?_ (NoTok.nil _))
      simp only [isOp_op, ← hid]; exact id0_ne lv hOK hLj hLk hjk
    have := reduce_contractL B hLk hkind x hx hc.2 (allGe_pre hge) hxk (Lf ++ [.op t]) R hno'
    simpa [W.flat, W.contractL, List.append_assoc] using this
  | .suf j x t, hwf, hc, hge, hk, Lf, R, hno => by
    obtain ⟨⟨Lj, hLj, hkj, hid⟩, hx⟩ := hwf
    cases hxk : x.has k with
    | true =>
      have := reduce_contractL B hLk hkind x hx hc.2 (allGe_suf hge) hxk Lf (.op t :: R) hno
      simpa [W.flat, W.contractL, hxk, List.append_assoc] using this
    | false =>
      have hjk : j = k := by
        simp only [W.has, Bool.or_eq_true, beq_iff_eq, hxk] at hk
        simpa using hk
      subst hjk
      have hEq : Lj = Lk := by rw [hLj] at hLk; exact Option.some.inj hLk
      rw [hEq] at hkj hid
      obtain ⟨v, rfl⟩ := leaf_of_le hc.1 (allGe_suf hge) hxk
      have := reduceSuf_hit B Lk v t R hid.symm Lf hno
      simp [reduce, hkj, W.flat, W.contractL, W.has, W.val, hLk,
        List.append_assoc, this]
  | .bin j l t r, hwf, hc, hge, hk, Lf, R, hno => by
    obtain ⟨⟨Lj, hLj, hkj, hid⟩, hl, hr⟩ := hwf
    obtain ⟨hle, hlt, hcl, hcr⟩ := hc
    cases hlk : l.has k with
    | true =>
      have := reduce_contractL B hLk hkind l hl hcl (allGe_binL hge) hlk Lf (.op t :: (r.flat ++ R)) hno
      simpa [W.flat, W.contractL, hlk, List.append_assoc] using this
    | false =>
      by_cases hjk : j = k
      · subst hjk
        have hEq : Lj = Lk := by rw [hLj] at hLk; exact Option.some.inj hLk
        rw [hEq] at hkj hid
        obtain ⟨a, rfl⟩ := leaf_of_le hle (allGe_binL hge) hlk
        obtain ⟨b, rfl⟩ := leaf_of_lt hlt (allGe_binR hge)
        have := reduceBin_hit B Lk a b t R hid.symm Lf hno
        simp [reduce, hkj, W.flat, W.contractL, W.has, W.val, hLk,
          List.append_assoc, this]
      · have hrk : r.has k = true := by
          simp only [W.has, Bool.or_eq_true, beq_iff_eq, hlk] at hk
          rcases hk with (h | h) | h
          · exact absurd h hjk
          · cases h
          · exact h
        have hno' : NoTok Lk.id0 (Lf ++ l.flat ++ [.op t]) := by
          refine NoTok.append (NoTok.append hno
            (noTok_of_not_has lv hOK hLk l hl (allGe_binL hge) hlk)) (NoTok.cons ?_ (NoTok.nil _))
          simp only [isOp_op, ← hid]; exact id0_ne lv hOK hLj hLk hjk
        have := reduce_contractL B hLk hkind r hr hcr (allGe_binR hge) hrk
          (Lf ++ l.flat ++ [.op t]) R hno'
        simpa [W.flat, W.contractL, hlk, hjk, List.append_assoc] using this
  | .tern j a t0 b t1 c, hwf, hc, hge, hk, Lf, R, hno => by
    obtain ⟨⟨Lj, hLj, hkj, hid0, hid1⟩, ha, hb, hcw⟩ := hwf
    obtain ⟨hle, hltb, hltc, hca, hcb, hcc⟩ := hc
    cases hak : a.has k with
    | true =>
      have := reduce_contractL B hLk hkind a ha hca (allGe_ternA hge) hak Lf
        (.op t0 :: (b.flat ++ .op t1 :: (c.flat ++ R))) hno
      simpa [W.flat, W.contractL, hak, List.append_assoc] using this
    | false =>
      by_cases hjk : j = k
      · subst hjk
        have hEq : Lj = Lk := by rw [hLj] at hLk; exact Option.some.inj hLk
        rw [hEq] at hkj hid0 hid1
        obtain ⟨va, rfl⟩ := leaf_of_le hle (allGe_ternA hge) hak
        obtain ⟨vb, rfl⟩ := leaf_of_lt hltb (allGe_ternB hge)
        obtain ⟨vc, rfl⟩ := leaf_of_lt hltc (allGe_ternC hge)
        have := reduceTern_hit B Lk va vb vc t0 t1 R hid0.symm hid1.symm Lf hno
        simp [reduce, hkj, W.flat, W.contractL, W.has, W.val, hLk,
          List.append_assoc, this]
      · have hjk' : k ≤ j := allGe_top hge rfl
        have hno0 : (Item.op t0).isOp Lk.id0 = false := by
          simp only [isOp_op, ← hid0]; exact id0_ne lv hOK hLj hLk hjk
        have hno1 : (Item.op t1).isOp Lk.id0 = false := by
          simp only [isOp_op, ← hid1]; exact id1_ne lv hOK hLj hkj hLk hjk'
        have hnoa := noTok_of_not_has lv hOK hLk a ha (allGe_ternA hge) hak
        cases hbk : b.has k with
        | true =>
          have hno' : NoTok Lk.id0 (Lf ++ a.flat ++ [.op t0]) :=
            NoTok.append (NoTok.append hno hnoa) (NoTok.cons hno0 (NoTok.nil _))
          have := reduce_contractL B hLk hkind b hb hcb (allGe_ternB hge) hbk
            (Lf ++ a.flat ++ [.op t0]) (.op t1 :: (c.flat ++ R)) hno'
          simpa [W.flat, W.contractL, hak, hjk, hbk, List.append_assoc] using this
        | false =>
          have hck : c.has k = true := by
            simp only [W.has, Bool.or_eq_true, beq_iff_eq, hak, hbk] at hk
            rcases hk with ((h | h) | h) | h
            · exact absurd h hjk
            · cases h
            · cases h
            · exact h
          have hnob := noTok_of_not_has lv hOK hLk b hb (allGe_ternB hge) hbk
          have hno' : NoTok Lk.id0 (Lf ++ a.flat ++ [.op t0] ++ b.flat ++ [.op t1]) :=
            NoTok.append (NoTok.append (NoTok.append (NoTok.append hno hnoa)
              (NoTok.cons hno0 (NoTok.nil _))) hnob) (NoTok.cons hno1 (NoTok.nil _))
          have := reduce_contractL B hLk hkind c hcw hcc (allGe_ternC hge) hck
            (Lf ++ a.flat ++ [.op t0] ++ b.flat ++ [.op t1]) R hno'
          simpa [W.flat, W.contractL, hak, hjk, hbk, List.append_assoc] using this


/-- Prefix levels (searched right-to-left): same statement with `contractR`. -/
theorem reduce_contractR (B : Builders V) {k : Nat} {Lk : Level} (hLk : lv[k]? = some Lk)
    (hkind : Lk.kind = Kind.pre) :
    ∀ w : W V, w.WF lv → w.Compat → AllGe k w → w.has k = true →
      ∀ Lf R : List (Item V), NoTok Lk.id0 R →
        reduce B Lk (Lf ++ w.flat ++ R) = some (Lf ++ (w.contractR B lv k).flat ++ R)
  | .leaf v, _, _, _, hk, _, _, _ => by simp [W.has] at hk
  | .pre j t x, hwf, hc, hge, hk, Lf, R, hno => by
    obtain ⟨⟨Lj, hLj, hkj, hid⟩, hx⟩ := hwf
    cases hxk : x.has k with
    | true =>
      have := reduce_contractR B hLk hkind x hx hc.2 (allGe_pre hge) hxk (Lf ++ [.op t]) R hno
      simpa [W.flat, W.contractR, hxk, List.append_assoc] using this
    | false =>
      have hjk : j = k := by
        simp only [W.has, Bool.or_eq_true, beq_iff_eq, hxk] at hk
        simpa using hk
      subst hjk
      have hEq : Lj = Lk := by rw [hLj] at hLk; exact Option.some.inj hLk
      rw [hEq] at hkj hid
      obtain ⟨v, rfl⟩ := leaf_of_le hc.1 (allGe_pre hge) hxk
      have := reducePre_hit B Lk v t R hid.symm hno Lf
      simp [reduce, hkj, W.flat, W.contractR, W.has, W.val, hLk, List.append_assoc, this]
  | .suf j x t, hwf, hc, hge, hk, Lf, R, hno => by
    obtain ⟨⟨Lj, hLj, hkj, hid⟩, hx⟩ := hwf
    have hjk : j ≠ k := by
      intro h; subst h; rw [hLj] at hLk; cases hLk; rw [hkind] at hkj; cases hkj
    have hxk : x.has k = true := by
      simp only [W.has, Bool.or_eq_true, beq_iff_eq] at hk
      rcases hk with h | h
      · exact absurd h hjk
      · exact h
    have hno' : NoTok Lk.id0 (.op t :: R) := by
      refine NoTok.cons ?_ hno
      simp only [isOp_op, ← hid]; exact id0_ne lv hOK hLj hLk hjk
    have := reduce_contractR B hLk hkind x hx hc.2 (allGe_suf hge) hxk Lf (.op t :: R) hno'
    simpa [W.flat, W.contractR, List.append_assoc] using this
  | .bin j l t r, hwf, hc, hge, hk, Lf, R, hno => by
    obtain ⟨⟨Lj, hLj, hkj, hid⟩, hl, hr⟩ := hwf
    obtain ⟨hle, hlt, hcl, hcr⟩ := hc
    have hjk : j ≠ k := by
      intro h; subst h; rw [hLj] at hLk; cases hLk; rw [hkind] at hkj; cases hkj
    have hnot : (Item.op t).isOp Lk.id0 = false := by
      simp only [isOp_op, ← hid]; exact id0_ne lv hOK hLj hLk hjk
    cases hrk : r.has k with
    | true =>
      have := reduce_contractR B hLk hkind r hr hcr (allGe_binR hge) hrk
        (Lf ++ l.flat ++ [.op t]) R hno
      simpa [W.flat, W.contractR, hrk, List.append_assoc] using this
    | false =>
      have hlk : l.has k = true := by
        simp only [W.has, Bool.or_eq_true, beq_iff_eq, hrk] at hk
        rcases hk with (h | h) | h
        · exact absurd h hjk
        · exact h
        · cases h
      have hno' : NoTok Lk.id0 (.op t :: (r.flat ++ R)) :=
        NoTok.cons hnot (NoTok.append
          (noTok_of_not_has lv hOK hLk r hr (allGe_binR hge) hrk) hno)
      have := reduce_contractR B hLk hkind l hl hcl (allGe_binL hge) hlk Lf
        (.op t :: (r.flat ++ R)) hno'
      simpa [W.flat, W.contractR, hrk, List.append_assoc] using this
  | .tern j a t0 b t1 c, hwf, hc, hge, hk, Lf, R, hno => by
    obtain ⟨⟨Lj, hLj, hkj, hid0, hid1⟩, ha, hb, hcw⟩ := hwf
    obtain ⟨hle, hltb, hltc, hca, hcb, hcc⟩ := hc
    have hjk : j ≠ k := by
      intro h; subst h; rw [hLj] at hLk; cases hLk; rw [hkind] at hkj; cases hkj
    have hjk' : k ≤ j := allGe_top hge rfl
    have hno0 : (Item.op t0).isOp Lk.id0 = false := by
      simp only [isOp_op, ← hid0]; exact id0_ne lv hOK hLj hLk hjk
    have hno1 : (Item.op t1).isOp Lk.id0 = false := by
      simp only [isOp_op, ← hid1]; exact id1_ne lv hOK hLj hkj hLk hjk'
    cases hck : c.has k with
    | true =>
      have := reduce_contractR B hLk hkind c hcw hcc (allGe_ternC hge) hck
        (Lf ++ a.flat ++ [.op t0] ++ b.flat ++ [.op t1]) R hno
      simpa [W.flat, W.contractR, hck, List.append_assoc] using this
    | false =>
      have hnoc := noTok_of_not_has lv hOK hLk c hcw (allGe_ternC hge) hck
      cases hbk : b.has k with
      | true =>
        have hno' : NoTok Lk.id0 (.op t1 :: (c.flat ++ R)) :=
          NoTok.cons hno1 (NoTok.append hnoc hno)
        have := reduce_contractR B hLk hkind b hb hcb (allGe_ternB hge) hbk
          (Lf ++ a.flat ++ [.op t0]) (.op t1 :: (c.flat ++ R)) hno'
        simpa [W.flat, W.contractR, hck, hbk, List.append_assoc] using this
      | false =>
        have hak : a.has k = true := by
          simp only [W.has, Bool.or_eq_true, beq_iff_eq, hck, hbk] at hk
          rcases hk with ((h | h) | h) | h
          · exact absurd h hjk
          · exact h
          · cases h
          · cases h
        have hnob := noTok_of_not_has lv hOK hLk b hb (allGe_ternB hge) hbk
        have hno' : NoTok Lk.id0 (.op t0 :: (b.flat ++ .op t1 :: (c.flat ++ R))) :=
          NoTok.cons hno0 (NoTok.append hnob (NoTok.cons hno1 (NoTok.append hnoc hno)))
        have := reduce_contractR B hLk hkind a ha hca (allGe_ternA hge) hak Lf
          (.op t0 :: (b.flat ++ .op t1 :: (c.flat ++ R))) hno'
        simpa [W.flat, W.contractR, hck, hbk, List.append_assoc] using this

end

end MoSql.Infix
