import MoSql.Lemmas.InfixMain
import MoSql.Expr
/-! `evalE = sem` on every expression all of whose `make_tree` activations are compatible. -/
namespace MoSql.E
open MoSql MoSql.Infix

variable (cx : Ctx) (hOK : LevelsOK cx.levels)
include hOK

theorem evalW_ok (w : W Raw) (hwf : w.wfB cx.levels = true) (hc : w.compatB = true) :
    resultVal (evalW cx w) = w.val (OpJson.builders cx.assoc) cx.levels := by
  have := makeTree_flat (OpJson.builders cx.assoc) cx.levels hOK w (W.wf_of_wfB hwf)
    (W.compat_of_compatB hc)
  simp [evalW, resultVal, this]

mutual
theorem toW_val : ∀ e : E, okSub cx e = true →
    (toW cx e).val (OpJson.builders cx.assoc) cx.levels = sem cx e
  | .atom _ _, _ => rfl
  | .paren e, h => by
    simp only [okSub, okTop, Bool.and_eq_true] at h
    simp only [toW, W.val, sem]
    rw [evalW_ok cx hOK _ h.1.1 h.1.2, toW_val e h.2]
  | .call f args, h => by
    simp only [okSub] at h
    simp only [toW, W.val, sem]
    rw [argsRaw_sem args h]
  | .pre o e, h => by
    simp only [okSub] at h
    simp only [toW, W.val, sem, lvl, toW_val e h]
  | .cast o e ty, h => by
    simp only [okSub] at h
    simp only [toW, W.val, sem, lvl, toW_val e h]
  | .bin o l r, h => by
    simp only [okSub, Bool.and_eq_true] at h
    simp only [toW, W.val, sem, lvl, toW_val l h.1, toW_val r h.2]
  | .tern o a b c, h => by
    simp only [okSub, Bool.and_eq_true] at h
    simp only [toW, W.val, sem, lvl, toW_val a h.1.1, toW_val b h.1.2, toW_val c h.2]
theorem argsRaw_sem : ∀ es : List E, okList cx es = true → argsRaw cx es = semArgs cx es
  | [], _ => rfl
  | e :: es, h => by
    simp only [okList, okTop, Bool.and_eq_true] at h
    simp only [argsRaw, semArgs]
    rw [evalW_ok cx hOK _ h.1.1.1 h.1.1.2, toW_val e h.1.2, argsRaw_sem es h.2]
end

/-- **C01, model level.** -/
theorem evalE_eq_sem (e : E) (h : okTop cx e = true) : evalE cx e = sem cx e := by
  simp only [okTop, Bool.and_eq_true] at h
  simp only [evalE]
  rw [evalW_ok cx hOK _ h.1.1 h.1.2, toW_val cx hOK e h.2]

end MoSql.E

namespace MoSql.E
open MoSql MoSql.Infix

section
variable (cx : Ctx) (hOK : LevelsOK cx.levels)
include hOK

theorem leftover_ok (w : W Raw) (hwf : w.wfB cx.levels = true) (hc : w.compatB = true) :
    (evalW cx w).leftover = [] := by
  have := makeTree_flat (OpJson.builders cx.assoc) cx.levels hOK w (W.wf_of_wfB hwf)
    (W.compat_of_compatB hc)
  simp [evalW, this]

mutual
theorem drops_of_okSub : ∀ e : E, okSub cx e = true → drops cx e = false
  | .atom _ _, _ => by simp [drops]
  | .paren e, h => by
    simp only [okSub] at h
    simp only [drops]
    exact dropsTop_of_okTop e h
  | .call f args, h => by
    simp only [okSub] at h
    simp only [drops]
    exact dropsList_of_okList args h
  | .pre o e, h => by simp only [okSub] at h; simp only [drops]; exact drops_of_okSub e h
  | .cast o e ty, h => by simp only [okSub] at h; simp only [drops]; exact drops_of_okSub e h
  | .bin o l r, h => by
    simp only [okSub, Bool.and_eq_true] at h
    simp [drops, drops_of_okSub l h.1, drops_of_okSub r h.2]
  | .tern o a b c, h => by
    simp only [okSub, Bool.and_eq_true] at h
    simp [drops, drops_of_okSub a h.1.1, drops_of_okSub b h.1.2, drops_of_okSub c h.2]
theorem dropsList_of_okList : ∀ es : List E, okList cx es = true → dropsList cx es = false
  | [], _ => by simp [dropsList]
  | e :: es, h => by
    simp only [okList, Bool.and_eq_true] at h
    simp [dropsList, dropsTop_of_okTop e h.1, dropsList_of_okList es h.2]
theorem dropsTop_of_okTop : ∀ e : E, okTop cx e = true → dropsTop cx e = false
  | e, h => by
    have h' := h
    simp only [okTop, Bool.and_eq_true] at h'
    have hl := leftover_ok cx hOK (toW cx e) h'.1.1 h'.1.2
    simp [dropsTop, hl, drops_of_okSub e h'.2]
end

end
end MoSql.E
