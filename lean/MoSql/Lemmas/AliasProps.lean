import MoSql.Alias
namespace MoSql.Alias

theorem collapse_owned : ∀ (xs : List PT), ownedList xs = true → owned (collapse xs) = true
  | [], _ => rfl
  | [x], h => by simpa [collapse, ownedList] using h
  | x :: y :: zs, h => by simpa [collapse, owned] using h

mutual
theorem scrubP_owned (pol : Policy) (hp : pol.emptyDictFresh = true) : ∀ r : Raw, owned (scrubP pol r) = true
  | .none => rfl
  | .str _ => rfl
  | .int _ => rfl
  | .flt _ => rfl
  | .bool _ => rfl
  | .sqlNull => rfl
  | .crash _ => rfl
  | .call op args kw => by
    have ha := scrubP_owned pol hp args
    cases kw with
    | nil => simp [scrubP, owned, ownedKvs, hp, ha]
    | cons kv rest =>
      have hk := scrubKwP_owned pol hp (kv :: rest)
      simp [scrubP, owned, ownedKvs, ha, hk]
  | .list xs => by
    simp only [scrubP]
    exact collapse_owned _ (scrubListP_owned pol hp xs)
  | .grp r => by simpa [scrubP] using scrubP_owned pol hp r
  | .dict [] => by simp [scrubP, owned, ownedKvs, hp]
  | .dict (kv :: rest) => by
    have hk := scrubKwP_owned pol hp (kv :: rest)
    simp [scrubP, owned, hk]
theorem scrubListP_owned (pol : Policy) (hp : pol.emptyDictFresh = true) : ∀ rs : List Raw, ownedList (scrubListP pol rs) = true
  | [] => rfl
  | r :: rs => by simp [scrubListP, ownedList, scrubP_owned pol hp r, scrubListP_owned pol hp rs]
theorem scrubKwP_owned (pol : Policy) (hp : pol.emptyDictFresh = true) : ∀ kvs : List (String × Raw), ownedKvs (scrubKwP pol kvs) = true
  | [] => rfl
  | (k, r) :: rest => by simp [scrubKwP, ownedKvs, scrubP_owned pol hp r, scrubKwP_owned pol hp rest]
end

mutual
theorem substP_owned (pol : Policy) (u : Bool) (hd : pol.defaultNullFresh = true) : ∀ t : PT, owned t = true → owned (substP pol u t) = true
  | .slot, _ => by cases u <;> simp [substP, owned, ownedKvs, hd]
  | .leaf, _ => rfl
  | .arr p xs, h => by
    simp only [owned, Bool.and_eq_true] at h
    simp only [substP, owned, Bool.and_eq_true]
    exact ⟨h.1, substListP_owned pol u hd xs h.2⟩
  | .obj p kvs, h => by
    simp only [owned, Bool.and_eq_true] at h
    simp only [substP, owned, Bool.and_eq_true]
    exact ⟨h.1, substKvsP_owned pol u hd kvs h.2⟩
theorem substListP_owned (pol : Policy) (u : Bool) (hd : pol.defaultNullFresh = true) : ∀ xs : List PT, ownedList xs = true → ownedList (substListP pol u xs) = true
  | [], _ => rfl
  | x :: xs, h => by
    simp only [ownedList, Bool.and_eq_true] at h
    simp only [substListP, ownedList, Bool.and_eq_true]
    exact ⟨substP_owned pol u hd x h.1, substListP_owned pol u hd xs h.2⟩
theorem substKvsP_owned (pol : Policy) (u : Bool) (hd : pol.defaultNullFresh = true) : ∀ kvs : List (String × PT), ownedKvs kvs = true → ownedKvs (substKvsP pol u kvs) = true
  | [], _ => rfl
  | (k, x) :: rest, h => by
    simp only [ownedKvs, Bool.and_eq_true] at h
    simp only [substKvsP, ownedKvs, Bool.and_eq_true]
    exact ⟨substP_owned pol u hd x h.1, substKvsP_owned pol u hd rest h.2⟩
end

/-! ### the frame property -/

/-- writing to an object that the library cannot reach leaves the library's reachable set unchanged … -/
theorem reach_write_iff (h : Heap) (lib : List Nat) (o : Nat) (refs : List Nat) (ho : ¬ Reach h lib o) (a : Nat) :
    Reach (write h o refs) lib a ↔ Reach h lib a := by
  constructor
  · intro r
    induction r with
    | root hr => exact .root hr
    | @step x y _ hb ih =>
      by_cases e : x = o
      · subst e; exact absurd ih ho
      · have : y ∈ h x := by simpa [write, e] using hb
        exact .step ih this
  · intro r
    induction r with
    | root hr => exact .root hr
    | @step x y hr hb ih =>
      have hx : x ≠ o := by
        intro e; subst e; exact ho hr
      exact .step ih (by simpa [write, hx] using hb)

/-- … and the content of every object the library can reach -/
theorem write_keeps_library_objects (h : Heap) (lib : List Nat) (o : Nat) (refs : List Nat) (ho : ¬ Reach h lib o)
    (a : Nat) (ha : Reach h lib a) : write h o refs a = h a := by
  have : a ≠ o := by
    intro e; subst e; exact ho ha
  simp [write, this]

/-- any number of caller mutations, each on an object the library does not reach at that moment -/
def writes : Heap → List (Nat × List Nat) → Heap
  | h, [] => h
  | h, (o, refs) :: rest => writes (write h o refs) rest

theorem frame_many (lib : List Nat) : ∀ (ws : List (Nat × List Nat)) (h : Heap),
    (∀ w ∈ ws, ¬ Reach h lib w.1) →
    ∀ a, Reach h lib a → (Reach (writes h ws) lib a ∧ writes h ws a = h a)
  | [], h, _, a, ha => ⟨ha, rfl⟩
  | (o, refs) :: rest, h, hw, a, ha => by
    have ho : ¬ Reach h lib o := hw (o, refs) List.mem_cons_self
    have hrest : ∀ w ∈ rest, ¬ Reach (write h o refs) lib w.1 := by
      intro w hwm hr
      exact hw w (List.mem_cons_of_mem _ hwm) ((reach_write_iff h lib o refs ho w.1).mp hr)
    have ha' : Reach (write h o refs) lib a := (reach_write_iff h lib o refs ho a).mpr ha
    have := frame_many lib rest (write h o refs) hrest a ha'
    exact ⟨this.1, by rw [writes, this.2, write_keeps_library_objects h lib o refs ho a ha]⟩

end MoSql.Alias
