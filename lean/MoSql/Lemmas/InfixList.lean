import MoSql.Prec
/-! List-level facts about the four `reduce*` functions of `MoSql.Infix`. -/
namespace MoSql.Infix
variable {V : Type}

/-- no item of `xs` is an operator token with identity `id` -/
def NoTok (id : Nat) (xs : List (Item V)) : Prop := ∀ x ∈ xs, x.isOp id = false

theorem NoTok.nil (id : Nat) : NoTok id ([] : List (Item V)) := by
  intro x hx; cases hx

theorem NoTok.cons {id : Nat} {x : Item V} {xs : List (Item V)}
    (hx : x.isOp id = false) (h : NoTok id xs) : NoTok id (x :: xs) := by
  intro y hy
  cases hy with
  | head => exact hx
  | tail _ hy => exact h y hy

theorem NoTok.append {id : Nat} {xs ys : List (Item V)}
    (h1 : NoTok id xs) (h2 : NoTok id ys) : NoTok id (xs ++ ys) := by
  intro y hy
  rcases List.mem_append.mp hy with h | h
  · exact h1 y h
  · exact h2 y h

theorem NoTok.head {id : Nat} {x : Item V} {xs : List (Item V)} (h : NoTok id (x :: xs)) :
    x.isOp id = false := h x (List.mem_cons_self)

theorem NoTok.tail {id : Nat} {x : Item V} {xs : List (Item V)} (h : NoTok id (x :: xs)) :
    NoTok id xs := fun y hy => h y (List.mem_cons_of_mem _ hy)

theorem NoTok.left {id : Nat} {xs ys : List (Item V)} (h : NoTok id (xs ++ ys)) : NoTok id xs :=
  fun y hy => h y (List.mem_append_left _ hy)

theorem NoTok.right {id : Nat} {xs ys : List (Item V)} (h : NoTok id (xs ++ ys)) : NoTok id ys :=
  fun y hy => h y (List.mem_append_right _ hy)

@[simp] theorem isOp_val (id : Nat) (v : V) : (Item.val v).isOp id = false := rfl
@[simp] theorem isOp_op (id : Nat) (t : Tok V) : (Item.op t).isOp id = (t.id == id) := rfl

/-! ### a level whose token does not occur cannot reduce -/

theorem reducePre_none (B : Builders V) (L : Level) :
    ∀ xs : List (Item V), NoTok L.id0 xs → reducePre B L xs = none
  | [], _ => rfl
  | [_], _ => rfl
  | o :: b :: rest, h => by
    have ih := reducePre_none B L (b :: rest) h.tail
    have ho := h.head
    unfold reducePre
    rw [ih]
    cases o with
    | val v => rfl
    | op t =>
      simp only [isOp_op] at ho
      simp [ho]

theorem reduceSuf_none (B : Builders V) (L : Level) :
    ∀ xs : List (Item V), NoTok L.id0 xs → reduceSuf B L xs = none
  | [], _ => rfl
  | [_], _ => rfl
  | a :: o :: rest, h => by
    have ih := reduceSuf_none B L (o :: rest) h.tail
    have ho := h.tail.head
    unfold reduceSuf
    cases o with
    | val v => simp [ih]
    | op t =>
      simp only [isOp_op] at ho
      simp [ho, ih]

theorem reduceBin_none (B : Builders V) (L : Level) :
    ∀ xs : List (Item V), NoTok L.id0 xs → reduceBin B L xs = none
  | [], _ => rfl
  | [_], _ => rfl
  | [_, _], _ => rfl
  | a :: o :: b :: rest, h => by
    have ih := reduceBin_none B L (o :: b :: rest) h.tail
    have ho := h.tail.head
    unfold reduceBin
    cases o with
    | val v => simp [ih]
    | op t =>
      simp only [isOp_op] at ho
      simp [ho, ih]

theorem reduceTern_none (B : Builders V) (L : Level) :
    ∀ xs : List (Item V), NoTok L.id0 xs → reduceTern B L xs = none
  | [], _ => rfl
  | [_], _ => rfl
  | [_, _], _ => rfl
  | [_, _, _], _ => rfl
  | [_, _, _, _], _ => rfl
  | a :: o0 :: b :: o1 :: c :: rest, h => by
    have ih := reduceTern_none B L (o0 :: b :: o1 :: c :: rest) h.tail
    have ho := h.tail.head
    unfold reduceTern
    cases o0 with
    | val v => simp [ih]
    | op t0 =>
      simp only [isOp_op] at ho
      cases o1 with
      | val v => simp [ih]
      | op t1 => simp [ho, ih]

theorem reduce_none (B : Builders V) (L : Level) (xs : List (Item V)) (h : NoTok L.id0 xs) :
    reduce B L xs = none := by
  unfold reduce
  cases L.kind
  · exact reducePre_none B L xs h
  · exact reduceSuf_none B L xs h
  · exact reduceBin_none B L xs h
  · exact reduceTern_none B L xs h

/-! ### the leftmost (rightmost for prefix) occurrence is the one reduced -/

theorem reduceBin_hit (B : Builders V) (L : Level) (a b : V) (t : Tok V) (R : List (Item V))
    (ht : t.id = L.id0) :
    ∀ Lf : List (Item V), NoTok L.id0 Lf →
      reduceBin B L (Lf ++ .val a :: .op t :: .val b :: R)
        = some (Lf ++ .val (B.mkBin L a t b) :: R)
  | [], _ => by simp [reduceBin, ht, Item.asVal]
  | [x], h => by
    have hx := h.head
    show reduceBin B L (x :: .val a :: .op t :: .val b :: R) = _
    unfold reduceBin
    have := reduceBin_hit B L a b t R ht [] (NoTok.nil _)
    simp only [List.nil_append] at this
    simp [this]
  | x :: y :: Lf, h => by
    have ih := reduceBin_hit B L a b t R ht (y :: Lf) h.tail
    have hy := h.tail.head
    show reduceBin B L (x :: y :: (Lf ++ .val a :: .op t :: .val b :: R)) = _
    have hne : ∃ z zs, Lf ++ .val a :: .op t :: .val b :: R = z :: zs := by
      cases Lf with
      | nil => exact ⟨_, _, rfl⟩
      | cons z zs => exact ⟨_, _, rfl⟩
    obtain ⟨z, zs, hz⟩ := hne
    rw [hz]
    unfold reduceBin
    simp only [List.cons_append, hz] at ih
    cases y with
    | val v => simp [ih]
    | op ty =>
      simp only [isOp_op] at hy
      simp [hy, ih]

theorem reduceSuf_hit (B : Builders V) (L : Level) (a : V) (t : Tok V) (R : List (Item V))
    (ht : t.id = L.id0) :
    ∀ Lf : List (Item V), NoTok L.id0 Lf →
      reduceSuf B L (Lf ++ .val a :: .op t :: R) = some (Lf ++ .val (B.mkSuf L a t) :: R)
  | [], _ => by simp [reduceSuf, ht, Item.asVal]
  | [x], h => by
    show reduceSuf B L (x :: .val a :: .op t :: R) = _
    unfold reduceSuf
    have := reduceSuf_hit B L a t R ht [] (NoTok.nil _)
    simp only [List.nil_append] at this
    simp [this]
  | x :: y :: Lf, h => by
    have ih := reduceSuf_hit B L a t R ht (y :: Lf) h.tail
    have hy := h.tail.head
    show reduceSuf B L (x :: y :: (Lf ++ .val a :: .op t :: R)) = _
    unfold reduceSuf
    simp only [List.cons_append] at ih
    cases y with
    | val v => simp [ih]
    | op ty =>
      simp only [isOp_op] at hy
      simp [hy, ih]

theorem reduceTern_hit (B : Builders V) (L : Level) (a b c : V) (t0 t1 : Tok V)
    (R : List (Item V)) (h0 : t0.id = L.id0) (h1 : t1.id = L.id1) :
    ∀ Lf : List (Item V), NoTok L.id0 Lf →
      reduceTern B L (Lf ++ .val a :: .op t0 :: .val b :: .op t1 :: .val c :: R)
        = some (Lf ++ .val (B.mkTern L a t0 b t1 c) :: R)
  | [], _ => by simp [reduceTern, h0, h1, Item.asVal]
  | [x], h => by
    show reduceTern B L (x :: .val a :: .op t0 :: .val b :: .op t1 :: .val c :: R) = _
    unfold reduceTern
    have := reduceTern_hit B L a b c t0 t1 R h0 h1 [] (NoTok.nil _)
    simp only [List.nil_append] at this
    simp [this]
  | x :: y :: Lf, h => by
    have ih := reduceTern_hit B L a b c t0 t1 R h0 h1 (y :: Lf) h.tail
    have hy := h.tail.head
    show reduceTern B L
      (x :: y :: (Lf ++ .val a :: .op t0 :: .val b :: .op t1 :: .val c :: R)) = _
    have hne : ∃ z1 z2 z3 zs,
        Lf ++ .val a :: .op t0 :: .val b :: .op t1 :: .val c :: R = z1 :: z2 :: z3 :: zs := by
      match Lf with
      | [] => exact ⟨_, _, _, _, rfl⟩
      | [_] => exact ⟨_, _, _, _, rfl⟩
      | [_, _] => exact ⟨_, _, _, _, rfl⟩
      | _ :: _ :: _ :: _ => exact ⟨_, _, _, _, rfl⟩
    obtain ⟨z1, z2, z3, zs, hz⟩ := hne
    rw [hz]
    unfold reduceTern
    simp only [List.cons_append, hz] at ih
    cases y with
    | val v => simp [ih]
    | op ty =>
      simp only [isOp_op] at hy
      cases z2 with
      | val v => simp [ih]
      | op tz => simp [hy, ih]

theorem reducePre_hit (B : Builders V) (L : Level) (b : V) (t : Tok V) (R : List (Item V))
    (ht : t.id = L.id0) (hR : NoTok L.id0 R) :
    ∀ Lf : List (Item V),
      reducePre B L (Lf ++ .op t :: .val b :: R) = some (Lf ++ .val (B.mkPre L t b) :: R)
  | [] => by
    have hn : reducePre B L (.val b :: R) = none :=
      reducePre_none B L _ (NoTok.cons (isOp_val _ _) hR)
    show reducePre B L (.op t :: .val b :: R) = _
    unfold reducePre
    simp [hn, ht, Item.asVal]
  | x :: Lf => by
    have ih := reducePre_hit B L b t R ht hR Lf
    have hne : ∃ z zs, Lf ++ .op t :: .val b :: R = z :: zs := by
      cases Lf with
      | nil => exact ⟨_, _, rfl⟩
      | cons z zs => exact ⟨_, _, rfl⟩
    obtain ⟨z, zs, hz⟩ := hne
    show reducePre B L (x :: (Lf ++ .op t :: .val b :: R)) = _
    rw [hz] at ih ⊢
    unfold reducePre
    simp [ih]

end MoSql.Infix
