import MoSql.Format
/-! The formatter's parentheses suffice: its output is precedence-compatible at every level. -/
namespace MoSql.Fmt
open MoSql MoSql.Infix MoSql.E

variable (cx : Ctx) (known : List (String × Nat × String)) (ops : List FmtOp)

theorem mem_of_lt {k : Nat} (h : k < ops.length) : ops.getD k default ∈ ops := by
  have : ops.getD k default = ops[k] := by simp [List.getD, List.getElem?_eq_getElem h]
  rw [this]; exact List.getElem_mem h

theorem fmtE_bare {k : Nat} {l r : T} {p : Int} (hb : bare p (ops.getD k default) = true) :
    fmtE ops (.bin k l r) p = body (ops.getD k default)
      (fmtE ops l (slotPrec (ops.getD k default) 0)) (fmtE ops r (slotPrec (ops.getD k default) 1)) := by
  simp only [fmtE, hb, ↓reduceIte]

theorem fmtE_paren {k : Nat} {l r : T} {p : Int} (hb : ¬ bare p (ops.getD k default) = true) :
    fmtE ops (.bin k l r) p = .paren (body (ops.getD k default)
      (fmtE ops l (slotPrec (ops.getD k default) 0)) (fmtE ops r (slotPrec (ops.getD k default) 1))) := by
  simp only [fmtE]; rw [if_neg hb]

/-- root level of the written form of an operand -/
theorem top_fmtE (t : T) (p : Int) :
    (toW cx (fmtE ops t p)).top = none ∨
      ∃ c, rootOp ops t = some c ∧ bare p c = true ∧ (toW cx (fmtE ops t p)).top = some c.info.level := by
  cases t with
  | leaf text r => left; rfl
  | bin k l r =>
    by_cases hb : bare p (ops.getD k default) = true
    · right
      refine ⟨ops.getD k default, rfl, hb, ?_⟩
      rw [fmtE_bare ops hb]; rfl
    · left
      rw [fmtE_paren ops hb]; rfl

variable (hs : soundTable known ops = true) (hw : wfTable cx.levels ops = true)
include hs hw

theorem okTop_fmtE : ∀ (t : T) (p : Int), admissible known ops t = true →
    okTop cx (fmtE ops t p) = true
  | .leaf text r, p, _ => by simp [fmtE, okTop, okSub, toW, W.wfB, W.compatB]
  | .bin k l r, p, h => by
    simp only [admissible, Bool.and_eq_true, decide_eq_true_eq] at h
    obtain ⟨⟨⟨⟨hk, hkl⟩, hkr⟩, hal⟩, har⟩ := h
    have ho := mem_of_lt ops hk
    have ihl := okTop_fmtE l (slotPrec (ops.getD k default) 0) hal
    have ihr := okTop_fmtE r (slotPrec (ops.getD k default) 1) har
    simp only [okTop, Bool.and_eq_true] at ihl ihr
    -- facts about the operator row
    have hwo : nodeOkB cx.levels (ops.getD k default).info.level Kind.bin (ops.getD k default).info.id = true := by
      have := List.all_eq_true.mp hw _ ho; exact this
    have hso : ∀ c ∈ ops, tripleOK known (ops.getD k default) c 0 = true ∧
        tripleOK known (ops.getD k default) c 1 = true := by
      intro c hc
      have := List.all_eq_true.mp (List.all_eq_true.mp hs _ ho) c hc
      simpa [Bool.and_eq_true] using this
    -- the left operand binds at least as tight, the right one strictly tighter
    have hle : (toW cx (fmtE ops l (slotPrec (ops.getD k default) 0))).leB (ops.getD k default).info.level = true := by
      rcases top_fmtE cx ops l (slotPrec (ops.getD k default) 0) with h0 | ⟨c, hc, hb, ht⟩
      · simp only [W.leB, h0]
      · simp only [W.leB, ht]
        cases l with
        | leaf _ _ => simp [rootOp] at hc
        | bin kl ll rl =>
          simp only [rootOp, Option.some.injEq] at hc
          simp only [admissible, Bool.and_eq_true, decide_eq_true_eq] at hal
          have hcm : c ∈ ops := hc ▸ mem_of_lt ops hal.1.1.1.1
          have h3 := (hso c hcm).1
          simp only [rootOp, hc] at hkl
          simp only [tripleOK, Bool.or_eq_true, Bool.not_eq_true'] at h3
          rcases h3 with (h3 | h3) | h3
          · rw [h3] at hkl; simp at hkl
          · rw [hb] at h3; cases h3
          · simpa [genCompat] using h3
    have hlt : (toW cx (fmtE ops r (slotPrec (ops.getD k default) 1))).ltB (ops.getD k default).info.level = true := by
      rcases top_fmtE cx ops r (slotPrec (ops.getD k default) 1) with h0 | ⟨c, hc, hb, ht⟩
      · simp only [W.ltB, h0]
      · simp only [W.ltB, ht]
        cases r with
        | leaf _ _ => simp [rootOp] at hc
        | bin kr lr rr =>
          simp only [rootOp, Option.some.injEq] at hc
          simp only [admissible, Bool.and_eq_true, decide_eq_true_eq] at har
          have hcm : c ∈ ops := hc ▸ mem_of_lt ops har.1.1.1.1
          have h3 := (hso c hcm).2
          simp only [rootOp, hc] at hkr
          simp only [tripleOK, Bool.or_eq_true, Bool.not_eq_true'] at h3
          rcases h3 with (h3 | h3) | h3
          · rw [h3] at hkr; simp at hkr
          · rw [hb] at h3; cases h3
          · simpa [genCompat] using h3
    have hbody : okTop cx (body (ops.getD k default)
        (fmtE ops l (slotPrec (ops.getD k default) 0)) (fmtE ops r (slotPrec (ops.getD k default) 1))) = true := by
      simp only [okTop, body, toW, W.wfB, W.compatB, okSub, tok, Bool.and_eq_true]
      exact ⟨⟨⟨⟨hwo, ihl.1.1⟩, ihr.1.1⟩, ⟨⟨⟨hle, hlt⟩, ihl.1.2⟩, ihr.1.2⟩⟩, ihl.2, ihr.2⟩
    by_cases hb : bare p (ops.getD k default) = true
    · rw [fmtE_bare ops hb]; exact hbody
    · rw [fmtE_paren ops hb]
      simp only [okTop, toW, W.wfB, W.compatB, okSub, Bool.true_and]
      unfold okTop at hbody
      exact hbody

end MoSql.Fmt
