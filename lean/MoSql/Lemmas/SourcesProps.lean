import MoSql.Sources
/-!
What `_sources` writes is well separated and its brackets match, for every list of sources of any length and any
nesting of groups.
-/
namespace MoSql.Sources

theorem scan_append (st : St) (a b : List Tok) : scan st (a ++ b) = (scan st a).bind (fun st' => scan st' b) := by
  induction a generalizing st with
  | nil => simp [scan]
  | cons t ts ih =>
    simp only [List.cons_append, scan]
    cases step st t with
    | none => simp
    | some st' => simp [ih]

theorem balancedFrom_append (d : Nat) (a b : List Tok) :
    balancedFrom d (a ++ b) = (balancedFrom d a).bind (fun d' => balancedFrom d' b) := by
  induction a generalizing d with
  | nil => simp [balancedFrom]
  | cons t ts ih =>
    cases t <;> simp only [List.cons_append, balancedFrom, ih]
    case rp =>
      cases d with
      | zero => simp [balancedFrom]
      | succ d => simp [balancedFrom, ih]

/-- a place where a source may stand -/
def St.expecting : St → Bool
  | .closed => false
  | _ => true

theorem scan_cond_closed (c : Cond) : scan .closed (fmtCond c) = some .closed := by
  cases c <;> rfl

theorem balanced_cond (c : Cond) (d : Nat) : balancedFrom d (fmtCond c) = some d := by
  cases c <;> rfl

mutual
  /-- a source, wherever one is expected, leaves the reader behind something complete -/
  theorem scan_fmtSrc : ∀ (s : Src) (st : St), st.expecting = true → scan st (fmtSrc s) = some .closed
    | .tbl n, st, h => by
      cases st <;> simp_all [fmtSrc, scan, step, St.expecting]
    | .group items, st, h => by
      have hi := scan_fmtItems items [] .afterOpen (Or.inr rfl) (Or.inl rfl)
      have hopen : step st .lp = some .afterOpen := by cases st <;> simp_all [step, St.expecting]
      simp only [fmtSrc, List.append_assoc, List.cons_append, List.nil_append, scan, hopen, Option.bind_some]
      rw [scan_append]
      rcases hi with hi | hi <;> simp [hi, scan, step]
  /-- the loop: entered at `e` (the start, or just behind `(`) with nothing written, or with something complete written,
  it ends at `e` with nothing written or behind something complete -/
  theorem scan_fmtItems : ∀ (items : List Item) (acc : List Tok) (e : St), (e = .start ∨ e = .afterOpen) →
      (acc = [] ∨ scan e acc = some .closed) →
      (scan e (fmtItems items acc) = some e ∨ scan e (fmtItems items acc) = some .closed)
    | [], acc, e, _, h => by
      rcases h with rfl | h
      · left; simp [fmtItems, scan]
      · right; simpa [fmtItems] using h
    | .plain s :: more, acc, e, he, h => by
      simp only [fmtItems]
      apply scan_fmtItems more _ e he
      right
      have hexp : e.expecting = true := by rcases he with rfl | rfl <;> rfl
      cases acc with
      | nil => simpa using scan_fmtSrc s e hexp
      | cons a as =>
        rcases h with h0 | h
        · cases h0
        · simp only [List.isEmpty_cons, Bool.false_eq_true, if_false]
          rw [scan_append, scan_append, h]
          simp only [Option.bind_some, scan, step]
          exact scan_fmtSrc s .afterComma rfl
    | .join k s c :: more, acc, e, he, h => by
      simp only [fmtItems]
      apply scan_fmtItems more _ e he
      right
      have key : ∀ st, (st = e ∨ st = .closed) → scan st ([Tok.join k] ++ fmtSrc s ++ fmtCond c) = some .closed := by
        intro st hst
        have hj : step st (.join k) = some .afterJoin := by
          rcases hst with rfl | rfl
          · rcases he with rfl | rfl <;> rfl
          · rfl
        rw [scan_append, scan_append]
        simp only [scan, hj, Option.bind_some]
        rw [scan_fmtSrc s .afterJoin rfl]
        simpa using scan_cond_closed c
      rcases h with rfl | h
      · simpa [List.append_assoc] using key e (Or.inl rfl)
      · rw [List.append_assoc, List.append_assoc, scan_append, h]
        simpa [List.append_assoc] using key .closed (Or.inr rfl)
end

mutual
  theorem balanced_fmtSrc : ∀ (s : Src) (d : Nat), balancedFrom d (fmtSrc s) = some d
    | .tbl n, d => by simp [fmtSrc, balancedFrom]
    | .group items, d => by
      have hi := balanced_fmtItems items [] (d + 1) (by simp [balancedFrom])
      simp only [fmtSrc, List.append_assoc, List.cons_append, List.nil_append, balancedFrom]
      rw [balancedFrom_append, hi]
      simp [balancedFrom]
  theorem balanced_fmtItems : ∀ (items : List Item) (acc : List Tok) (d : Nat), balancedFrom d acc = some d →
      balancedFrom d (fmtItems items acc) = some d
    | [], acc, d, h => by simpa [fmtItems] using h
    | .plain s :: more, acc, d, h => by
      simp only [fmtItems]
      apply balanced_fmtItems more _ d
      split
      · exact balanced_fmtSrc s d
      · rw [balancedFrom_append, balancedFrom_append, h]
        simp only [Option.bind_some, balancedFrom]
        exact balanced_fmtSrc s d
    | .join k s c :: more, acc, d, h => by
      simp only [fmtItems]
      apply balanced_fmtItems more _ d
      rw [balancedFrom_append, balancedFrom_append, balancedFrom_append, h]
      simp only [Option.bind_some, balancedFrom]
      rw [balanced_fmtSrc s d]
      simpa using balanced_cond c d
end

end MoSql.Sources
