import MoSql.Scrub
/-!
`scrub` loses no content: every string, number and boolean leaf of the raw tree the parse actions built is a leaf
of the simplified tree — in both `calls=` modes and under every `fmap`.  What `scrub` removes is `None`, empty lists
and the list / Group wrappers.  The one way content can get lost is a keyword argument of a call that has the same
name as the call itself (`kwargs[op] = args` overwrites it): excluded by `noClash`.
-/
namespace MoSql.Scrub
open MoSql

inductive Atom where
  | s (x : String)
  | i (x : Int)
  | f (x : String)
  | b (x : Bool)
  deriving DecidableEq, Repr

mutual
/-- the content leaves of a result -/
def jAtoms : J → List Atom
  | .str x => [.s x]
  | .int x => [.i x]
  | .flt x => [.f x]
  | .bool x => [.b x]
  | .arr xs => jAtomsL xs
  | .obj kvs => jAtomsK kvs
  | _ => []
def jAtomsL : List J → List Atom
  | [] => []
  | x :: xs => jAtoms x ++ jAtomsL xs
def jAtomsK : List (String × J) → List Atom
  | [] => []
  | (_, v) :: rest => jAtoms v ++ jAtomsK rest
end

mutual
/-- the content leaves of a raw tree -/
def rAtoms : Raw → List Atom
  | .str x => [.s x]
  | .int x => [.i x]
  | .flt x => [.f x]
  | .bool x => [.b x]
  | .call _ args kw => rAtoms args ++ rAtomsK kw
  | .list xs => rAtomsL xs
  | .grp r => rAtoms r
  | .dict kvs => rAtomsK kvs
  | _ => []
def rAtomsL : List Raw → List Atom
  | [] => []
  | x :: xs => rAtoms x ++ rAtomsL xs
def rAtomsK : List (String × Raw) → List Atom
  | [] => []
  | (_, v) :: rest => rAtoms v ++ rAtomsK rest
end

mutual
/-- no call has a keyword argument named like the (renamed) call itself -/
def noClash (c : Cfg) : Raw → Bool
  | .call op args kw => !((kw.map (·.1)).contains (c.rename op)) && noClash c args && noClashK c kw
  | .list xs => noClashL c xs
  | .grp r => noClash c r
  | .dict kvs => noClashK c kvs
  | _ => true
def noClashL (c : Cfg) : List Raw → Bool
  | [] => true
  | x :: xs => noClash c x && noClashL c xs
def noClashK (c : Cfg) : List (String × Raw) → Bool
  | [] => true
  | (_, v) :: rest => noClash c v && noClashK c rest
end

theorem jAtoms_mark (j : J) : jAtoms (mark j) = jAtoms j := by
  cases j <;> simp [mark, jAtoms]

theorem jAtoms_null_of_isNull {j : J} (h : j.isNull = true) : jAtoms j = [] := by
  cases j <;> simp [J.isNull] at h <;> simp [jAtoms]

theorem jAtomsL_map_mark : ∀ ys : List J, jAtomsL (ys.map mark) = jAtomsL ys
  | [] => rfl
  | y :: ys => by simp [jAtomsL, jAtoms_mark, jAtomsL_map_mark ys]

theorem mem_jAtomsL_filter : ∀ (xs : List J) (a : Atom), a ∈ jAtomsL xs → a ∈ jAtomsL (xs.filter (fun j => !j.isNull))
  | [], _, h => by simpa [jAtomsL] using h
  | x :: xs, a, h => by
    simp only [jAtomsL, List.mem_append] at h
    by_cases hx : x.isNull = true
    · have : jAtoms x = [] := jAtoms_null_of_isNull hx
      simp only [this, List.not_mem_nil, false_or] at h
      simp only [List.filter, hx, Bool.not_true]
      exact mem_jAtomsL_filter xs a h
    · have hx' : (!x.isNull) = true := by simpa using hx
      simp only [List.filter, hx', jAtomsL, List.mem_append]
      rcases h with h | h
      · exact Or.inl h
      · exact Or.inr (mem_jAtomsL_filter xs a h)

theorem mem_collapse (xs : List J) (a : Atom) (h : a ∈ jAtomsL xs) : a ∈ jAtoms (collapse xs) := by
  have h' := mem_jAtomsL_filter xs a h
  unfold collapse
  generalize xs.filter (fun j => !j.isNull) = ys at h'
  match ys, h' with
  | [], h' => simp [jAtomsL] at h'
  | [x], h' => simpa [jAtomsL] using h'
  | x :: y :: ys, h' =>
    simp only [jAtoms]
    rw [jAtomsL_map_mark]
    exact h'

theorem mem_setKey : ∀ (kw : List (String × J)) (k : String) (v : J) (a : Atom),
    (kw.map (·.1)).contains k = false → (a ∈ jAtomsK kw ∨ a ∈ jAtoms v) → a ∈ jAtomsK (J.setKey kw k v)
  | [], k, v, a, _, h => by
    rcases h with h | h
    · simp [jAtomsK] at h
    · simp [J.setKey, jAtomsK, h]
  | (k', v') :: rest, k, v, a, hk, h => by
    simp only [List.map_cons, List.contains_cons, Bool.or_eq_false_iff] at hk
    have hne : (k' == k) = false := by
      have h1 := hk.1
      simp only [beq_eq_false_iff_ne, ne_eq] at h1 ⊢
      exact fun e => h1 e.symm
    simp only [J.setKey, hne, Bool.false_eq_true, if_false, jAtomsK, List.mem_append]
    simp only [jAtomsK, List.mem_append] at h
    rcases h with (h | h) | h
    · exact Or.inl h
    · exact Or.inr (mem_setKey rest k v a hk.2 (Or.inl h))
    · exact Or.inr (mem_setKey rest k v a hk.2 (Or.inr h))

theorem getKey_none_of_not_contains : ∀ (kw : List (String × J)) (k : String),
    (kw.map (·.1)).contains k = false → J.getKey kw k = none
  | [], _, _ => rfl
  | (k', v') :: rest, k, hk => by
    simp only [List.map_cons, List.contains_cons, Bool.or_eq_false_iff] at hk
    have hne : (k' == k) = false := by
      have h1 := hk.1
      simp only [beq_eq_false_iff_ne, ne_eq] at h1 ⊢
      exact fun e => h1 e.symm
    simp only [J.getKey, hne, Bool.false_eq_true, if_false]
    exact getKey_none_of_not_contains rest k hk.2

theorem mem_setKeySlot (kw : List (String × J)) (k : String) (v : J) (a : Atom)
    (hk : (kw.map (·.1)).contains k = false) (h : a ∈ jAtomsK kw ∨ a ∈ jAtoms v) : a ∈ jAtomsK (setKeySlot kw k v) := by
  unfold setKeySlot
  rw [getKey_none_of_not_contains kw k hk]
  exact mem_setKey kw k v a hk h

theorem mem_jAtomsK_append (a : Atom) : ∀ (xs ys : List (String × J)), a ∈ jAtomsK (xs ++ ys) ↔ (a ∈ jAtomsK xs ∨ a ∈ jAtomsK ys)
  | [], ys => by simp [jAtomsK]
  | (k, v) :: xs, ys => by
    simp only [List.cons_append, jAtomsK, List.mem_append, mem_jAtomsK_append a xs ys]
    constructor
    · rintro (h | h | h)
      · exact Or.inl (Or.inl h)
      · exact Or.inl (Or.inr h)
      · exact Or.inr h
    · rintro ((h | h) | h)
      · exact Or.inl h
      · exact Or.inr (Or.inl h)
      · exact Or.inr (Or.inr h)

theorem jAtomsL_listwrap (j : J) : jAtomsL (listwrap j) = jAtoms j := by
  cases j <;> simp [listwrap, jAtomsL, jAtoms]

/-- the call node keeps the content of its arguments and of its keyword arguments -/
theorem mem_applyOp (c : Cfg) (op : String) (aj : J) (kw : List (String × J)) (a : Atom)
    (hk : (kw.map (·.1)).contains (c.rename op) = false) (h : a ∈ jAtoms aj ∨ a ∈ jAtomsK kw) :
    a ∈ jAtoms (applyOp c op aj kw) := by
  unfold applyOp
  cases hm : c.mode with
  | simple =>
    simp only
    cases aj with
    | marker s =>
      simp only [jAtoms]
      rcases h with h | h
      · simp [jAtoms] at h
      · exact mem_setKey kw _ _ a hk (Or.inl h)
    | null =>
      simp only [jAtoms]
      rcases h with h | h
      · simp [jAtoms] at h
      · exact mem_setKeySlot kw _ _ a hk (Or.inl h)
    | bool x => simp only [jAtoms]; exact mem_setKeySlot kw _ _ a hk (h.symm)
    | int x => simp only [jAtoms]; exact mem_setKeySlot kw _ _ a hk (h.symm)
    | flt x => simp only [jAtoms]; exact mem_setKeySlot kw _ _ a hk (h.symm)
    | str x => simp only [jAtoms]; exact mem_setKeySlot kw _ _ a hk (h.symm)
    | arr xs => simp only [jAtoms]; exact mem_setKeySlot kw _ _ a hk (h.symm)
    | obj kvs => simp only [jAtoms]; exact mem_setKeySlot kw _ _ a hk (h.symm)
    | «opaque» w => simp only [jAtoms]; exact mem_setKeySlot kw _ _ a hk (h.symm)
  | normal =>
    simp only
    by_cases hmk : aj.isMarker = true
    · -- the argument is the NULL placeholder: it has no content; the keyword arguments stay
      have ha : jAtoms aj = [] := by cases aj <;> simp [J.isMarker] at hmk <;> simp [jAtoms]
      rcases h with h | h
      · simp [ha] at h
      · simp only [hmk, if_true, jAtoms, mem_jAtomsK_append]
        right
        have hke' : kw.isEmpty = false := by
          cases kw with
          | nil => simp [jAtomsK] at h
          | cons _ _ => rfl
        have hs := mem_setKey kw (c.rename op) (.marker true) a hk (Or.inl h)
        have hne : (J.setKey kw (c.rename op) (.marker true)).isEmpty = false := by
          cases kw with
          | nil => simp at hke'
          | cons p rest =>
            obtain ⟨k0, v0⟩ := p
            simp only [J.setKey]
            split <;> rfl
        simp only [hke', Bool.false_eq_true, if_false, hne, jAtomsK, jAtoms, List.append_nil]
        exact hs
    · have hmk' : aj.isMarker = false := by simpa using hmk
      simp only [hmk', Bool.false_eq_true, if_false, jAtoms, mem_jAtomsK_append]
      rcases h with h | h
      · have hl : a ∈ jAtomsL (listwrap aj) := by rw [jAtomsL_listwrap]; exact h
        left; right
        cases hlw : listwrap aj with
        | nil => simp [hlw, jAtomsL] at hl
        | cons x xs =>
          rw [hlw] at hl
          simp only [jAtomsK, jAtoms, List.append_nil]
          exact hl
      · right
        have hke : kw.isEmpty = false := by
          cases kw with
          | nil => simp [jAtomsK] at h
          | cons _ _ => rfl
        simp only [hke, Bool.false_eq_true, if_false, jAtomsK, jAtoms, List.append_nil]
        exact h

theorem keys_scrubKw (c : Cfg) : ∀ (kvs : List (String × Raw)) (k : String),
    (kvs.map (·.1)).contains k = false → ((scrubKw c kvs).map (·.1)).contains k = false
  | [], _, _ => rfl
  | (k', r) :: rest, k, h => by
    simp only [List.map_cons, List.contains_cons, Bool.or_eq_false_iff] at h
    simp only [scrubKw]
    split
    · exact keys_scrubKw c rest k h.2
    · simp only [List.map_cons, List.contains_cons, Bool.or_eq_false_iff]
      exact ⟨h.1, keys_scrubKw c rest k h.2⟩

mutual
theorem scrub_keeps_atoms (c : Cfg) : ∀ (r : Raw), noClash c r = true → ∀ a ∈ rAtoms r, a ∈ jAtoms (scrub c r)
  | .none, _, a, h => by simp [rAtoms] at h
  | .str _, _, a, h => by simpa [rAtoms, scrub, jAtoms] using h
  | .int _, _, a, h => by simpa [rAtoms, scrub, jAtoms] using h
  | .flt _, _, a, h => by simpa [rAtoms, scrub, jAtoms] using h
  | .bool _, _, a, h => by simpa [rAtoms, scrub, jAtoms] using h
  | .sqlNull, _, a, h => by simp [rAtoms] at h
  | .crash _, _, a, h => by simp [rAtoms] at h
  | .call op args kw, hc, a, h => by
    simp only [noClash, Bool.and_eq_true, Bool.not_eq_true'] at hc
    simp only [rAtoms, List.mem_append] at h
    simp only [scrub]
    refine mem_applyOp c op _ _ a (keys_scrubKw c kw _ hc.1.1) ?_
    rcases h with h | h
    · exact Or.inl (scrub_keeps_atoms c args hc.1.2 a h)
    · exact Or.inr (scrubKw_keeps_atoms c kw hc.2 a h)
  | .list xs, hc, a, h => by
    simp only [noClash] at hc
    simp only [rAtoms] at h
    simp only [scrub]
    exact mem_collapse _ a (scrubList_keeps_atoms c xs hc a h)
  | .grp r, hc, a, h => by
    simp only [noClash] at hc
    simp only [rAtoms] at h
    simp only [scrub]
    refine mem_collapse _ a ?_
    simpa [jAtomsL] using scrub_keeps_atoms c r hc a h
  | .dict kvs, hc, a, h => by
    simp only [noClash] at hc
    simp only [rAtoms] at h
    simp only [scrub, jAtoms]
    exact scrubKw_keeps_atoms c kvs hc a h
theorem scrubList_keeps_atoms (c : Cfg) : ∀ (rs : List Raw), noClashL c rs = true → ∀ a ∈ rAtomsL rs, a ∈ jAtomsL (scrubList c rs)
  | [], _, a, h => by simp [rAtomsL] at h
  | r :: rs, hc, a, h => by
    simp only [noClashL, Bool.and_eq_true] at hc
    simp only [rAtomsL, List.mem_append] at h
    simp only [scrubList, jAtomsL, List.mem_append]
    rcases h with h | h
    · exact Or.inl (scrub_keeps_atoms c r hc.1 a h)
    · exact Or.inr (scrubList_keeps_atoms c rs hc.2 a h)
theorem scrubKw_keeps_atoms (c : Cfg) : ∀ (kvs : List (String × Raw)), noClashK c kvs = true → ∀ a ∈ rAtomsK kvs, a ∈ jAtomsK (scrubKw c kvs)
  | [], _, a, h => by simp [rAtomsK] at h
  | (k, r) :: rest, hc, a, h => by
    simp only [noClashK, Bool.and_eq_true] at hc
    simp only [rAtomsK, List.mem_append] at h
    simp only [scrubKw]
    split
    · rename_i hn
      rcases h with h | h
      · have := scrub_keeps_atoms c r hc.1 a h
        rw [jAtoms_null_of_isNull hn] at this
        simp at this
      · exact scrubKw_keeps_atoms c rest hc.2 a h
    · simp only [jAtomsK, jAtoms_mark, List.mem_append]
      rcases h with h | h
      · exact Or.inl (scrub_keeps_atoms c r hc.1 a h)
      · exact Or.inr (scrubKw_keeps_atoms c rest hc.2 a h)
end

end MoSql.Scrub
