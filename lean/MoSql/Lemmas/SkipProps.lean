import MoSql.Skip
namespace MoSql.Skip

theorem go_N_white (c : Char) (r : List Char) (h : isWhite c = true) : go .N (c :: r) = go .N r := by
  cases r with
  | nil => simp [go, h]
  | cons c2 cs => simp [go, h]

theorem go_N_hash (r : List Char) : go .N ('#' :: r) = go .L r := by
  cases r with
  | nil => simp [go, isWhite]
  | cons c2 cs => simp [go, isWhite]

theorem go_N_dash (r : List Char) : go .N ('-' :: '-' :: r) = go .L r := by
  simp [go, isWhite]

theorem go_N_block_some (r x : List Char) (h : go .B r = some x) : go .N ('/' :: '*' :: r) = some x := by
  simp [go, isWhite, h]

theorem go_N_block_none (r : List Char) (h : go .B r = none) :
    go .N ('/' :: '*' :: r) = some ('/' :: '*' :: r) := by
  simp [go, isWhite, h]

theorem go_L_line (r : List Char) : ∀ body : List Char, (∀ c ∈ body, c ≠ '\n') →
    go .L (body ++ '\n' :: r) = go .N r
  | [], _ => by simp [go]
  | c :: body, h => by
    have hc : c ≠ '\n' := h c List.mem_cons_self
    have ih := go_L_line r body (fun x hx => h x (List.mem_cons_of_mem _ hx))
    simp [go, hc, ih]

/-- no `*/` inside the comment body, and the body does not end in `*` … followed by the closing `*/`
that would be read as `*` `/`: stated on the body together with the first closing character -/
def noClose : List Char → Bool
  | [] => true
  | [_] => true
  | c :: c2 :: cs => !(c == '*' && c2 == '/') && noClose (c2 :: cs)

theorem go_B_block (r : List Char) : ∀ body : List Char, noClose (body ++ ['*']) = true →
    go .B (body ++ '*' :: '/' :: r) = go .N r
  | [], _ => by simp [go]
  | [c], h => by
    have hc : ¬ (c = '*' ∧ '*' = '/') := by simp
    simp only [List.cons_append, List.nil_append]
    have : (c == '*' && '*' == '/') = false := by simp
    rw [go, this]; simp [go]
  | c :: c2 :: body, h => by
    simp only [List.cons_append, noClose, Bool.and_eq_true, Bool.not_eq_true'] at h
    have ih := go_B_block r (c2 :: body) (by simpa using h.2)
    simp only [List.cons_append] at ih ⊢
    rw [go, h.1]; simpa using ih

/-- text that the comment-aware engine skips entirely: white characters and terminated comments -/
inductive Filler : List Char → Prop where
  | nil : Filler []
  | white (c : Char) (f : List Char) : isWhite c = true → Filler f → Filler (c :: f)
  | dash (body f : List Char) : (∀ c ∈ body, c ≠ '\n') → Filler f → Filler ('-' :: '-' :: (body ++ '\n' :: f))
  | hash (body f : List Char) : (∀ c ∈ body, c ≠ '\n') → Filler f → Filler ('#' :: (body ++ '\n' :: f))
  | block (body f : List Char) : noClose (body ++ ['*']) = true → Filler f →
      Filler ('/' :: '*' :: (body ++ '*' :: '/' :: f))

theorem go_some : ∀ (n : Nat) (cs : List Char), cs.length ≤ n →
    (∃ r, go .N cs = some r) ∧ (∃ r, go .L cs = some r)
  | 0, cs, h => by
    have : cs = [] := List.eq_nil_of_length_eq_zero (Nat.le_zero.mp h)
    subst this; exact ⟨⟨[], by simp [go]⟩, ⟨[], by simp [go]⟩⟩
  | n + 1, [], _ => ⟨⟨[], by simp [go]⟩, ⟨[], by simp [go]⟩⟩
  | n + 1, [c], _ => by
    refine ⟨?_, ?_⟩
    · by_cases h : (isWhite c || c == '#') = true <;> simp [go, h]
    · by_cases h : (c == '\n') = true <;> simp [go, h]
  | n + 1, c :: c2 :: cs, h => by
    have hl : (c2 :: cs).length ≤ n := by simp at h ⊢; omega
    have hl' : cs.length ≤ n := by simp at hl; omega
    obtain ⟨⟨rN, hN⟩, ⟨rL, hL⟩⟩ := go_some n (c2 :: cs) hl
    obtain ⟨⟨rN', hN'⟩, ⟨rL', hL'⟩⟩ := go_some n cs hl'
    refine ⟨?_, ?_⟩
    · rw [go]
      by_cases hw : isWhite c = true
      · simp [hw, hN]
      · by_cases hh : (c == '#') = true
        · simp [hw, hh, hL]
        · by_cases hd : (c == '-' && c2 == '-') = true
          · simp [hw, hh, hd, hL']
          · by_cases hs : (c == '/' && c2 == '*') = true
            · simp only [hw, hh, hd, hs, Bool.false_eq_true, if_false, if_true]
              cases go .B cs <;> simp
            · simp [hw, hh, hd, hs]
    · rw [go]
      by_cases hn : (c == '\n') = true
      · simp [hn, hN]
      · simp [hn, hL]

theorem goN_some (cs : List Char) : ∃ r, go .N cs = some r := (go_some cs.length cs (Nat.le_refl _)).1

/-- the engine skips a whole filler, whatever follows -/
theorem go_filler (r : List Char) : ∀ f : List Char, Filler f → go .N (f ++ r) = go .N r := by
  intro f hf
  induction hf with
  | nil => rfl
  | white c f hw _ ih => rw [List.cons_append, go_N_white _ _ hw, ih]
  | dash body f hb _ ih =>
    have e : ('-' :: '-' :: (body ++ '\n' :: f)) ++ r = '-' :: '-' :: (body ++ '\n' :: (f ++ r)) := by simp
    rw [e, go_N_dash, go_L_line _ body hb, ih]
  | hash body f hb _ ih =>
    have e : ('#' :: (body ++ '\n' :: f)) ++ r = '#' :: (body ++ '\n' :: (f ++ r)) := by simp
    rw [e, go_N_hash, go_L_line _ body hb, ih]
  | block body f hb _ ih =>
    obtain ⟨x, hx⟩ := goN_some r
    have e : ('/' :: '*' :: (body ++ '*' :: '/' :: f)) ++ r = '/' :: '*' :: (body ++ '*' :: '/' :: (f ++ r)) := by simp
    rw [e, go_N_block_some _ x (by rw [go_B_block _ body hb, ih, hx]), hx]

theorem skip_filler (f r : List Char) (hf : Filler f) : skip (f ++ r) = skip r := by
  obtain ⟨x, hx⟩ := goN_some r
  simp [skip, goN, go_filler r f hf, hx]

/-- the first character of the rest cannot begin a filler -/
def stopsHere : List Char → Bool
  | [] => true
  | c :: cs =>
    !isWhite c && c != '#' &&
    !(c == '-' && cs.head? == some '-') && !(c == '/' && cs.head? == some '*')

theorem skip_stops (r : List Char) (h : stopsHere r = true) : skip r = r := by
  match r, h with
  | [], _ => simp [skip, goN, go]
  | [c], h =>
    simp only [stopsHere, Bool.and_eq_true, Bool.not_eq_true', bne_iff_ne, ne_eq] at h
    have hh : (c == '#') = false := by simpa using h.1.1.2
    simp [skip, goN, go, h.1.1.1, hh]
  | c :: c2 :: cs, h =>
    simp only [stopsHere, List.head?_cons, Bool.and_eq_true, Bool.not_eq_true', bne_iff_ne, ne_eq] at h
    obtain ⟨⟨⟨hw, hh⟩, hd⟩, hs⟩ := h
    have hh' : (c == '#') = false := by simpa using hh
    have hd' : (c == '-' && c2 == '-') = false := by
      cases h1 : (c == '-') <;> simp_all
    have hs' : (c == '/' && c2 == '*') = false := by
      cases h1 : (c == '/') <;> simp_all
    simp [skip, goN, go, hw, hh', hd', hs']

/-- after skipping, nothing more is skipped (skipping is idempotent) unless … nothing: it always is -/
theorem skip_stops_at_block (r : List Char) (h : go .B r = none) :
    skip ('/' :: '*' :: r) = '/' :: '*' :: r := by
  simp [skip, goN, go_N_block_none r h]

/-- the engine only ever moves forward: what is left is never longer than the text -/
theorem go_le : ∀ (m : Mode) (x r : List Char), go m x = some r → r.length ≤ x.length := by
  intro m x
  fun_induction go m x <;> intro r h <;> simp_all
  all_goals (try omega)

theorem skip_le (x : List Char) : (skip x).length ≤ x.length := by
  unfold skip goN
  cases h : go .N x with
  | none => simp
  | some r => simpa using go_le .N x r h

end MoSql.Skip
