import MoSql.ManyCommand
namespace MoSql.ManyCommand
variable {S : Type}

theorem go_semis (b : Bool) (n : Nat) (hn : 0 < n) (ts : List (Tk S)) : go b (semis n ++ ts) = go false ts := by
  induction n generalizing b with
  | zero => omega
  | succ k ih =>
    cases k with
    | zero => simp [semis, go]
    | succ j =>
      have := ih false (by omega)
      simp only [semis, List.replicate_succ, List.cons_append, go] at this ⊢
      exact this

theorem go_semis0 (n : Nat) (ts : List (Tk S)) : go false (semis n ++ ts) = go false ts := by
  cases n with
  | zero => simp [semis]
  | succ k => exact go_semis false (k + 1) (by omega) ts

theorem go_body : ∀ (xs : List (S × Nat)), separated xs = true → go false (body xs) = some (xs.map (·.1))
  | [], _ => rfl
  | [(s, n)], _ => by
    simp only [body, List.append_nil, go, List.map]
    cases n with
    | zero => simp [semis, go]
    | succ k =>
      have := go_semis (S := S) true (k + 1) (by omega) []
      simp only [List.append_nil] at this
      rw [this]; simp [go]
  | (s, n) :: (s2, n2) :: rest, h => by
    simp only [separated, Bool.and_eq_true, decide_eq_true_eq] at h
    have ih := go_body ((s2, n2) :: rest) h.2
    have e : body ((s, n) :: (s2, n2) :: rest) = Tk.stmt s :: (semis n ++ body ((s2, n2) :: rest)) := rfl
    rw [e]
    simp only [go]
    rw [go_semis true n h.1, ih]
    rfl

end MoSql.ManyCommand
