import MoSql.Scrub
/-! Facts about the model of `scrub` / `null_locations` that hold for EVERY raw tree. -/
namespace MoSql.Scrub
open MoSql

/-! ### null substitution -/

def isNullNode : J → Bool
  | .obj [("null", .obj [])] => true
  | _ => false

mutual
def substNull (x : J) : J → J
  | .obj kvs => if isNullNode (.obj kvs) then x else .obj (substKvs x kvs)
  | .arr xs => .arr (substList x xs)
  | j => j
def substList (x : J) : List J → List J
  | [] => []
  | j :: js => substNull x j :: substList x js
def substKvs (x : J) : List (String × J) → List (String × J)
  | [] => []
  | (k, j) :: rest => (k, substNull x j) :: substKvs x rest
end

mutual
def noNullNode : J → Bool
  | .obj kvs => !isNullNode (.obj kvs) && noNullKvs kvs
  | .arr xs => noNullList xs
  | _ => true
def noNullList : List J → Bool
  | [] => true
  | j :: js => noNullNode j && noNullList js
def noNullKvs : List (String × J) → Bool
  | [] => true
  | (_, j) :: rest => noNullNode j && noNullKvs rest
end

theorem finalize_obj_empty (x : J) (hx : x = sqlNullNode) :
    ∀ j : J, finalize x j = .obj [] → j = .obj []
  | .marker true, h => by subst hx; simp [finalize, sqlNullNode] at h
  | .marker false, h => by simp [finalize] at h
  | .arr xs, h => by simp [finalize] at h
  | .obj [], _ => rfl
  | .obj ((k, v) :: rest), h => by simp [finalize, finalizeKvs] at h
  | .null, h => by simp [finalize] at h
  | .bool _, h => by simp [finalize] at h
  | .int _, h => by simp [finalize] at h
  | .flt _, h => by simp [finalize] at h
  | .str _, h => by simp [finalize] at h
  | .opaque _, h => by simp [finalize] at h

theorem isNullNode_finalize (kvs : List (String × J)) (h : isNullNode (.obj kvs) = false) :
    isNullNode (.obj (finalizeKvs sqlNullNode kvs)) = false := by
  match kvs, h with
  | [], _ => rfl
  | [(k, v)], h =>
    cases hf : isNullNode (.obj (finalizeKvs sqlNullNode [(k, v)])) with
    | false => rfl
    | true =>
      exfalso
      simp only [finalizeKvs] at hf
      by_cases hk : k = "null"
      · subst hk
        have hv : finalize sqlNullNode v = .obj [] := by
          cases hfv : finalize sqlNullNode v with
          | obj l => cases l with
            | nil => rfl
            | cons a b => simp [isNullNode, hfv] at hf
          | _ => simp [isNullNode, hfv] at hf
        have := finalize_obj_empty sqlNullNode rfl v hv
        subst this
        simp [isNullNode] at h
      · unfold isNullNode at hf
        split at hf
        · rename_i heq
          simp at heq
          exact hk heq.1
        · cases hf
  | (k1, v1) :: (k2, v2) :: rest, _ => simp [finalizeKvs, isNullNode]

mutual
theorem finalize_subst (x : J) : ∀ j : J, noNullNode j = true →
    finalize x j = substNull x (finalize sqlNullNode j)
  | .marker true, _ => by simp [finalize, substNull, sqlNullNode, isNullNode]
  | .marker false, _ => by simp [finalize, substNull]
  | .arr xs, h => by
    simp only [noNullNode] at h
    simp [finalize, substNull, finalizeList_subst x xs h]
  | .obj kvs, h => by
    simp only [noNullNode, Bool.and_eq_true, Bool.not_eq_true'] at h
    have h1 := isNullNode_finalize kvs h.1
    simp only [finalize, substNull, h1, Bool.false_eq_true, if_false]
    rw [finalizeKvs_subst x kvs h.2]
  | .null, _ => by simp [finalize, substNull]
  | .bool _, _ => by simp [finalize, substNull]
  | .int _, _ => by simp [finalize, substNull]
  | .flt _, _ => by simp [finalize, substNull]
  | .str _, _ => by simp [finalize, substNull]
  | .opaque _, _ => by simp [finalize, substNull]
theorem finalizeList_subst (x : J) : ∀ js : List J, noNullList js = true →
    finalizeList x js = substList x (finalizeList sqlNullNode js)
  | [], _ => rfl
  | j :: js, h => by
    simp only [noNullList, Bool.and_eq_true] at h
    simp [finalizeList, substList, finalize_subst x j h.1, finalizeList_subst x js h.2]
theorem finalizeKvs_subst (x : J) : ∀ kvs : List (String × J), noNullKvs kvs = true →
    finalizeKvs x kvs = substKvs x (finalizeKvs sqlNullNode kvs)
  | [], _ => rfl
  | (k, j) :: rest, h => by
    simp only [noNullKvs, Bool.and_eq_true] at h
    simp [finalizeKvs, substKvs, finalize_subst x j h.1, finalizeKvs_subst x rest h.2]
end

end MoSql.Scrub

namespace MoSql.Scrub
open MoSql

/-! ### shape of the result under `simple_op` (the default `calls=`) -/

mutual
/-- simplified form, and every NULL placeholder sits in a recorded slot: no leaked `Call`,
no list with fewer than two elements, no `None` inside a list or as a dict value -/
def wellShaped : J → Bool
  | .arr xs => decide (2 ≤ xs.length) && wsList xs
  | .obj kvs => wsKvs kvs
  | .marker b => b
  | .opaque _ => false
  | _ => true
def wsList : List J → Bool
  | [] => true
  | j :: js => !j.isNull && wellShaped j && wsList js
def wsKvs : List (String × J) → Bool
  | [] => true
  | (_, j) :: rest => !j.isNull && wellShaped j && wsKvs rest
end

/-- what `scrub` may return to its caller: a well-shaped value, or the bare placeholder (whose
slot the caller records) -/
def wsOrBare (j : J) : Bool := j.isMarker || wellShaped j

mutual
def noCrash : Raw → Bool
  | .crash _ => false
  | .call _ args kw => noCrash args && noCrashKw kw
  | .list xs => noCrashList xs
  | .grp r => noCrash r
  | .dict kvs => noCrashKw kvs
  | _ => true
def noCrashList : List Raw → Bool
  | [] => true
  | r :: rs => noCrash r && noCrashList rs
def noCrashKw : List (String × Raw) → Bool
  | [] => true
  | (_, r) :: rest => noCrash r && noCrashKw rest
end

theorem ws_mark {j : J} (h : wsOrBare j = true) : wellShaped (mark j) = true := by
  cases j <;> simp_all [wsOrBare, mark, wellShaped, J.isMarker]

theorem mark_isNull (j : J) : (mark j).isNull = j.isNull := by
  cases j <;> rfl

theorem wsList_map_mark : ∀ ys : List J, (∀ y ∈ ys, wsOrBare y = true ∧ y.isNull = false) →
    wsList (ys.map mark) = true
  | [], _ => rfl
  | y :: ys, h => by
    have hy := h y (List.mem_cons_self)
    simp only [List.map, wsList, Bool.and_eq_true, Bool.not_eq_true', mark_isNull]
    exact ⟨⟨hy.2, ws_mark hy.1⟩, wsList_map_mark ys (fun z hz => h z (List.mem_cons_of_mem _ hz))⟩

theorem ws_collapse' : ∀ ys : List J, (∀ y ∈ ys, wsOrBare y = true ∧ y.isNull = false) →
    wsOrBare (match ys with
      | [] => J.null
      | [x] => x
      | ys => J.arr (ys.map mark)) = true
  | [], _ => by simp [wsOrBare, wellShaped]
  | [x], h => (h x List.mem_cons_self).1
  | x :: y :: rest, h => by
    simp only [wsOrBare, wellShaped, J.isMarker, Bool.false_or, Bool.and_eq_true, decide_eq_true_eq]
    exact ⟨by simp, wsList_map_mark _ h⟩

theorem ws_collapse (xs : List J) (h : ∀ x ∈ xs, wsOrBare x = true) : wsOrBare (collapse xs) = true := by
  unfold collapse
  refine ws_collapse' _ ?_
  intro y hy
  have := List.mem_filter.mp hy
  exact ⟨h y this.1, by simpa using this.2⟩

theorem wsKvs_setKey : ∀ (kw : List (String × J)) (k : String) (v : J), wsKvs kw = true →
    v.isNull = false → wellShaped v = true → wsKvs (J.setKey kw k v) = true
  | [], k, v, _, hn, hv => by simp [J.setKey, wsKvs, hn, hv]
  | (k', v') :: rest, k, v, h, hn, hv => by
    simp only [wsKvs, Bool.and_eq_true, Bool.not_eq_true'] at h
    unfold J.setKey
    split
    · simp [wsKvs, hn, hv, h.2]
    · simp only [wsKvs, Bool.and_eq_true, Bool.not_eq_true']
      exact ⟨h.1, wsKvs_setKey rest k v h.2 hn hv⟩

theorem wsKvs_setKeySlot (kw : List (String × J)) (k : String) (v : J) (h : wsKvs kw = true)
    (hn : v.isNull = false) (hv : wellShaped v = true) : wsKvs (setKeySlot kw k v) = true := by
  unfold setKeySlot
  split
  · exact h
  · exact wsKvs_setKey kw k v h hn hv

theorem ws_applyOp_simple (c : Cfg) (hc : c.mode = Mode.simple) (op : String) (a : J)
    (kw : List (String × J)) (ha : wsOrBare a = true) (hk : wsKvs kw = true) :
    wellShaped (applyOp c op a kw) = true := by
  unfold applyOp
  simp only [hc]
  match a, ha with
  | .marker b, _ => simp only [wellShaped]; exact wsKvs_setKey kw _ _ hk rfl rfl
  | .null, _ => simp only [wellShaped]; exact wsKvs_setKeySlot kw _ _ hk rfl rfl
  | .bool b, _ => simp only [wellShaped]; exact wsKvs_setKeySlot kw _ _ hk rfl rfl
  | .int i, _ => simp only [wellShaped]; exact wsKvs_setKeySlot kw _ _ hk rfl rfl
  | .flt s, _ => simp only [wellShaped]; exact wsKvs_setKeySlot kw _ _ hk rfl rfl
  | .str s, _ => simp only [wellShaped]; exact wsKvs_setKeySlot kw _ _ hk rfl rfl
  | .arr xs, ha =>
    simp only [wellShaped]
    exact wsKvs_setKeySlot kw _ _ hk rfl (by simpa [wsOrBare, J.isMarker] using ha)
  | .obj kvs, ha =>
    simp only [wellShaped]
    exact wsKvs_setKeySlot kw _ _ hk rfl (by simpa [wsOrBare, J.isMarker] using ha)
  | .opaque w, ha => simp [wsOrBare, J.isMarker, wellShaped] at ha

mutual
theorem ws_scrub (c : Cfg) (hc : c.mode = Mode.simple) : ∀ r : Raw, noCrash r = true →
    wsOrBare (scrub c r) = true
  | .none, _ => by simp [scrub, wsOrBare, wellShaped]
  | .str _, _ => by simp [scrub, wsOrBare, wellShaped]
  | .int _, _ => by simp [scrub, wsOrBare, wellShaped]
  | .flt _, _ => by simp [scrub, wsOrBare, wellShaped]
  | .bool _, _ => by simp [scrub, wsOrBare, wellShaped]
  | .sqlNull, _ => by simp [scrub, wsOrBare, J.isMarker]
  | .crash _, h => by simp [noCrash] at h
  | .call op args kw, h => by
    simp only [noCrash, Bool.and_eq_true] at h
    simp only [scrub, wsOrBare, Bool.or_eq_true]
    right
    exact ws_applyOp_simple c hc op _ _ (ws_scrub c hc args h.1) (ws_scrubKw c hc kw h.2)
  | .list xs, h => by
    simp only [noCrash] at h
    simp only [scrub]
    exact ws_collapse _ (ws_scrubList c hc xs h)
  | .grp r, h => by
    simp only [noCrash] at h
    simp only [scrub]
    refine ws_collapse _ ?_
    intro x hx
    simp only [List.mem_singleton] at hx
    subst hx
    exact ws_scrub c hc r h
  | .dict kvs, h => by
    simp only [noCrash] at h
    simp only [scrub, wsOrBare, Bool.or_eq_true]
    right
    simpa [wellShaped] using ws_scrubKw c hc kvs h
theorem ws_scrubList (c : Cfg) (hc : c.mode = Mode.simple) : ∀ rs : List Raw, noCrashList rs = true →
    ∀ x ∈ scrubList c rs, wsOrBare x = true
  | [], _ => by simp [scrubList]
  | r :: rs, h => by
    simp only [noCrashList, Bool.and_eq_true] at h
    intro x hx
    simp only [scrubList, List.mem_cons] at hx
    rcases hx with hx | hx
    · subst hx; exact ws_scrub c hc r h.1
    · exact ws_scrubList c hc rs h.2 x hx
theorem ws_scrubKw (c : Cfg) (hc : c.mode = Mode.simple) : ∀ kvs : List (String × Raw),
    noCrashKw kvs = true → wsKvs (scrubKw c kvs) = true
  | [], _ => rfl
  | (k, r) :: rest, h => by
    simp only [noCrashKw, Bool.and_eq_true] at h
    simp only [scrubKw]
    split
    · exact ws_scrubKw c hc rest h.2
    · rename_i hn
      simp only [wsKvs, Bool.and_eq_true, Bool.not_eq_true', mark_isNull]
      exact ⟨⟨by simpa using hn, ws_mark (ws_scrub c hc r h.1)⟩, ws_scrubKw c hc rest h.2⟩
end

end MoSql.Scrub

namespace MoSql.Scrub
open MoSql

/-! ### after substitution nothing internal is left -/
mutual
/-- no library-internal object and no unsubstituted placeholder anywhere -/
def noInternal : J → Bool
  | .arr xs => noInternalList xs
  | .obj kvs => noInternalKvs kvs
  | .marker _ => false
  | .opaque _ => false
  | _ => true
def noInternalList : List J → Bool
  | [] => true
  | j :: js => noInternal j && noInternalList js
def noInternalKvs : List (String × J) → Bool
  | [] => true
  | (_, j) :: rest => noInternal j && noInternalKvs rest
end

mutual
theorem noInternal_finalize (x : J) (hx : noInternal x = true) : ∀ j : J, wellShaped j = true →
    noInternal (finalize x j) = true
  | .marker true, _ => by simpa [finalize] using hx
  | .marker false, h => by simp [wellShaped] at h
  | .opaque _, h => by simp [wellShaped] at h
  | .arr xs, h => by
    simp only [wellShaped, Bool.and_eq_true] at h
    simpa [finalize, noInternal] using noInternal_finalizeList x hx xs h.2
  | .obj kvs, h => by
    simp only [wellShaped] at h
    simpa [finalize, noInternal] using noInternal_finalizeKvs x hx kvs h
  | .null, _ => by simp [finalize, noInternal]
  | .bool _, _ => by simp [finalize, noInternal]
  | .int _, _ => by simp [finalize, noInternal]
  | .flt _, _ => by simp [finalize, noInternal]
  | .str _, _ => by simp [finalize, noInternal]
theorem noInternal_finalizeList (x : J) (hx : noInternal x = true) : ∀ js : List J, wsList js = true →
    noInternalList (finalizeList x js) = true
  | [], _ => rfl
  | j :: js, h => by
    simp only [wsList, Bool.and_eq_true] at h
    simp [finalizeList, noInternalList, noInternal_finalize x hx j h.1.2, noInternal_finalizeList x hx js h.2]
theorem noInternal_finalizeKvs (x : J) (hx : noInternal x = true) : ∀ kvs : List (String × J),
    wsKvs kvs = true → noInternalKvs (finalizeKvs x kvs) = true
  | [], _ => rfl
  | (k, j) :: rest, h => by
    simp only [wsKvs, Bool.and_eq_true] at h
    simp [finalizeKvs, noInternalKvs, noInternal_finalize x hx j h.1.2, noInternal_finalizeKvs x hx rest h.2]
end

/-- shape of a node written by `normal_op` -/
def normalShape : J → Bool
  | .obj (("op", .str _) :: rest) =>
    match rest with
    | [] => true
    | [("args", .arr (_ :: _))] => true
    | [("kwargs", .obj (_ :: _))] => true
    | [("args", .arr (_ :: _)), ("kwargs", .obj (_ :: _))] => true
    | _ => false
  | _ => false

theorem setKey_ne_nil (kw : List (String × J)) (k : String) (v : J) : J.setKey kw k v ≠ [] := by
  cases kw with
  | nil => simp [J.setKey]
  | cons a b =>
    obtain ⟨k', v'⟩ := a
    unfold J.setKey
    split <;> simp

end MoSql.Scrub
