import MoSql.Lemmas.PegGap
/-!
A concrete instance of the gap hypotheses (`GapHyp`), to show they can be met by a non-trivial grammar and text:
`select a<gap>, b` with the gap filled by a blank or by a block comment and a line break.
-/
namespace MoSql.Peg.Example
open MoSql.Peg

def tSel : Term := .kw "select".toList true
def tId : Term := .word [('a', 'z')] [('a', 'z')]
def tComma : Term := .lit [','] false

/-- `SELECT name (, name)*` with the comment-aware engine everywhere -/
def g : G := .seq 2 [.term tSel, .term tId, .many 2 (.seq 2 [.term tComma, .term tId]) 0 1000]

def E : Env := { skip := fun ws x => if ws = 2 then Skip.skip x else x, rule := fun _ => .empty }
def P (t : Term) : Bool := decide (t = tSel ∨ t = tId ∨ t = tComma)
def Q (ws : Nat) : Bool := ws == 2

def pre : Str := "select a".toList
def f : Str := " ".toList
def f' : Str := "/*c*/\n".toList
def post : Str := ", b".toList

def goodC (u : Str) : Prop := u = pre ∨ u = "a".toList
def goodE (u : Str) : Prop := u = pre ∨ u = " a".toList ∨ u = "a".toList ∨ u = []

theorem hyp : GapHyp E f f' post goodC goodE P Q where
  f_ne := by decide
  f'_ne := by decide
  c_e := by
    intro u hu
    rcases hu with h | h
    · exact Or.inl h
    · exact Or.inr (Or.inr (Or.inl h))
  skip_le := by
    intro ws _ x
    simp only [E]
    split
    · exact Skip.skip_le x
    · exact Nat.le_refl _
  skip_gap := by
    intro ws hws u hu
    have : ws = 2 := by simpa [Q] using hws
    subst this
    rcases hu with h | h | h | h <;> subst h
    · exact Or.inl ⟨pre, Or.inl rfl, by decide, by decide⟩
    · exact Or.inl ⟨"a".toList, Or.inr rfl, by decide, by decide⟩
    · exact Or.inl ⟨"a".toList, Or.inr rfl, by decide, by decide⟩
    · exact Or.inr ⟨by decide, by decide⟩
  term_gap := by
    intro t ht u hu
    have ht' : t = tSel ∨ t = tId ∨ t = tComma := of_decide_eq_true ht
    rcases hu with h | h <;> subst h <;> rcases ht' with h | h | h <;> subst h
    · -- `select` in front of " a…"
      show TermRel _ (some ("select".toList, " a".toList ++ (f ++ post))) (some ("select".toList, " a".toList ++ (f' ++ post)))
      exact ⟨rfl, Or.inl ⟨" a".toList, Or.inr (Or.inl rfl), rfl, rfl⟩⟩
    · show TermRel _ (some ("select".toList, " a".toList ++ (f ++ post))) (some ("select".toList, " a".toList ++ (f' ++ post)))
      exact ⟨rfl, Or.inl ⟨" a".toList, Or.inr (Or.inl rfl), rfl, rfl⟩⟩
    · show TermRel _ none none
      trivial
    · show TermRel _ none none
      trivial
    · show TermRel _ (some ("a".toList, [] ++ (f ++ post))) (some ("a".toList, [] ++ (f' ++ post)))
      exact ⟨rfl, Or.inl ⟨[], Or.inr (Or.inr (Or.inr rfl)), rfl, rfl⟩⟩
    · show TermRel _ none none
      trivial

end MoSql.Peg.Example
