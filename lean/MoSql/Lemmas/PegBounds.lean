import MoSql.Lemmas.PegGap
/-!
The recogniser engine only moves forward: whatever a match leaves over is never longer than the text it was given,
so every position the engine reports lies inside the input.
-/
namespace MoSql.Peg

section
variable {E : Env}

def RecLe (rec : G → Str → Res) : Prop := ∀ g x ts r, rec g x = .ok ts r → r.length ≤ x.length

theorem seqLoop_le (hskip : ∀ ws x, (E.skip ws x).length ≤ x.length) {rec : G → Str → Res} (hrec : RecLe rec) (ws : Nat) :
    ∀ (gs : List G) (idx fin : Str) (acc ts : List Tok) (r : Str) (bound : Nat), idx.length ≤ bound → fin.length ≤ bound →
      seqLoop rec (E.skip ws) gs idx fin acc = .ok ts r → r.length ≤ bound
  | [], idx, fin, acc, ts, r, bound, _, hf, h => by
    simp only [seqLoop, Res.ok.injEq] at h; rw [← h.2]; exact hf
  | g :: gs, idx, fin, acc, ts, r, bound, hi, hf, h => by
    simp only [seqLoop] at h
    have hi1 : (if fin.length < idx.length then E.skip ws fin else idx).length ≤ bound := by
      split
      · exact Nat.le_trans (hskip ws fin) hf
      · exact hi
    generalize (if fin.length < idx.length then E.skip ws fin else idx) = idx1 at h hi1
    generalize hA : rec g idx1 = A at h
    cases A with
    | fail => simp at h
    | diverge => simp at h
    | ok ts1 r1 =>
      have h1 := hrec g _ ts1 r1 hA
      simp only at h
      split at h
      · exact seqLoop_le hskip hrec ws gs _ fin acc ts r bound hi1 hf h
      · exact seqLoop_le hskip hrec ws gs _ r1 (acc ++ ts1) ts r bound hi1 (Nat.le_trans h1 hi1) h

theorem altLoop_le {rec : G → Str → Res} (hrec : RecLe rec) :
    ∀ (gs : List G) (x : Str) (ts : List Tok) (r : Str), altLoop rec gs x = .ok ts r → r.length ≤ x.length
  | [], _, _, _, h => by simp [altLoop] at h
  | g :: gs, x, ts, r, h => by
    simp only [altLoop] at h
    generalize hA : rec g x = A at h
    cases A with
    | fail => exact altLoop_le hrec gs x ts r h
    | diverge => simp at h
    | ok ts1 r1 =>
      simp only [Res.ok.injEq] at h
      rw [← h.2]; exact hrec g x ts1 r1 hA

theorem longestLoop_le {rec : G → Str → Res} (hrec : RecLe rec) :
    ∀ (gs : List G) (x : Str) (b : Option (List Tok × Str)) (ts : List Tok) (r : Str),
      (∀ bt br, b = some (bt, br) → br.length ≤ x.length) → longestLoop rec gs x b = .ok ts r → r.length ≤ x.length
  | [], x, none, _, _, _, h => by simp [longestLoop] at h
  | [], x, some (bt, br), ts, r, hb, h => by
    simp only [longestLoop, Res.ok.injEq] at h
    rw [← h.2]; exact hb bt br rfl
  | g :: gs, x, b, ts, r, hb, h => by
    simp only [longestLoop] at h
    generalize hA : rec g x = A at h
    cases A with
    | fail => exact longestLoop_le hrec gs x b ts r hb h
    | diverge => simp at h
    | ok ts1 r1 =>
      have h1 := hrec g x ts1 r1 hA
      cases b with
      | none =>
        exact longestLoop_le hrec gs x _ ts r (by intro bt br e; simp only [Option.some.injEq, Prod.mk.injEq] at e; rw [← e.2]; exact h1) h
      | some p =>
        obtain ⟨bt, br⟩ := p
        simp only at h
        split at h
        · exact longestLoop_le hrec gs x _ ts r (by intro bt' br' e; simp only [Option.some.injEq, Prod.mk.injEq] at e; rw [← e.2]; exact h1) h
        · exact longestLoop_le hrec gs x _ ts r hb h

theorem manyLoop_le (hskip : ∀ ws x, (E.skip ws x).length ≤ x.length) {rec : G → Str → Res} (hrec : RecLe rec) (ws : Nat)
    (g : G) (mn mx : Nat) :
    ∀ (k : Nat) (fin : Str) (count : Nat) (acc ts : List Tok) (r : Str) (bound : Nat), fin.length ≤ bound →
      manyLoop rec (E.skip ws) g mn mx k fin count acc = .ok ts r → r.length ≤ bound
  | 0, _, _, _, _, _, _, _, h => by simp [manyLoop] at h
  | k + 1, fin, count, acc, ts, r, bound, hf, h => by
    simp only [manyLoop] at h
    have hstop : ∀ ts r, (if count < mn then Res.fail else Res.ok acc fin) = .ok ts r → r.length ≤ bound := by
      intro ts r e
      split at e
      · simp at e
      · simp only [Res.ok.injEq] at e; rw [← e.2]; exact hf
    split at h
    · exact hstop ts r h
    · have hidx : (E.skip ws fin).length ≤ bound := Nat.le_trans (hskip ws fin) hf
      generalize hA : rec g (E.skip ws fin) = A at h
      cases A with
      | fail => exact hstop ts r h
      | diverge => simp at h
      | ok ts1 r1 =>
        have h1 := hrec g _ ts1 r1 hA
        simp only at h
        split at h
        · split at h
          · split at h
            · simp at h
            · simp only [Res.ok.injEq] at h; rw [← h.2]; exact Nat.le_trans h1 hidx
          · exact manyLoop_le hskip hrec ws g mn mx k r1 (count + 1) (acc ++ ts1) ts r bound (Nat.le_trans h1 hidx) h
        · split at h
          · split at h
            · simp at h
            · simp only [Res.ok.injEq] at h
              rw [← h.2]
              split
              · exact hidx
              · exact hf
          · simp at h

/-- **Every match ends inside the text it was given** (any grammar, any fuel). -/
theorem run_le (hskip : ∀ ws x, (E.skip ws x).length ≤ x.length) : ∀ (n : Nat), RecLe (run E n)
  | 0 => by intro g x ts r h; simp [run] at h
  | n + 1 => by
    have ih := run_le hskip n
    intro g x ts r h
    cases g with
    | term t =>
      simp only [run] at h
      cases hm : matchTerm t x with
      | none => simp [hm] at h
      | some p =>
        obtain ⟨s, r0⟩ := p
        simp only [hm, Res.ok.injEq] at h
        rw [← h.2]; exact matchTerm_le t x s r0 hm
    | empty => simp only [run, Res.ok.injEq] at h; rw [← h.2]; exact Nat.le_refl _
    | seq ws gs => simp only [run] at h; exact seqLoop_le hskip ih ws gs x x [] ts r x.length (Nat.le_refl _) (Nat.le_refl _) h
    | alt gs => simp only [run] at h; exact altLoop_le ih gs x ts r h
    | longest gs => simp only [run] at h; exact longestLoop_le ih gs x none ts r (by intro _ _ e; simp at e) h
    | many ws g mn mx => simp only [run] at h; exact manyLoop_le hskip ih ws g mn mx n x 0 [] ts r x.length (Nat.le_refl _) h
    | opt g =>
      simp only [run] at h
      generalize hA : run E n g x = A at h
      cases A with
      | fail => simp only [Res.ok.injEq] at h; rw [← h.2]; exact Nat.le_refl _
      | diverge => simp at h
      | ok ts1 r1 => simp only [Res.ok.injEq] at h; rw [← h.2]; exact ih g x ts1 r1 hA
    | group g =>
      simp only [run] at h
      generalize hA : run E n g x = A at h
      cases A with
      | fail => simp at h
      | diverge => simp at h
      | ok ts1 r1 => simp only [Res.ok.injEq] at h; rw [← h.2]; exact ih g x ts1 r1 hA
    | suppress g =>
      simp only [run] at h
      generalize hA : run E n g x = A at h
      cases A with
      | fail => simp at h
      | diverge => simp at h
      | ok ts1 r1 => simp only [Res.ok.injEq] at h; rw [← h.2]; exact ih g x ts1 r1 hA
    | ref i => simp only [run] at h; exact ih (E.rule i) x ts r h
    | notAhead g =>
      simp only [run] at h
      generalize hA : run E n g x = A at h
      cases A with
      | fail => simp only [Res.ok.injEq] at h; rw [← h.2]; exact Nat.le_refl _
      | diverge => simp at h
      | ok ts1 r1 => simp at h
    | ahead g =>
      simp only [run] at h
      generalize hA : run E n g x = A at h
      cases A with
      | fail => simp at h
      | diverge => simp at h
      | ok ts1 r1 => simp only [Res.ok.injEq] at h; rw [← h.2]; exact Nat.le_refl _

end

/-- the three engines of the SQL grammar only move forward -/
theorem engines_le (ws : Nat) (x : Str) : (engines ws x).length ≤ x.length := by
  unfold engines
  split
  · exact Nat.le_refl _
  · exact (List.dropWhile_sublist (l := x) Skip.isWhite).length_le
  · exact Skip.skip_le x

end MoSql.Peg
