import MoSql.Dml
namespace MoSql.Dml

variable {V : Type}

theorem getKey_setKey_same (kvs : List (String × V)) (k : String) (v : V) : getKey (setKey kvs k v) k = some v := by
  induction kvs with
  | nil => simp [setKey, getKey]
  | cons kv rest ih =>
    obtain ⟨k', v'⟩ := kv
    by_cases h : (k' == k) = true
    · simp [setKey, getKey, h]
    · simp [setKey, getKey, h, ih]

theorem getKey_setKey_other (kvs : List (String × V)) (k k2 : String) (v : V) (h : (k == k2) = false) :
    getKey (setKey kvs k v) k2 = getKey kvs k2 := by
  induction kvs with
  | nil => simp [setKey, getKey, h]
  | cons kv rest ih =>
    obtain ⟨k', v'⟩ := kv
    by_cases h1 : (k' == k) = true
    · have e : k' = k := by simpa using h1
      subst e
      simp [setKey, getKey, h]
    · by_cases h2 : (k' == k2) = true
      · simp [setKey, getKey, h1, h2]
      · simp [setKey, getKey, h1, h2, ih]

/-- looking up the `i`-th of distinct keys in a dict built from `zip keys vals` (on top of any dict that
has none of the keys yet to come) gives the `i`-th value -/
theorem getKey_foldl_zip : ∀ (cols : List String) (row : List V) (d : List (String × V)) (i : Nat)
    (hnd : cols.Nodup) (hi : i < cols.length) (hl : row.length = cols.length),
    getKey ((cols.zip row).foldl (fun d kv => setKey d kv.1 kv.2) d) (cols[i]'hi) = some (row[i]'(hl ▸ hi))
  | [], _, _, i, _, hi, _ => by simp at hi
  | c :: cs, [], _, _, _, _, hl => by simp at hl
  | c :: cs, v :: vs, d, 0, hnd, _, _ => by
    -- the key `c` is written first and never overwritten (it does not occur in `cs`)
    simp only [List.zip_cons_cons, List.foldl_cons, List.getElem_cons_zero]
    have hc : c ∉ cs := (List.nodup_cons.mp hnd).1
    have keep : ∀ (cs' : List String) (vs' : List V) (d' : List (String × V)), c ∉ cs' →
        getKey d' c = some v →
        getKey ((cs'.zip vs').foldl (fun d kv => setKey d kv.1 kv.2) d') c = some v := by
      intro cs'
      induction cs' with
      | nil => intro vs' d' _ h; simpa using h
      | cons x xs ih =>
        intro vs' d' hx h
        cases vs' with
        | nil => simpa using h
        | cons y ys =>
          simp only [List.zip_cons_cons, List.foldl_cons]
          apply ih ys _ (fun hm => hx (List.mem_cons_of_mem _ hm))
          rw [getKey_setKey_other _ x c y (by
            have : x ≠ c := fun e => hx (e ▸ List.mem_cons_self)
            simpa using this)]
          exact h
    exact keep cs vs _ hc (getKey_setKey_same d c v)
  | c :: cs, v :: vs, d, i + 1, hnd, hi, hl => by
    simp only [List.zip_cons_cons, List.foldl_cons, List.getElem_cons_succ]
    exact getKey_foldl_zip cs vs _ i (List.nodup_cons.mp hnd).2 (by simpa using hi) (by simpa using hl)

theorem rowDict_get (cols : List String) (row : List V) (i : Nat) (hnd : cols.Nodup) (hi : i < cols.length)
    (hl : row.length = cols.length) : getKey (rowDict cols row) (cols[i]'hi) = some (row[i]'(hl ▸ hi)) :=
  getKey_foldl_zip cols row [] i hnd hi hl

theorem getKey_delKey_other (kvs : List (String × V)) (k k2 : String) (h : (k2 == k) = false) :
    getKey (delKey kvs k) k2 = getKey kvs k2 := by
  induction kvs with
  | nil => rfl
  | cons kv rest ih =>
    obtain ⟨k', v'⟩ := kv
    by_cases h1 : (k' == k) = true
    · have e : k' = k := by simpa using h1
      subst e
      have h2 : (k' == k2) = false := by
        have : k2 ≠ k' := by simpa using h
        simpa using fun e => this e.symm
      simp [delKey, getKey, h2] at ih ⊢
      simpa [delKey] using ih
    · by_cases h2 : (k' == k2) = true
      · simp [delKey, getKey, h1, h2]
      · simp [delKey, getKey, h1, h2] at ih ⊢
        simpa [delKey] using ih

end MoSql.Dml
