import MoSql.Dialect
namespace MoSql.Dialect
open MoSql.Lex

theorem inRanges_of_subset (a b : List (Nat × Nat)) (h : rangesSubset a b = true) (c : Char)
    (hc : inRanges a c = true) : inRanges b c = true := by
  simp only [inRanges, List.any_eq_true, Bool.and_eq_true, decide_eq_true_eq] at hc ⊢
  obtain ⟨r, hr, h1, h2⟩ := hc
  simp only [rangesSubset, List.all_eq_true, List.any_eq_true, Bool.and_eq_true, decide_eq_true_eq] at h
  obtain ⟨q, hq, hq1, hq2⟩ := h r hr
  exact ⟨q, hq, by omega, by omega⟩

theorem dashLoop_eq (rest : List (Nat × Nat)) : ∀ (cs : List Char) (prev : Char),
    inRanges rest prev = true → noDashAfterName rest (prev :: cs) = true →
    dashLoop rest prev cs = (cs.takeWhile (inRanges rest), cs.dropWhile (inRanges rest))
  | [], _, _, _ => rfl
  | c :: cs, prev, hp, hn => by
    simp only [noDashAfterName, hp, Bool.true_and, Bool.and_eq_true, Bool.not_eq_true'] at hn
    by_cases hc : inRanges rest c = true
    · have ih := dashLoop_eq rest cs c hc hn.2
      simp [dashLoop, hc, ih, List.takeWhile, List.dropWhile]
    · have hcd : (c == '-') = false := hn.1
      simp [dashLoop, hc, hcd, List.takeWhile, List.dropWhile]

theorem matchDashWord_eq (first rest : List (Nat × Nat)) (hsub : rangesSubset first rest = true)
    (s : List Char) (hn : noDashAfterName rest s = true) :
    matchDashWord first rest s = matchWord first rest s := by
  cases s with
  | nil => rfl
  | cons c cs =>
    by_cases hc : inRanges first c = true
    · have := dashLoop_eq rest cs c (inRanges_of_subset first rest hsub c hc) hn
      simp [matchDashWord, matchWord, hc, this]
    · simp [matchDashWord, matchWord, hc]

theorem matchQuoted_none (o cl : Char) (c : Char) (cs : List Char) (h : (c == o) = false) :
    matchQuoted o cl (c :: cs) = none := by
  simp [matchQuoted, h]

theorem matchWord_congr_first (f1 f2 rest : List (Nat × Nat)) (h : ∀ c, inRanges f1 c = inRanges f2 c) (s : List Char) :
    matchWord f1 rest s = matchWord f2 rest s := by
  cases s with
  | nil => rfl
  | cons c cs => simp [matchWord, h c]

end MoSql.Dialect
