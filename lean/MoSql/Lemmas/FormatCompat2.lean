import MoSql.Format2
/-! The parentheses of the whole formatter vocabulary suffice: the output is precedence-compatible at every level. -/
namespace MoSql.Fmt2
open MoSql MoSql.Infix MoSql.E

variable (cx : Ctx) (known : List (String × Nat × String)) (ops : List HOp)

theorem mem_of_lt {k : Nat} (h : k < ops.length) : ops.getD k default ∈ ops := by
  have : ops.getD k default = ops[k] := by simp [List.getD, List.getElem?_eq_getElem h]
  rw [this]; exact List.getElem_mem h

theorem top_wrap (p : Int) (o : HOp) (e : E) :
    (toW cx (wrap p o e)).top = if bare p o = true then (toW cx e).top else none := by
  unfold wrap
  by_cases h : bare p o = true
  · simp [h]
  · simp [h, toW, W.top]

theorem okTop_wrap (p : Int) (o : HOp) (e : E) (h : okTop cx e = true) : okTop cx (wrap p o e) = true := by
  unfold wrap
  by_cases hb : bare p o = true
  · simpa [hb] using h
  · simp only [hb, Bool.false_eq_true, if_false]
    simp only [okTop, toW, W.wfB, W.compatB, okSub, Bool.true_and]
    unfold okTop at h
    exact h

theorem root_mem : ∀ (t : T2) (c : HOp), admissible known ops t = true → root ops t = some c → c ∈ ops
  | .leaf _ _, _, _, h => by simp [root] at h
  | .un k x, c, ha, h => by
    simp only [admissible, Bool.and_eq_true, decide_eq_true_eq] at ha
    simp only [root, Option.some.injEq] at h
    exact h ▸ mem_of_lt ops ha.1.1.1
  | .bin k l r, c, ha, h => by
    simp only [admissible, Bool.and_eq_true, decide_eq_true_eq] at ha
    simp only [root, Option.some.injEq] at h
    exact h ▸ mem_of_lt ops ha.1.1.1.1.1
  | .tern k a b c', c, ha, h => by
    simp only [admissible, Bool.and_eq_true, decide_eq_true_eq] at ha
    simp only [root, Option.some.injEq] at h
    exact h ▸ mem_of_lt ops ha.1.1.1.1.1.1.1

theorem arity_le (o : HOp) : arity o ≤ 3 := by
  unfold arity; cases o.kind <;> simp

/-- the written form of a tree starts (outside parentheses) with its own root operator, or is atomic -/
theorem top_fmt (t : T2) (p : Int) :
    (toW cx (fmt ops t p)).top = none ∨
      ∃ c, root ops t = some c ∧ bare p c = true ∧ (toW cx (fmt ops t p)).top = some c.info.level := by
  cases t with
  | leaf text r => left; rfl
  | un k x =>
    simp only [fmt, root]
    generalize ops.getD k default = o
    by_cases hb : bare p o = true
    · right
      refine ⟨o, rfl, hb, ?_⟩
      cases o.kind <;> (rw [top_wrap]; simp only [hb, if_true]; rfl)
    · left
      cases o.kind <;> (rw [top_wrap]; simp only [hb]; rfl)
  | bin k l r =>
    simp only [fmt, root]
    generalize ops.getD k default = o
    by_cases hb : bare p o = true
    · right; exact ⟨o, rfl, hb, by rw [top_wrap]; simp only [hb, if_true]; rfl⟩
    · left; rw [top_wrap]; simp only [hb]; rfl
  | tern k a b c =>
    simp only [fmt, root]
    generalize ops.getD k default = o
    by_cases hb : bare p o = true
    · right; exact ⟨o, rfl, hb, by rw [top_wrap]; simp only [hb, if_true]; rfl⟩
    · left; rw [top_wrap]; simp only [hb]; rfl

variable (hs : soundTable known ops = true)
include hs

theorem triple_of_sound (o c : HOp) (ho : o ∈ ops) (hc : c ∈ ops) :
    tripleOK known o c 0 = true ∧ (2 ≤ arity o → tripleOK known o c 1 = true) ∧ (3 ≤ arity o → tripleOK known o c 2 = true) := by
  have := List.all_eq_true.mp (List.all_eq_true.mp hs o ho) c hc
  simp only [Bool.and_eq_true, Bool.or_eq_true, decide_eq_true_eq] at this
  refine ⟨this.1.1, ?_, ?_⟩
  · intro h2
    rcases this.1.2 with h | h
    · omega
    · exact h
  · intro h3
    rcases this.2 with h | h
    · omega
    · exact h

/-- an operand that the renderer of `o` leaves bare in slot `slot` binds as the parser needs it to -/
theorem slot_level (o : HOp) (ho : o ∈ ops) (slot : Nat) (hsl : slot < arity o) (t : T2)
    (hadm : admissible known ops t = true) (hch : childOk known ops o slot t = true) :
    if slot = 0 then (toW cx (fmt ops t (slotPrec o slot))).leB o.info.level = true
    else (toW cx (fmt ops t (slotPrec o slot))).ltB o.info.level = true := by
  rcases top_fmt cx ops t (slotPrec o slot) with h0 | ⟨c, hc, hb, ht⟩
  · by_cases hs0 : slot = 0
    · subst hs0; simp [W.leB, h0]
    · simp [hs0, W.ltB, h0]
  · have hcm : c ∈ ops := root_mem known ops t c hadm hc
    have h3 := triple_of_sound known ops hs o c ho hcm
    have hk : isKnown known o slot c = false := by
      simpa [childOk, hc] using hch
    have htr : tripleOK known o c slot = true := by
      match slot, hsl with
      | 0, _ => exact h3.1
      | 1, h => exact h3.2.1 (by omega)
      | 2, h => exact h3.2.2 (by omega)
      | n + 3, h => have := arity_le o; omega
    simp only [tripleOK, hk, hb, Bool.false_or, Bool.not_true] at htr
    by_cases hs0 : slot = 0
    · subst hs0
      simp only [if_true, W.leB, ht]
      simpa [genCompat] using htr
    · simp only [hs0, if_false, W.ltB, ht]
      simpa [genCompat, hs0] using htr

end MoSql.Fmt2

namespace MoSql.Fmt2
open MoSql MoSql.Infix MoSql.E

variable (cx : Ctx) (known : List (String × Nat × String)) (ops : List HOp)
variable (hs : soundTable known ops = true) (hw : wfTable cx.levels ops = true)
include hs hw

theorem okTop_fmt : ∀ (t : T2) (p : Int), admissible known ops t = true → okTop cx (fmt ops t p) = true
  | .leaf text r, p, _ => by simp [fmt, okTop, okSub, toW, W.wfB, W.compatB]
  | .un k x, p, h => by
    simp only [admissible, Bool.and_eq_true, decide_eq_true_eq, Bool.or_eq_true, beq_iff_eq] at h
    obtain ⟨⟨⟨hk, hkind⟩, hch⟩, hax⟩ := h
    have ho := mem_of_lt ops hk
    have hrow : rowOk cx.levels (ops.getD k default) = true := List.all_eq_true.mp hw _ ho
    have ih := okTop_fmt x (ops.getD k default).s0 hax
    have hle := slot_level cx known ops hs (ops.getD k default) ho 0
      (by unfold arity; cases (ops.getD k default).kind <;> simp) x hax hch
    simp only [if_true, slotPrec] at hle
    simp only [okTop, Bool.and_eq_true] at ih
    simp only [fmt]
    rcases hkind with hkd | hkd
    · -- prefix operator
      simp only [hkd]
      apply okTop_wrap
      simp only [rowOk, hkd] at hrow
      simp only [okTop, toW, W.wfB, W.compatB, okSub, tok, Bool.and_eq_true]
      exact ⟨⟨⟨hrow, ih.1.1⟩, ⟨hle, ih.1.2⟩⟩, ih.2⟩
    · -- x OP <atom>
      simp only [hkd]
      apply okTop_wrap
      simp only [rowOk, hkd] at hrow
      simp only [okTop, toW, W.wfB, W.compatB, okSub, tok, W.ltB, W.top, Bool.and_eq_true]
      exact ⟨⟨⟨⟨hrow, ih.1.1⟩, trivial⟩, ⟨⟨⟨hle, trivial⟩, ih.1.2⟩, trivial⟩⟩, ih.2, trivial⟩
  | .bin k l r, p, h => by
    simp only [admissible, Bool.and_eq_true, decide_eq_true_eq, beq_iff_eq] at h
    obtain ⟨⟨⟨⟨⟨hk, hkind⟩, hcl⟩, hcr⟩, hal⟩, har⟩ := h
    have ho := mem_of_lt ops hk
    have hrow : rowOk cx.levels (ops.getD k default) = true := List.all_eq_true.mp hw _ ho
    have ihl := okTop_fmt l (ops.getD k default).s0 hal
    have ihr := okTop_fmt r (ops.getD k default).s1 har
    have har2 : 1 < arity (ops.getD k default) := by unfold arity; rw [hkind]; simp
    have hle := slot_level cx known ops hs (ops.getD k default) ho 0 (by omega) l hal hcl
    have hlt := slot_level cx known ops hs (ops.getD k default) ho 1 har2 r har hcr
    simp only [if_true, slotPrec] at hle
    simp only [slotPrec, Nat.succ_ne_zero, if_false] at hlt
    simp only [okTop, Bool.and_eq_true] at ihl ihr
    simp only [fmt]
    apply okTop_wrap
    simp only [rowOk, hkind] at hrow
    simp only [okTop, toW, W.wfB, W.compatB, okSub, tok, Bool.and_eq_true]
    exact ⟨⟨⟨⟨hrow, ihl.1.1⟩, ihr.1.1⟩, ⟨⟨⟨hle, hlt⟩, ihl.1.2⟩, ihr.1.2⟩⟩, ihl.2, ihr.2⟩
  | .tern k a b c, p, h => by
    simp only [admissible, Bool.and_eq_true, decide_eq_true_eq, beq_iff_eq] at h
    obtain ⟨⟨⟨⟨⟨⟨⟨hk, hkind⟩, hca⟩, hcb⟩, hcc⟩, haa⟩, hab⟩, hac⟩ := h
    have ho := mem_of_lt ops hk
    have hrow : rowOk cx.levels (ops.getD k default) = true := List.all_eq_true.mp hw _ ho
    have iha := okTop_fmt a (ops.getD k default).s0 haa
    have ihb := okTop_fmt b (ops.getD k default).s1 hab
    have ihc := okTop_fmt c (ops.getD k default).s2 hac
    have har3 : arity (ops.getD k default) = 3 := by unfold arity; rw [hkind]
    have hle := slot_level cx known ops hs (ops.getD k default) ho 0 (by omega) a haa hca
    have hlt1 := slot_level cx known ops hs (ops.getD k default) ho 1 (by omega) b hab hcb
    have hlt2 := slot_level cx known ops hs (ops.getD k default) ho 2 (by omega) c hac hcc
    simp only [if_true, slotPrec] at hle
    simp only [slotPrec, Nat.succ_ne_zero, if_false] at hlt1 hlt2
    simp only [okTop, Bool.and_eq_true] at iha ihb ihc
    simp only [fmt]
    apply okTop_wrap
    simp only [rowOk, hkind] at hrow
    simp only [okTop, toW, W.wfB, W.compatB, okSub, tok, tok2, Bool.and_eq_true]
    refine ⟨⟨⟨⟨⟨?_, iha.1.1⟩, ihb.1.1⟩, ihc.1.1⟩, ⟨⟨⟨⟨⟨hle, hlt1⟩, hlt2⟩, iha.1.2⟩, ihb.1.2⟩, ihc.1.2⟩⟩, ⟨iha.2, ihb.2⟩, ihc.2⟩
    exact hrow

end MoSql.Fmt2
