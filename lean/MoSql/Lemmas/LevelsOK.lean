import MoSql.Prec
namespace MoSql.Infix

theorem lt_length_of_getElem? {α : Type} {l : List α} {i : Nat} {a : α} (h : l[i]? = some a) :
    i < l.length := by
  rcases Nat.lt_or_ge i l.length with h' | h'
  · exact h'
  · rw [List.getElem?_eq_none h'] at h; cases h

/-- the Boolean table check implies the structural facts the reducer relies on -/
theorem levelsOK_of_B {lv : List Level} (h : levelsOKB lv = true) : LevelsOK lv := by
  unfold levelsOKB at h
  simp only [List.all_eq_true, List.mem_range] at h
  constructor
  · intro i j Li Lj hi hj hid
    have := h i (lt_length_of_getElem? hi) j (lt_length_of_getElem? hj)
    simp only [hi, hj, Bool.and_eq_true, Bool.or_eq_true, bne_iff_ne, ne_eq, beq_iff_eq] at this
    rcases this.1 with h1 | h1
    · exact absurd hid h1
    · exact h1
  · intro t j Lt Lj ht hkind hj hle hid
    have := h t (lt_length_of_getElem? ht) j (lt_length_of_getElem? hj)
    simp only [ht, hj, Bool.and_eq_true, Bool.or_eq_true, bne_iff_ne, ne_eq, beq_iff_eq,
      Bool.not_eq_true', Bool.and_eq_false_iff, decide_eq_false_iff_not] at this
    rcases this.2 with h1 | h1
    · rcases h1 with h2 | h2
      · rw [hkind] at h2; simp at h2
      · exact absurd hle h2
    · exact absurd hid h1

end MoSql.Infix
