import MoSql.Scrub
/-
Ownership model of `scrub` + the NULL substitution of `_parse`: the output tree with a provenance tag
on every container.  Each `fresh` corresponds to a list / dict display or comprehension that Python
evaluates during the call (a new object); the other tags are objects that exist before the call.

`Policy` holds the two facts that decide ownership and that the translator reads from the current
source: what `scrub` returns for an empty dict, and what `_parse` stores into NULL slots.
-/
namespace MoSql.Alias

inductive Prov where
  | fresh                -- allocated during this call
  | inputConst           -- an object of the raw parse result handed through (a grammar constant, a Call's kwargs)
  | sharedDefault        -- the module-level `mo_sql_parsing.SQL_NULL`
  | callerNull           -- the `null=` object the caller supplied
  deriving DecidableEq, Repr

inductive PT where
  | leaf
  | slot                              -- a recorded NULL slot, before substitution
  | arr (p : Prov) (xs : List PT)
  | obj (p : Prov) (kvs : List (String × PT))
  deriving Repr, Inhabited

structure Policy where
  emptyDictFresh : Bool      -- `scrub({})` returns a new dict
  defaultNullFresh : Bool    -- the default NULL node is built per slot
  deriving DecidableEq, Repr

def PT.isNone : PT → Bool
  | .leaf => false
  | _ => false

/-- list case of `scrub`: `[] → None` (a leaf here), `[x] → x`, otherwise a new list -/
def collapse (xs : List PT) : PT :=
  match xs with
  | [] => .leaf
  | [x] => x
  | ys => .arr .fresh ys

mutual
def scrubP (pol : Policy) : Raw → PT
  | .none => .leaf
  | .str _ => .leaf
  | .int _ => .leaf
  | .flt _ => .leaf
  | .bool _ => .leaf
  | .sqlNull => .slot
  | .crash _ => .leaf
  | .call op args kw =>
    -- `kwargs = scrub(result.kwargs)`; `simple_op` stores `args` into that very dict and returns it
    let a := scrubP pol args
    match kw with
    | [] => .obj (if pol.emptyDictFresh then .fresh else .inputConst) [(op, a)]
    | _ => .obj .fresh ((op, a) :: scrubKwP pol kw)
  | .list xs => collapse (scrubListP pol xs)
  | .grp r => scrubP pol r
  | .dict [] => .obj (if pol.emptyDictFresh then .fresh else .inputConst) []
  | .dict kvs => .obj .fresh (scrubKwP pol kvs)
def scrubListP (pol : Policy) : List Raw → List PT
  | [] => []
  | r :: rs => scrubP pol r :: scrubListP pol rs
def scrubKwP (pol : Policy) : List (String × Raw) → List (String × PT)
  | [] => []
  | (k, r) :: rest => (k, scrubP pol r) :: scrubKwP pol rest
end

/- `for o, n in null_locations: o[n] = null`; `userNull`: the caller passed its own `null=` object -/
mutual
def substP (pol : Policy) (userNull : Bool) : PT → PT
  | .slot =>
    if userNull then .obj .callerNull []
    else .obj (if pol.defaultNullFresh then .fresh else .sharedDefault) [("null", .obj (if pol.defaultNullFresh then .fresh else .sharedDefault) [])]
  | .leaf => .leaf
  | .arr p xs => .arr p (substListP pol userNull xs)
  | .obj p kvs => .obj p (substKvsP pol userNull kvs)
def substListP (pol : Policy) (userNull : Bool) : List PT → List PT
  | [] => []
  | x :: xs => substP pol userNull x :: substListP pol userNull xs
def substKvsP (pol : Policy) (userNull : Bool) : List (String × PT) → List (String × PT)
  | [] => []
  | (k, x) :: rest => (k, substP pol userNull x) :: substKvsP pol userNull rest
end

/- every container of the tree is owned by the caller: new, or the caller's own `null=` object -/
mutual
def owned : PT → Bool
  | .leaf => true
  | .slot => true
  | .arr p xs => (p == .fresh || p == .callerNull) && ownedList xs
  | .obj p kvs => (p == .fresh || p == .callerNull) && ownedKvs kvs
def ownedList : List PT → Bool
  | [] => true
  | x :: xs => owned x && ownedList xs
def ownedKvs : List (String × PT) → Bool
  | [] => true
  | (_, x) :: rest => owned x && ownedKvs rest
end

def resultP (pol : Policy) (userNull : Bool) (r : Raw) : PT := substP pol userNull (scrubP pol r)

/-! ### a heap: caller mutations cannot reach what they do not alias -/

/-- objects hold references to other objects (scalars are irrelevant for reachability) -/
abbrev Heap := Nat → List Nat

/-- ids reachable from `roots` by following references -/
inductive Reach (h : Heap) (roots : List Nat) : Nat → Prop where
  | root {a : Nat} : a ∈ roots → Reach h roots a
  | step {a b : Nat} : Reach h roots a → b ∈ h a → Reach h roots b

/-- one caller mutation: replace the references held by object `o` -/
def write (h : Heap) (o : Nat) (refs : List Nat) : Heap := fun x => if x = o then refs else h x

end MoSql.Alias
