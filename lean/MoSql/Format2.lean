import MoSql.Format
/-
The whole expression vocabulary of the formatter: the `Operator(...)` renderers AND the hand-written
ones (`_not`, `_binary_not`, `_missing`, `_exists`, `_between`, `_not_between`, `_in`, `_nin`,
`_regexp`, `_not_regexp`), described uniformly by what they do with precedence:

  * `selfMin`  — the renderer writes itself WITHOUT parentheses iff it is called with `2·prec ≥ selfMin`
  * `s0 s1 s2` — `2·prec` each operand is dispatched with

Both are MEASURED on the real `Formatter` on every run (the translator calls each renderer with every
half-step precedence and records the `prec` its operands are dispatched with), so a renderer that
starts ignoring its `prec` argument, or dispatches an operand differently, changes the table.
-/
namespace MoSql
open MoSql.Infix

inductive HKind where
  | pre      -- OP x                      (NOT x, ~x)
  | binA     -- x OP <fixed atom>         (x IS NULL, x IS NOT NULL, x IN (…), x NOT IN (…))
  | bin      -- x OP y
  | tern     -- x OP y AND z              (BETWEEN, NOT BETWEEN)
  deriving DecidableEq, Repr, Inhabited

structure HOp where
  name : String
  kind : HKind
  selfMin : Int
  s0 : Int
  s1 : Int := 0
  s2 : Int := 0
  info : OpInfo
  atomText : String := ""
  flat : Bool := false    -- `to_json_operator` flattens chains of this operator into one n-ary node
  deriving Inhabited

inductive T2 where
  | leaf (text : String) (r : Raw)
  | un (k : Nat) (x : T2)
  | bin (k : Nat) (l r : T2)
  | tern (k : Nat) (a b c : T2)
  deriving Inhabited

namespace Fmt2

def bare (p : Int) (o : HOp) : Bool := decide (p ≥ o.selfMin)

def wrap (p : Int) (o : HOp) (e : E) : E := if bare p o then e else .paren e

def fmt (ops : List HOp) : T2 → Int → E
  | .leaf t r, _ => .atom t r
  | .un k x, p =>
    let o := ops.getD k default
    match o.kind with
    | .binA => wrap p o (.bin o.info (fmt ops x o.s0) (.atom o.atomText .none))
    | _ => wrap p o (.pre o.info (fmt ops x o.s0))
  | .bin k l r, p =>
    let o := ops.getD k default
    wrap p o (.bin o.info (fmt ops l o.s0) (fmt ops r o.s1))
  | .tern k a b c, p =>
    let o := ops.getD k default
    wrap p o (.tern o.info (fmt ops a o.s0) (fmt ops b o.s1) (fmt ops c o.s2))

def root (ops : List HOp) : T2 → Option HOp
  | .leaf _ _ => none
  | .un k _ => some (ops.getD k default)
  | .bin k _ _ => some (ops.getD k default)
  | .tern k _ _ _ => some (ops.getD k default)

def slotPrec (o : HOp) (slot : Nat) : Int :=
  match slot with
  | 0 => o.s0
  | 1 => o.s1
  | _ => o.s2

/-- would the parser keep `c` (written bare) as operand `slot` of `o`? first operand: at least as tight; others: strictly tighter -/
def genCompat (o : HOp) (slot : Nat) (c : HOp) : Bool :=
  if slot == 0 then decide (c.info.level ≤ o.info.level) else decide (c.info.level < o.info.level)

/-- operand shapes outside the theorem: listed triples (none today), and trees that are not in simplified normal
form — a flattened operator directly under itself on the right (`parse` never produces it, and writing it bare
only re-associates the chain) -/
def isKnown (known : List (String × Nat × String)) (o : HOp) (slot : Nat) (c : HOp) : Bool :=
  known.any (fun k => k.1 == o.name && k.2.1 == slot && k.2.2 == c.name) ||
    (decide (1 ≤ slot) && o.flat && o.name == c.name)

def tripleOK (known : List (String × Nat × String)) (o c : HOp) (slot : Nat) : Bool :=
  isKnown known o slot c || !(bare (slotPrec o slot) c) || genCompat o slot c

def arity (o : HOp) : Nat :=
  match o.kind with
  | .pre => 1
  | .binA => 1
  | .bin => 2
  | .tern => 3

/-- whenever a renderer leaves an operand bare, the parser's level table keeps it as that operand -/
def soundTable (known : List (String × Nat × String)) (ops : List HOp) : Bool :=
  ops.all fun o => ops.all fun c =>
    tripleOK known o c 0 && (arity o < 2 || tripleOK known o c 1) && (arity o < 3 || tripleOK known o c 2)

/-- every row writes an operator of the kind the parser's table has at that level -/
def rowOk (lv : List Level) (o : HOp) : Bool :=
  match o.kind with
  | .pre => nodeOkB lv o.info.level Kind.pre o.info.id
  | .binA => nodeOkB lv o.info.level Kind.bin o.info.id
  | .bin => nodeOkB lv o.info.level Kind.bin o.info.id
  | .tern =>
    match lv[o.info.level]? with
    | some L => L.kind == Kind.tern && L.id0 == o.info.id && L.id1 == o.info.id2
    | none => false

def wfTable (lv : List Level) (ops : List HOp) : Bool := ops.all (rowOk lv)

def childOk (known : List (String × Nat × String)) (ops : List HOp) (o : HOp) (slot : Nat) (t : T2) : Bool :=
  match root ops t with
  | some c => !isKnown known o slot c
  | none => true

/-- rows exist, node shapes agree with row kinds, no listed triple occurs -/
def admissible (known : List (String × Nat × String)) (ops : List HOp) : T2 → Bool
  | .leaf _ _ => true
  | .un k x =>
    decide (k < ops.length) && ((ops.getD k default).kind == .pre || (ops.getD k default).kind == .binA) &&
      childOk known ops (ops.getD k default) 0 x && admissible known ops x
  | .bin k l r =>
    decide (k < ops.length) && (ops.getD k default).kind == .bin &&
      childOk known ops (ops.getD k default) 0 l && childOk known ops (ops.getD k default) 1 r &&
      admissible known ops l && admissible known ops r
  | .tern k a b c =>
    decide (k < ops.length) && (ops.getD k default).kind == .tern &&
      childOk known ops (ops.getD k default) 0 a && childOk known ops (ops.getD k default) 1 b &&
      childOk known ops (ops.getD k default) 2 c &&
      admissible known ops a && admissible known ops b && admissible known ops c

end Fmt2
end MoSql
