import MoSql.Prec
import MoSql.OpJson
/-
Written expressions (`E`) and the model of `parse` on them.

An `E` is the expression exactly as the user wrote it, parentheses included.  Operator nodes
carry an `OpInfo` row of the operator table that the translator regenerates from
`/repo` on every run (`MoSql.Gen.Levels`).  `toW` splits an `E` into the parenthesis-free
operator tree that one activation of `make_tree` sees (parenthesised sub-expressions and
function arguments are parsed recursively and become leaves); `evalE` runs the model of
`make_tree` on its flat token list.
-/
namespace MoSql
open MoSql.Infix

structure OpInfo where
  key : String           -- generator's name for the operator / spelling, e.g. "+", "<>", "not like"
  text : String          -- surface text of the (first) token
  text2 : String := ""   -- second token of a ternary operator
  kind : Kind
  level : Nat            -- index into the level table
  id : Nat               -- identity of the operator element (shared by all spellings of one level entry)
  id2 : Nat := 0
  name : String          -- the name `to_json_operator` gives it
  payload : String := "" -- the token's own value (what is used if it is mistaken for an operand)
  deriving Repr, Inhabited

inductive E where
  | atom (text : String) (r : Raw)
  | paren (e : E)
  | call (f : String) (args : List E)
  | pre (o : OpInfo) (e : E)
  | cast (o : OpInfo) (e : E) (ty : String)      -- e :: ty
  | bin (o : OpInfo) (l r : E)
  | tern (o : OpInfo) (a b c : E)
  deriving Inhabited

namespace E

def tok (o : OpInfo) : Tok Raw := ⟨o.id, o.name, .str o.payload⟩
def tok2 (o : OpInfo) : Tok Raw := ⟨o.id2, "and", .str "and"⟩
/-- `simple_types("params")` for a parameterless type: `Call(ty, [], {})` -/
def castTok (o : OpInfo) (ty : String) : Tok Raw := ⟨o.id, "cast", .call ty.toLower (.list []) []⟩

structure Ctx where
  levels : List Level
  assoc : List String

def evalW (cx : Ctx) (w : W Raw) : Result Raw :=
  makeTree (OpJson.builders cx.assoc) cx.levels w.flat

/-- value of one `make_tree` activation; content the real code forgets is flagged -/
def resultVal (r : Result Raw) : Raw :=
  match r.head with
  | some v => v
  | none => .crash "empty"

mutual
def toW (cx : Ctx) : E → W Raw
  | .atom _ r => .leaf r
  | .paren e => .leaf (.grp (resultVal (evalW cx (toW cx e))))
  | .call f args => .leaf (.call f.toLower (.list (argsRaw cx args)) [])
  | .pre o e => .pre o.level (tok o) (toW cx e)
  | .cast o e ty => .suf o.level (toW cx e) (castTok o ty)
  | .bin o l r => .bin o.level (toW cx l) (tok o) (toW cx r)
  | .tern o a b c => .tern o.level (toW cx a) (tok o) (toW cx b) (tok2 o) (toW cx c)
def argsRaw (cx : Ctx) : List E → List Raw
  | [] => []
  | e :: es => .grp (resultVal (evalW cx (toW cx e))) :: argsRaw cx es
end

/- does some activation of `make_tree` inside `e` forget part of its input? -/
mutual
def drops (cx : Ctx) : E → Bool
  | .atom _ _ => false
  | .paren e => dropsTop cx e
  | .call _ args => dropsList cx args
  | .pre _ e => drops cx e
  | .cast _ e _ => drops cx e
  | .bin _ l r => drops cx l || drops cx r
  | .tern _ a b c => drops cx a || drops cx b || drops cx c
def dropsList (cx : Ctx) : List E → Bool
  | [] => false
  | e :: es => dropsTop cx e || dropsList cx es
def dropsTop (cx : Ctx) (e : E) : Bool :=
  !(evalW cx (toW cx e)).leftover.isEmpty || drops cx e
end

def evalE (cx : Ctx) (e : E) : Raw := resultVal (evalW cx (toW cx e))

/-- model of `parse("SELECT <e>")["select"]["value"]` under configuration `c` and `null = x` -/
def parseE (cx : Ctx) (c : Cfg) (x : J) (e : E) : J :=
  match Scrub.run c x (.dict [("value", evalE cx e)]) with
  | .obj kvs => (J.getKey kvs "value").getD .null
  | j => j

/-! ### rendering (every token separated by one space) -/
mutual
def render : E → String
  | .atom t _ => t
  | .paren e => "( " ++ render e ++ " )"
  | .call f args => f ++ " ( " ++ ", ".intercalate (renderList args) ++ " )"
  | .pre o e => o.text ++ " " ++ render e
  | .cast o e ty => render e ++ " " ++ o.text ++ " " ++ ty
  | .bin o l r => render l ++ " " ++ o.text ++ " " ++ render r
  | .tern o a b c =>
    render a ++ " " ++ o.text ++ " " ++ render b ++ " " ++ o.text2 ++ " " ++ render c
def renderList : List E → List String
  | [] => []
  | e :: es => render e :: renderList es
end

end E
end MoSql

namespace MoSql
open MoSql.Infix
namespace E

/-! ### every activation of `make_tree` inside `e` sees a well-formed, precedence-compatible tree -/
mutual
def okSub (cx : Ctx) : E → Bool
  | .atom _ _ => true
  | .paren e => okTop cx e
  | .call _ args => okList cx args
  | .pre _ e => okSub cx e
  | .cast _ e _ => okSub cx e
  | .bin _ l r => okSub cx l && okSub cx r
  | .tern _ a b c => okSub cx a && okSub cx b && okSub cx c
def okList (cx : Ctx) : List E → Bool
  | [] => true
  | e :: es => okTop cx e && okList cx es
def okTop (cx : Ctx) (e : E) : Bool :=
  (toW cx e).wfB cx.levels && (toW cx e).compatB && okSub cx e
end

/-! ### the demanded semantics: every operator applied to exactly its written operands -/
def lvl (cx : Ctx) (k : Nat) : Level := cx.levels.getD k default

mutual
def sem (cx : Ctx) : E → Raw
  | .atom _ r => r
  | .paren e => .grp (sem cx e)
  | .call f args => .call f.toLower (.list (semArgs cx args)) []
  | .pre o e => (OpJson.builders cx.assoc).mkPre (lvl cx o.level) (tok o) (sem cx e)
  | .cast o e ty => (OpJson.builders cx.assoc).mkSuf (lvl cx o.level) (sem cx e) (castTok o ty)
  | .bin o l r => (OpJson.builders cx.assoc).mkBin (lvl cx o.level) (sem cx l) (tok o) (sem cx r)
  | .tern o a b c =>
    (OpJson.builders cx.assoc).mkTern (lvl cx o.level) (sem cx a) (tok o) (sem cx b) (tok2 o) (sem cx c)
def semArgs (cx : Ctx) : List E → List Raw
  | [] => []
  | e :: es => .grp (sem cx e) :: semArgs cx es
end

end E
end MoSql
