/- Reference: the token regular expressions the lexeme models (MoSql.Lex, MoSql.Script) were written against.
   Hand-maintained: when the source changes one of them the obligation `patterns_pinned` breaks and the model must be revisited. -/
namespace MoSql.Ref

/-- pattern strings of the token regular expressions, as modelled -/
def lexPatterns : List (String × String) := [
  ("real_num", "[+-]?(?:\\d+\\.\\d*|\\.\\d+|\\d+(?=[eE]-\\d))(?:[eE][+-]?\\d+)?"),
  ("int_num", "[+-]?\\d+(?:[eE]\\+?\\d+)?"),
  ("hex_num", "0x[0-9a-fA-F]+"),
  ("ansi_string", "(?:_utf8mb4|_utf8|_latin1|_ascii|_ucs2|_binary|n|N)?\\'(?:\\'\\'|[^'])*\\'"),
  ("regex_string", "r\\\"(?:\\\\\\\"|[^\"])*\\\"|r\\'(?:\\\\\\'|[^'])*\\'"),
  ("mysql_doublequote_string", "\\\"(?:\\\"\\\"|[^\"])*\\\""),
  ("ansi_ident", "\\\"(?:\\\"\\\"|[^\"])*\\\""),
  ("mysql_backtick_ident", "`(?:``|[^`])*`"),
  ("sqlserver_ident", "\\[(?:\\]\\]|[^\\]])*\\]"),
  ("ident_w_dash", "[\\$@-Z_a-zÀ-ÖØ-öø-ƿ](?:(?<=[^ 0-9])\\-(?=[^ 0-9])|[\\$0-9@-Z_a-zÀ-ÖØ-öø-ƿ])*"),
  ("simple_ident", "[\\$@-Z_a-zÀ-ÖØ-öø-ƿ][\\$0-9@-Z_a-zÀ-ÖØ-öø-ƿ]*"),
  ("sqlserver_local_ident", "[\\$@-Z_a-zÀ-ÖØ-öø-ƿ][\\$0-9@-Z_a-zÀ-ÖØ-öø-ƿ]*"),
  ("delimiter_pattern", "^\\s*delimiter\\s+([^\\n]+)$"),
  ("delimiter_flags", "42"),
  ("VALID", "^[a-zA-Z_]\\w*\\Z"),
  ("VALID_flags", "256")
]

end MoSql.Ref
