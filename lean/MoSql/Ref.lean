/- Reference: the token regular expressions the lexeme models (MoSql.Lex, MoSql.Script) were written against.
   Hand-maintained: when the source changes one of them the obligation `patterns_pinned` breaks and the model must be revisited. -/
namespace MoSql.Ref

/-- pattern strings of the token regular expressions, as modelled -/
def lexPatterns : List (String × String) := [
  ("real_num", "[+-]?(?:\\d+\\.\\d*|\\.\\d+|\\d+(?=[eE]-\\d))(?:[eE][+-]?\\d+)?"),
  ("int_num", "[+-]?\\d+(?:[eE]\\+?\\d+)?"),
  ("hex_num", "0x[0-9a-fA-F]+"),
  ("ansi_string", "(?:_utf8mb4|_utf8|_latin1|_ascii|_ucs2|_binary|n|N)?\\'(?:\\'\\'|[^'])*\\'"),
  ("regex_string", "r\\\"(?:\\\\\\\"|[^\"])*\\\"|r\\'(?:\\\\\\'|[^'])*\\'"),
  ("mysql_doublequote_string", "\\\"(?:\\\"\\\"|[^\"])*\\\""),
  ("ansi_ident", "\\\"(?:\\\"\\\"|[^\"])*\\\""),
  ("mysql_backtick_ident", "`(?:``|[^`])*`"),
  ("sqlserver_ident", "\\[(?:\\]\\]|[^\\]])*\\]"),
  ("ident_w_dash", "[\\$@-Z_a-zÀ-ÖØ-öø-ƿ](?:(?<=[^ 0-9])\\-(?=[^ 0-9])|[\\$0-9@-Z_a-zÀ-ÖØ-öø-ƿ])*"),
  ("simple_ident", "[\\$@-Z_a-zÀ-ÖØ-öø-ƿ][\\$0-9@-Z_a-zÀ-ÖØ-öø-ƿ]*"),
  ("sqlserver_local_ident", "[\\$@-Z_a-zÀ-ÖØ-öø-ƿ][\\$0-9@-Z_a-zÀ-ÖØ-öø-ƿ]*"),
  ("delimiter_pattern", "^\\s*delimiter\\s+([^\\n]+)$"),
  ("delimiter_flags", "42"),
  ("VALID", "^[a-zA-Z_]\\w*\\Z"),
  ("VALID_flags", "256")
]

/-- the whitespace engines the `Skip` model was written against: the comment-aware engine built in
`sql_parser.parser()`, the engine without whitespace (`NO_WHITESPACE`), and mo_parsing's standard one -/
def wsEngines : List (String × String × String) := [
  ("comment", "(?:[\\t-\\n\\r ]*(?:\\-\\-(?:[^\\n]*)|\\#(?:[^\\n]*)|/\\*(.*?\\*/)))*[\\t-\\n\\r ]*", "48"),
  ("none", "", "48"),
  ("standard", "[\\t-\\n\\r ]*", "48")]

/-- exactly-compared terminals that contain letters and belong to the *spelling of a literal* (string
introducers, the hex prefix) — the property exempts literal spelling from case-insensitivity -/
def literalSpellingTerminals : List String := ["0x", "_ascii", "_binary", "_latin1", "_ucs2", "_utf8", "_utf8mb4"]

/-- parse actions that have a Lean model (C01, C02, C06, C07, C13, C20): their failure behaviour is
stated by theorems (`Props/C14`) -/
def actionsModelled : List String := ["make_tree", "single_literal", "double_literal", "double_column",
  "backtick_column", "square_column", "parse_int", "_to_bound_call", "_to_between_call", "to_union_call"]

/-- parse actions without a model: shaping functions exercised by the ill-formed-edit and mutation
oracles only.  A parse action that is in neither list is new (or renamed): the analysis of which
inputs can make an action raise has to be redone -/
def actionsExercised : List String := ["<lambda>", "_dict_post_parse", "_suppress_post_parse",
  "bad_operator_on_ordered_sql", "cast_interval_call", "has_something", "list", "literal_regex", "mult",
  "no_dashes", "output", "record_self", "scale", "to_alias", "to_array", "to_case_call",
  "to_flat_column_type", "to_index_part", "to_insert_call", "to_interval_call", "to_interval_type",
  "to_join_call", "to_json_call", "to_kwarg", "to_literal", "to_map", "to_match_expr", "to_option", "to_over",
  "to_pivot_column", "to_query", "to_replace_call", "to_row", "to_select_call", "to_stack", "to_struct",
  "to_switch_call", "to_table", "to_top_clause", "to_trim_call", "to_tuple_call", "to_unpivot_column",
  "to_values", "to_when_call"]

/-- the four public parse entry points -/
def entryPoints : List String := ["parse", "parse_mysql", "parse_sqlserver", "parse_bigquery"]

/-- `global` rebinds that are not parse state: the lazy imports of `__init__._get_or_create_parser`
(idempotent: always the same modules) and the one-shot warning latch (affects a warning on stderr only) -/
def benignRebinds : List String := ["__init__._utils", "__init__.ansi_string", "__init__.scrub", "__init__.sql_parser",
  "utils.emit_warning_for_double_quotes"]

def benignCrossWrites : List String := ["sql_parser.mysql_parser:=utils.emit_warning_for_double_quotes"]

/-- writes into what they were given that `scrub` and the formatter are allowed (none: reviewed on the pinned tree) -/
def allowedArgumentWrites : List String := []

/-- source forms under which the default NULL node is a new object per slot -/
def nullSlotFreshForms : List String := ["{'null': {}} if null is SQL_NULL else null"]

/-- the node signatures (type|name|match|regex|actions) by which the dialect graphs may differ from the
common one: the string-literal alternatives (double-quoted literal for MySQL / BigQuery), the identifier
alternatives (`[x]`, dashed names, `@local`), and SQL Server's switch that turns `[ … ]` from an array
constructor into a name.  Inspected by hand; anything else is a new dialect difference. -/
def allowedDialectDiff : List String := [
  "bigquery_parser/* +1 Regex|identifier_with_dashes||[\\$@-Z_a-zÀ-ÖØ-öø-ƿ](?:(?<=[^ 0-9])\\-(?=[^ 0-9])|[\\$0-9@-Z_a-zÀ-ÖØ-öø-ƿ])*|",
  "bigquery_parser/* +1 Regex|||\\\"(?:\\\"\\\"|[^\"])*\\\"|double_literal",
  "bigquery_parser/None +1 Regex|identifier_with_dashes||[\\$@-Z_a-zÀ-ÖØ-öø-ƿ](?:(?<=[^ 0-9])\\-(?=[^ 0-9])|[\\$0-9@-Z_a-zÀ-ÖØ-öø-ƿ])*|",
  "bigquery_parser/None +1 Regex|||\\\"(?:\\\"\\\"|[^\"])*\\\"|double_literal",
  "mysql_parser/* +1 Regex|identifier_with_dashes||[\\$@-Z_a-zÀ-ÖØ-öø-ƿ](?:(?<=[^ 0-9])\\-(?=[^ 0-9])|[\\$0-9@-Z_a-zÀ-ÖØ-öø-ƿ])*|no_dashes",
  "mysql_parser/* +1 Regex|||\\\"(?:\\\"\\\"|[^\"])*\\\"|double_literal",
  "mysql_parser/* +1 Regex|||\\[(?:\\]\\]|[^\\]])*\\]|square_column",
  "mysql_parser/None +1 Regex|identifier_with_dashes||[\\$@-Z_a-zÀ-ÖØ-öø-ƿ](?:(?<=[^ 0-9])\\-(?=[^ 0-9])|[\\$0-9@-Z_a-zÀ-ÖØ-öø-ƿ])*|no_dashes",
  "mysql_parser/None +1 Regex|||\\\"(?:\\\"\\\"|[^\"])*\\\"|double_literal",
  "mysql_parser/None +1 Regex|||\\[(?:\\]\\]|[^\\]])*\\]|square_column",
  "sqlserver_parser/* +1 And|create_array|||to_array",
  "sqlserver_parser/* +1 Regex|||\\[(?:\\]\\]|[^\\]])*\\]|square_column",
  "sqlserver_parser/* +1 Word|identifier||[\\$@-Z_a-zÀ-ÖØ-öø-ƿ][\\$0-9@-Z_a-zÀ-ÖØ-öø-ƿ]*|",
  "sqlserver_parser/* -4 And||||",
  "sqlserver_parser/* -1 And||||record_self,output",
  "sqlserver_parser/* -1 Group||||",
  "sqlserver_parser/* -1 MatchFirst|create_array|||to_array",
  "sqlserver_parser/* -1 SingleCharLiteral||,|,|",
  "sqlserver_parser/* -1 Suppress|||,|",
  "sqlserver_parser/* -1 ZeroOrMore||||",
  "sqlserver_parser/None +1 And|create_array|||to_array",
  "sqlserver_parser/None +1 Regex|||\\[(?:\\]\\]|[^\\]])*\\]|square_column",
  "sqlserver_parser/None +1 Word|identifier||[\\$@-Z_a-zÀ-ÖØ-öø-ƿ][\\$0-9@-Z_a-zÀ-ÖØ-öø-ƿ]*|",
  "sqlserver_parser/None -4 And||||",
  "sqlserver_parser/None -1 And||||record_self,output",
  "sqlserver_parser/None -1 Group||||",
  "sqlserver_parser/None -1 MatchFirst|create_array|||to_array",
  "sqlserver_parser/None -1 SingleCharLiteral||,|,|",
  "sqlserver_parser/None -1 Suppress|||,|",
  "sqlserver_parser/None -1 ZeroOrMore||||"]

/-- regular-expression terminals of the SQL grammar that are not of a kind `MoSql.Peg` models (literal, keyword,
character-class word, quoted text): string literals with an introducer, hexadecimal and decimal numbers, the
dashed BigQuery identifier, the square-bracket identifier, raw strings.  None of them can match a white character
or a comment opener outside quotes.  Written down here so that a NEW complex terminal is noticed. -/
def pinnedOtherTerminals : List String := [
  "(?:_utf8mb4|_utf8|_latin1|_ascii|_ucs2|_binary|n|N)?\\'(?:\\'\\'|[^'])*\\'",
  "0x[0-9a-fA-F]+",
  "[+-]?(?:\\d+\\.\\d*|\\.\\d+|\\d+(?=[eE]-\\d))(?:[eE][+-]?\\d+)?",
  "[+-]?\\d+(?:[eE]\\+?\\d+)?",
  "[\\$@-Z_a-zÀ-ÖØ-öø-ƿ](?:(?<=[^ 0-9])\\-(?=[^ 0-9])|[\\$0-9@-Z_a-zÀ-ÖØ-öø-ƿ])*",
  "\\[(?:\\]\\]|[^\\]])*\\]",
  "\\d+(?:[eE]\\+?\\d+)?",
  "r\\\"(?:\\\\\\\"|[^\"])*\\\"",
  "r\\'(?:\\\\\\'|[^'])*\\'"]

end MoSql.Ref
