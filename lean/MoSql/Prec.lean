import MoSql.Infix
/-
Written expressions over operator levels: the specification side of `make_tree`.
`W` is a parenthesis-free operator tree whose leaves are already-built values
(atoms, or parenthesised sub-expressions that were parsed recursively).
`flat` is what the PEG hands to `make_tree`; `val` is the tree the property demands
(each operator applied to exactly its written operands).
`Compat` says the tree is the one operator precedence prescribes for its own flat text:
 * left operand binds at least as tight (left associativity),
 * every other operand binds strictly tighter,
 * a prefix / suffix operator applies to something that binds at least as tight.
-/
namespace MoSql.Infix

inductive W (V : Type) where
  | leaf (v : V)
  | pre (k : Nat) (t : Tok V) (x : W V)
  | suf (k : Nat) (x : W V) (t : Tok V)
  | bin (k : Nat) (l : W V) (t : Tok V) (r : W V)
  | tern (k : Nat) (a : W V) (t0 : Tok V) (b : W V) (t1 : Tok V) (c : W V)

variable {V : Type}

def W.flat : W V → List (Item V)
  | .leaf v => [.val v]
  | .pre _ t x => .op t :: x.flat
  | .suf _ x t => x.flat ++ [.op t]
  | .bin _ l t r => l.flat ++ .op t :: r.flat
  | .tern _ a t0 b t1 c => a.flat ++ .op t0 :: (b.flat ++ .op t1 :: c.flat)

def W.val (B : Builders V) (lv : List Level) : W V → V
  | .leaf v => v
  | .pre k t x => B.mkPre (lv.getD k default) t (x.val B lv)
  | .suf k x t => B.mkSuf (lv.getD k default) (x.val B lv) t
  | .bin k l t r => B.mkBin (lv.getD k default) (l.val B lv) t (r.val B lv)
  | .tern k a t0 b t1 c =>
    B.mkTern (lv.getD k default) (a.val B lv) t0 (b.val B lv) t1 (c.val B lv)

/-- number of operator nodes -/
def W.size : W V → Nat
  | .leaf _ => 0
  | .pre _ _ x => x.size + 1
  | .suf _ x _ => x.size + 1
  | .bin _ l _ r => l.size + r.size + 1
  | .tern _ a _ b _ c => a.size + b.size + c.size + 1

/-- level of the root operator (`none` for a leaf) -/
def W.top : W V → Option Nat
  | .leaf _ => none
  | .pre k _ _ => some k
  | .suf k _ _ => some k
  | .bin k _ _ _ => some k
  | .tern k _ _ _ _ _ => some k

/-- root binds at least as tight as level `k` -/
def W.le (w : W V) (k : Nat) : Prop := ∀ j, w.top = some j → j ≤ k
/-- root binds strictly tighter than level `k` -/
def W.lt (w : W V) (k : Nat) : Prop := ∀ j, w.top = some j → j < k

/-- level `k` of the table is of kind `kd` and is triggered by tokens with identity `id0` -/
def NodeOk (lv : List Level) (k : Nat) (kd : Kind) (id0 : Nat) : Prop :=
  ∃ L, lv[k]? = some L ∧ L.kind = kd ∧ L.id0 = id0

/-- every node uses the tokens of its level -/
def W.WF (lv : List Level) : W V → Prop
  | .leaf _ => True
  | .pre k t x => NodeOk lv k Kind.pre t.id ∧ x.WF lv
  | .suf k x t => NodeOk lv k Kind.suf t.id ∧ x.WF lv
  | .bin k l t r => NodeOk lv k Kind.bin t.id ∧ l.WF lv ∧ r.WF lv
  | .tern k a t0 b t1 c =>
    (∃ L, lv[k]? = some L ∧ L.kind = Kind.tern ∧ L.id0 = t0.id ∧ L.id1 = t1.id) ∧
      a.WF lv ∧ b.WF lv ∧ c.WF lv

/-- some node of `w` is at level `k` -/
def W.has (k : Nat) : W V → Bool
  | .leaf _ => false
  | .pre j _ x => j == k || x.has k
  | .suf j x _ => j == k || x.has k
  | .bin j l _ r => j == k || l.has k || r.has k
  | .tern j a _ b _ c => j == k || a.has k || b.has k || c.has k

/-- structural facts about the level table that the reducer relies on:
operator identities are not shared between levels, and the second token of a ternary
level (BETWEEN … AND) is shared only with a LOOSER level. -/
def LevelsOK (lv : List Level) : Prop :=
  (∀ (i j : Nat) (Li Lj : Level), lv[i]? = some Li → lv[j]? = some Lj → Li.id0 = Lj.id0 → i = j) ∧
  (∀ (t j : Nat) (Lt Lj : Level), lv[t]? = some Lt → Lt.kind = Kind.tern → lv[j]? = some Lj → j ≤ t → Lj.id0 ≠ Lt.id1)

def W.Compat : W V → Prop
  | .leaf _ => True
  | .pre k _ x => x.le k ∧ x.Compat
  | .suf k x _ => x.le k ∧ x.Compat
  | .bin k l _ r => l.le k ∧ r.lt k ∧ l.Compat ∧ r.Compat
  | .tern k a _ b _ c => a.le k ∧ b.lt k ∧ c.lt k ∧ a.Compat ∧ b.Compat ∧ c.Compat

end MoSql.Infix
