import MoSql.Infix
/-
Written expressions over operator levels: the specification side of `make_tree`.
`W` is a parenthesis-free operator tree whose leaves are already-built values
(atoms, or parenthesised sub-expressions that were parsed recursively).
`flat` is what the PEG hands to `make_tree`; `val` is the tree the property demands
(each operator applied to exactly its written operands).
`Compat` says the tree is the one operator precedence prescribes for its own flat text:
 * left operand binds at least as tight (left associativity),
 * every other operand binds strictly tighter,
 * a prefix / suffix operator applies to something that binds at least as tight.
-/
namespace MoSql.Infix

inductive W (V : Type) where
  | leaf (v : V)
  | pre (k : Nat) (t : Tok V) (x : W V)
  | suf (k : Nat) (x : W V) (t : Tok V)
  | bin (k : Nat) (l : W V) (t : Tok V) (r : W V)
  | tern (k : Nat) (a : W V) (t0 : Tok V) (b : W V) (t1 : Tok V) (c : W V)

variable {V : Type}

def W.flat : W V → List (Item V)
  | .leaf v => [.val v]
  | .pre _ t x => .op t :: x.flat
  | .suf _ x t => x.flat ++ [.op t]
  | .bin _ l t r => l.flat ++ .op t :: r.flat
  | .tern _ a t0 b t1 c => a.flat ++ .op t0 :: (b.flat ++ .op t1 :: c.flat)

def W.val (B : Builders V) (lv : List Level) : W V → V
  | .leaf v => v
  | .pre k t x => B.mkPre (lv.getD k default) t (x.val B lv)
  | .suf k x t => B.mkSuf (lv.getD k default) (x.val B lv) t
  | .bin k l t r => B.mkBin (lv.getD k default) (l.val B lv) t (r.val B lv)
  | .tern k a t0 b t1 c =>
    B.mkTern (lv.getD k default) (a.val B lv) t0 (b.val B lv) t1 (c.val B lv)

/-- number of operator nodes -/
def W.size : W V → Nat
  | .leaf _ => 0
  | .pre _ _ x => x.size + 1
  | .suf _ x _ => x.size + 1
  | .bin _ l _ r => l.size + r.size + 1
  | .tern _ a _ b _ c => a.size + b.size + c.size + 1

/-- level of the root operator (`none` for a leaf) -/
def W.top : W V → Option Nat
  | .leaf _ => none
  | .pre k _ _ => some k
  | .suf k _ _ => some k
  | .bin k _ _ _ => some k
  | .tern k _ _ _ _ _ => some k

/-- root binds at least as tight as level `k` -/
def W.le (w : W V) (k : Nat) : Prop := ∀ j, w.top = some j → j ≤ k
/-- root binds strictly tighter than level `k` -/
def W.lt (w : W V) (k : Nat) : Prop := ∀ j, w.top = some j → j < k

/-- level `k` of the table is of kind `kd` and is triggered by tokens with identity `id0` -/
def NodeOk (lv : List Level) (k : Nat) (kd : Kind) (id0 : Nat) : Prop :=
  ∃ L, lv[k]? = some L ∧ L.kind = kd ∧ L.id0 = id0

/-- every node uses the tokens of its level -/
def W.WF (lv : List Level) : W V → Prop
  | .leaf _ => True
  | .pre k t x => NodeOk lv k Kind.pre t.id ∧ x.WF lv
  | .suf k x t => NodeOk lv k Kind.suf t.id ∧ x.WF lv
  | .bin k l t r => NodeOk lv k Kind.bin t.id ∧ l.WF lv ∧ r.WF lv
  | .tern k a t0 b t1 c =>
    (∃ L, lv[k]? = some L ∧ L.kind = Kind.tern ∧ L.id0 = t0.id ∧ L.id1 = t1.id) ∧
      a.WF lv ∧ b.WF lv ∧ c.WF lv

/-- some node of `w` is at level `k` -/
def W.has (k : Nat) : W V → Bool
  | .leaf _ => false
  | .pre j _ x => j == k || x.has k
  | .suf j x _ => j == k || x.has k
  | .bin j l _ r => j == k || l.has k || r.has k
  | .tern j a _ b _ c => j == k || a.has k || b.has k || c.has k

/-- structural facts about the level table that the reducer relies on:
operator identities are not shared between levels, and the second token of a ternary
level (BETWEEN … AND) is shared only with a LOOSER level. -/
def LevelsOK (lv : List Level) : Prop :=
  (∀ (i j : Nat) (Li Lj : Level), lv[i]? = some Li → lv[j]? = some Lj → Li.id0 = Lj.id0 → i = j) ∧
  (∀ (t j : Nat) (Lt Lj : Level), lv[t]? = some Lt → Lt.kind = Kind.tern → lv[j]? = some Lj → j ≤ t → Lj.id0 ≠ Lt.id1)

def W.Compat : W V → Prop
  | .leaf _ => True
  | .pre k _ x => x.le k ∧ x.Compat
  | .suf k x _ => x.le k ∧ x.Compat
  | .bin k l _ r => l.le k ∧ r.lt k ∧ l.Compat ∧ r.Compat
  | .tern k a _ b _ c => a.le k ∧ b.lt k ∧ c.lt k ∧ a.Compat ∧ b.Compat ∧ c.Compat

end MoSql.Infix

/-! ### decidable versions (used by the driver and by `decide`) -/
namespace MoSql.Infix
variable {V : Type}

def W.leB (w : W V) (k : Nat) : Bool :=
  match w.top with
  | none => true
  | some j => decide (j ≤ k)

def W.ltB (w : W V) (k : Nat) : Bool :=
  match w.top with
  | none => true
  | some j => decide (j < k)

def W.compatB : W V → Bool
  | .leaf _ => true
  | .pre k _ x => x.leB k && x.compatB
  | .suf k x _ => x.leB k && x.compatB
  | .bin k l _ r => l.leB k && r.ltB k && l.compatB && r.compatB
  | .tern k a _ b _ c => a.leB k && b.ltB k && c.ltB k && a.compatB && b.compatB && c.compatB

def nodeOkB (lv : List Level) (k : Nat) (kd : Kind) (id0 : Nat) : Bool :=
  match lv[k]? with
  | some L => L.kind == kd && L.id0 == id0
  | none => false

def W.wfB (lv : List Level) : W V → Bool
  | .leaf _ => true
  | .pre k t x => nodeOkB lv k .pre t.id && x.wfB lv
  | .suf k x t => nodeOkB lv k .suf t.id && x.wfB lv
  | .bin k l t r => nodeOkB lv k .bin t.id && l.wfB lv && r.wfB lv
  | .tern k a t0 b t1 c =>
    (match lv[k]? with
     | some L => L.kind == Kind.tern && L.id0 == t0.id && L.id1 == t1.id
     | none => false) && a.wfB lv && b.wfB lv && c.wfB lv

theorem W.le_of_leB {w : W V} {k : Nat} (h : w.leB k = true) : w.le k := by
  intro j hj; simp [W.leB, hj] at h; exact h

theorem W.lt_of_ltB {w : W V} {k : Nat} (h : w.ltB k = true) : w.lt k := by
  intro j hj; simp [W.ltB, hj] at h; exact h

theorem W.compat_of_compatB : ∀ {w : W V}, w.compatB = true → w.Compat
  | .leaf _, _ => trivial
  | .pre _ _ x, h => by
    simp only [W.compatB, Bool.and_eq_true] at h
    exact ⟨W.le_of_leB h.1, W.compat_of_compatB h.2⟩
  | .suf _ x _, h => by
    simp only [W.compatB, Bool.and_eq_true] at h
    exact ⟨W.le_of_leB h.1, W.compat_of_compatB h.2⟩
  | .bin _ l _ r, h => by
    simp only [W.compatB, Bool.and_eq_true] at h
    exact ⟨W.le_of_leB h.1.1.1, W.lt_of_ltB h.1.1.2, W.compat_of_compatB h.1.2,
      W.compat_of_compatB h.2⟩
  | .tern _ a _ b _ c, h => by
    simp only [W.compatB, Bool.and_eq_true] at h
    exact ⟨W.le_of_leB h.1.1.1.1.1, W.lt_of_ltB h.1.1.1.1.2, W.lt_of_ltB h.1.1.1.2,
      W.compat_of_compatB h.1.1.2, W.compat_of_compatB h.1.2, W.compat_of_compatB h.2⟩

theorem nodeOk_of_nodeOkB {lv : List Level} {k : Nat} {kd : Kind} {id0 : Nat}
    (h : nodeOkB lv k kd id0 = true) : NodeOk lv k kd id0 := by
  unfold nodeOkB at h
  cases hL : lv[k]? with
  | none => simp [hL] at h
  | some L =>
    simp only [hL, Bool.and_eq_true, beq_iff_eq] at h
    exact ⟨L, hL, h.1, h.2⟩

theorem W.wf_of_wfB {lv : List Level} : ∀ {w : W V}, w.wfB lv = true → w.WF lv
  | .leaf _, _ => trivial
  | .pre _ _ x, h => by
    simp only [W.wfB, Bool.and_eq_true] at h
    exact ⟨nodeOk_of_nodeOkB h.1, W.wf_of_wfB h.2⟩
  | .suf _ x _, h => by
    simp only [W.wfB, Bool.and_eq_true] at h
    exact ⟨nodeOk_of_nodeOkB h.1, W.wf_of_wfB h.2⟩
  | .bin _ l _ r, h => by
    simp only [W.wfB, Bool.and_eq_true] at h
    exact ⟨nodeOk_of_nodeOkB h.1.1, W.wf_of_wfB h.1.2, W.wf_of_wfB h.2⟩
  | .tern k a t0 b t1 c, h => by
    simp only [W.wfB, Bool.and_eq_true] at h
    obtain ⟨⟨⟨h0, ha⟩, hb⟩, hc⟩ := h
    refine ⟨?_, W.wf_of_wfB ha, W.wf_of_wfB hb, W.wf_of_wfB hc⟩
    cases hL : lv[k]? with
    | none => simp [hL] at h0
    | some L =>
      simp only [hL, Bool.and_eq_true, beq_iff_eq] at h0
      exact ⟨L, rfl, h0.1.1, h0.1.2, h0.2⟩

/-- Boolean form of `LevelsOK`, decidable on the generated table -/
def levelsOKB (lv : List Level) : Bool :=
  let idx := List.range lv.length
  idx.all (fun i => idx.all (fun j =>
    match lv[i]?, lv[j]? with
    | some Li, some Lj =>
      (Li.id0 != Lj.id0 || i == j) &&
      (!(Li.kind == Kind.tern && j ≤ i) || Lj.id0 != Li.id1)
    | _, _ => true))

end MoSql.Infix
