import MoSql.Infix
import MoSql.Prec
