import Lean.Data.Json
import MoSql.Gen.Levels
import MoSql.Gen.FmtTable
import MoSql.Script
import MoSql.Query
import MoSql.Lex
import MoSql.Window
import MoSql.Skip
import MoSql.Dml
import MoSql.Peg
import MoSql.Sources
/-
Line-protocol driver: one JSON request per line on stdin, one JSON answer per line on stdout.
Imports the model files and Lean's JSON library only (no Mathlib), so it is also built as the
`driver` executable.
-/
open Lean (Json)
open MoSql MoSql.Infix

namespace Drv

def err (msg : String) : Except String α := .error msg

/-- values in the harness' canonical encoding → `J` -/
partial def toJ : Json → Except String J
  | .null => pure .null
  | .bool b => pure (.bool b)
  | .str s => pure (.str s)
  | .num n => pure (.int n.mantissa)  -- plain numbers are only used for small ints
  | .arr xs => do
    let ys ← xs.toList.mapM toJ
    pure (.arr ys)
  | .obj kvs => do
    let l := kvs.toList
    match l with
    | [("$i", .str s)] =>
      match s.toInt? with
      | some i => pure (.int i)
      | none => err ("bad $i " ++ s)
    | [("$f", .str s)] => pure (.flt s)
    | [("$none", _)] => pure .null
    | [("$obj", .str s)] => pure (.opaque s)
    | _ => do
      let ys ← l.mapM fun (k, v) => do
        let j ← toJ v
        pure (k, j)
      pure (.obj ys)

/-- raw trees: like `J` plus `{"$null":1}`, `["$call", op, args, kwargs]`, `["$grp", r]`, `["$list", …]` -/
partial def toRaw : Json → Except String Raw
  | .null => pure .none
  | .bool b => pure (.bool b)
  | .str s => pure (.str s)
  | .num n => pure (.int n.mantissa)
  | .arr xs =>
    match xs.toList with
    | [.str "$call", .str op, args, .obj kw] => do
      let a ← toRaw args
      let k ← kw.toList.mapM fun (k, v) => do
        let r ← toRaw v
        pure (k, r)
      pure (.call op a k)
    | [.str "$callo", .str op, args, .arr kw] => do
      -- kwargs as an ordered list of [key, value] pairs
      let a ← toRaw args
      let k ← kw.toList.mapM fun kv =>
        match kv with
        | .arr #[.str k, v] => do
          let r ← toRaw v
          pure (k, r)
        | _ => err "bad kw pair"
      pure (.call op a k)
    | [.str "$grp", r] => do
      let x ← toRaw r
      pure (.grp x)
    | .str "$list" :: rest => do
      let ys ← rest.mapM toRaw
      pure (.list ys)
    | .str "$dict" :: rest => do
      let ys ← rest.mapM fun kv =>
        match kv with
        | .arr #[.str k, v] => do
          let r ← toRaw v
          pure (k, r)
        | _ => err "bad dict pair"
      pure (.dict ys)
    | l => do
      let ys ← l.mapM toRaw
      pure (.list ys)
  | .obj kvs => do
    let l := kvs.toList
    match l with
    | [("$i", .str s)] =>
      match s.toInt? with
      | some i => pure (.int i)
      | none => err ("bad $i " ++ s)
    | [("$f", .str s)] => pure (.flt s)
    | [("$null", _)] => pure .sqlNull
    | [("$none", _)] => pure .none
    | _ => do
      let ys ← l.mapM fun (k, v) => do
        let r ← toRaw v
        pure (k, r)
      pure (.dict ys)

def findOp (key : String) : Except String OpInfo :=
  match Gen.ops.find? (fun o => o.key == key) with
  | some o => pure o
  | none => err ("unknown operator key " ++ key)

partial def toE : Json → Except String E
  | .arr xs =>
    match xs.toList with
    | [.str "atom", .str t, r] => do
      let x ← toRaw r
      pure (.atom t x)
    | [.str "paren", e] => do
      let x ← toE e
      pure (.paren x)
    | [.str "call", .str f, .arr args] => do
      let ys ← args.toList.mapM toE
      pure (.call f ys)
    | [.str "pre", .str k, e] => do
      let o ← findOp k
      let x ← toE e
      pure (.pre o x)
    | [.str "cast", e, .str ty] => do
      let o ← findOp "::"
      let x ← toE e
      pure (.cast o x ty)
    | [.str "bin", .str k, l, r] => do
      let o ← findOp k
      let x ← toE l
      let y ← toE r
      pure (.bin o x y)
    | [.str "tern", .str k, a, b, c] => do
      let o ← findOp k
      let x ← toE a
      let y ← toE b
      let z ← toE c
      pure (.tern o x y z)
    | _ => err "bad E"
  | _ => err "bad E"

def getCfg (req : Json) : Cfg :=
  let mode := match req.getObjValAs? String "mode" with
    | .ok "normal" => Mode.normal
    | _ => Mode.simple
  let fmap := match req.getObjVal? "fmap" with
    | .ok (.obj kvs) => kvs.toList.filterMap fun (k, v) =>
        match v with
        | .str s => some (k, s)
        | _ => none
    | _ => []
  { mode := mode, fmap := fmap }

def getNull (req : Json) : Except String J :=
  match req.getObjVal? "null" with
  | .ok v => toJ v
  | .error _ => pure Scrub.sqlNullNode

def jstr (s : String) : String := "\"" ++ J.escapeStr s ++ "\""

def handleExpr (req : Json) : Except String String := do
  let ej ← req.getObjVal? "e"
  let e ← toE ej
  let cfg := getCfg req
  let x ← getNull req
  let model := E.parseE Gen.ctx cfg x e
  let drops := E.dropsTop Gen.ctx e
  pure ("{\"sql\":" ++ jstr (E.render e) ++ ",\"model\":" ++ model.render ++
    ",\"drops\":" ++ toString drops ++ ",\"ok\":" ++ toString (E.okTop Gen.ctx e) ++ "}")

def handleScrub (req : Json) : Except String String := do
  let rj ← req.getObjVal? "raw"
  let r ← toRaw rj
  let cfg := getCfg req
  let x ← getNull req
  pure ("{\"model\":" ++ (Scrub.parse1 cfg x r).render ++ "}")

partial def toT : Json → Except String T
  | .arr xs =>
    match xs.toList with
    | [.str "leaf", .str t, r] => do
      let x ← toRaw r
      pure (.leaf t x)
    | [.str "bin", .str name, l, r] => do
      match Gen.fmtOps.findIdx? (fun o => o.name == name) with
      | some k => do
        let x ← toT l
        let y ← toT r
        pure (.bin k x y)
      | none => err ("not an Operator renderer: " ++ name)
    | _ => err "bad T"
  | _ => err "bad T"

partial def toT2 : Json → Except String T2
  | .arr xs =>
    let idx := fun (name : String) => match Gen.allOps.findIdx? (fun o => o.name == name) with
      | some k => pure k
      | none => (err ("not a renderer of the table: " ++ name) : Except String Nat)
    match xs.toList with
    | [.str "leaf", .str t, r] => do
      let x ← toRaw r
      pure (.leaf t x)
    | [.str "un", .str name, x] => do
      let k ← idx name
      let a ← toT2 x
      pure (.un k a)
    | [.str "bin", .str name, l, r] => do
      let k ← idx name
      let a ← toT2 l
      let b ← toT2 r
      pure (.bin k a b)
    | [.str "tern", .str name, a, b, c] => do
      let k ← idx name
      let x ← toT2 a
      let y ← toT2 b
      let z ← toT2 c
      pure (.tern k x y z)
    | _ => err "bad T2"
  | _ => err "bad T2"

def handleFmt2 (req : Json) : Except String String := do
  let tj ← req.getObjVal? "t"
  let t ← toT2 tj
  let p := match req.getObjValAs? Int "prec2" with
    | .ok p => p
    | .error _ => 200
  let e := Fmt2.fmt Gen.allOps t p
  pure ("{\"sql\":" ++ jstr (E.render e) ++ ",\"ok\":" ++ toString (E.okTop Gen.ctx e) ++
    ",\"admissible\":" ++ toString (Fmt2.admissible [] Gen.allOps t) ++
    ",\"drops\":" ++ toString (E.dropsTop Gen.ctx e) ++ "}")

def handleFmt (req : Json) : Except String String := do
  let tj ← req.getObjVal? "t"
  let t ← toT tj
  let p := match req.getObjValAs? Int "prec2" with
    | .ok p => p
    | .error _ => 200
  let e := Fmt.fmtE Gen.fmtOps t p
  let model := E.parseE Gen.ctx {} Scrub.sqlNullNode e
  pure ("{\"sql\":" ++ jstr (E.render e) ++ ",\"ok\":" ++ toString (E.okTop Gen.ctx e) ++
    ",\"admissible\":" ++ toString (Fmt.admissible Gen.knownFmtTriples Gen.fmtOps t) ++
    ",\"model\":" ++ model.render ++ "}")

/-- rows of the formatter table that violate the soundness obligation (ignoring the known list) -/
def handleFmtTable : String :=
  let bad := Gen.fmtOps.foldl (fun acc o =>
    Gen.fmtOps.foldl (fun acc c =>
      let acc := if Fmt.tripleOK [] o c 0 then acc else acc ++ ["[" ++ jstr o.name ++ ",0," ++ jstr c.name ++ "]"]
      if Fmt.tripleOK [] o c 1 then acc else acc ++ ["[" ++ jstr o.name ++ ",1," ++ jstr c.name ++ "]"]) acc) []
  "{\"bad\":[" ++ ",".intercalate bad ++ "],\"ops\":[" ++
    ",".intercalate (Gen.fmtOps.map fun o => jstr o.name) ++ "]}"

def handleScript (req : Json) : Except String String := do
  let text ← req.getObjValAs? String "text"
  let ps := Script.pieces text.toList
  let items := ps.map fun p =>
    match p with
    | .stmt t => "[\"s\"," ++ jstr (String.ofList t) ++ "]"
    | .directive t => "[\"d\"," ++ jstr (String.ofList t) ++ "]"
  pure ("{\"pieces\":[" ++ ",".intercalate items ++ "]}")

def handleUnion (req : Json) : Except String String := do
  let first ← toJ (← req.getObjVal? "first")
  let restJ ← req.getObjVal? "rest"
  let rest ← match restJ with
    | .arr xs => xs.toList.mapM fun p =>
        match p with
        | .arr #[.str op, v] => do
          let j ← toJ v
          pure (op, j)
        | _ => err "bad chain element"
    | _ => err "rest must be a list"
  let get := fun (k : String) => match req.getObjVal? k with
    | .ok v => toJ v
    | .error _ => pure J.null
  let ob ← get "orderby"
  let lim ← get "limit"
  let off ← get "offset"
  let model := Query.toUnionCall first rest ob lim off
  let sp := Query.spec first rest.length rest
  pure ("{\"model\":" ++ model.render ++ ",\"spec\":" ++ sp.render ++ "}")

def optStr : Option (List Char) → String
  | some cs => "{\"ok\":" ++ jstr (String.ofList cs) ++ "}"
  | none => "{\"err\":true}"

def handleLex (req : Json) : Except String String := do
  let text ← req.getObjValAs? String "text"
  let what ← req.getObjValAs? String "what"
  let cs := text.toList
  match what with
  | "encodeSQ" => pure (optStr (some (Lex.encodeSQ cs)))
  | "encodeDQ" => pure (optStr (some (Lex.encodeDQ cs)))
  | "decodeImpl" => pure (optStr (Lex.decodeImpl cs))
  | "decodeImplDQ" => pure (optStr (Lex.decodeImplDQ cs))
  | "decodeSpec" => pure (optStr (Lex.decodeSpec cs))
  | "decodeAnsiIdent" => pure (optStr (Lex.decodeAnsiIdent cs))
  | "decodeBacktickIdent" => pure (optStr (Lex.decodeBacktickIdent cs))
  | "decodeSquareIdent" => pure (optStr (Lex.decodeSquareIdent cs))
  | "literalField" => pure (optStr (some (Lex.literalField cs)))
  | "matchSQ" =>
    match Lex.matchSQ cs with
    | some (b, r) => pure ("{\"body\":" ++ jstr (String.ofList b) ++ ",\"rest\":" ++ jstr (String.ofList r) ++ "}")
    | none => pure "{\"err\":true}"
  | "digits" =>
    match text.toNat? with
    | some n => pure ("{\"ok\":" ++ jstr (String.ofList (Lex.digits n)) ++ ",\"back\":" ++ jstr (toString (Lex.parseNat (Lex.digits n))) ++ "}")
    | none => err "not a number"
  | "parseInt" => pure ("{\"value\":" ++ jstr (toString (Lex.parseIntText cs)) ++ "}")
  | w => err ("unknown lex request " ++ w)

def toBoundJ : Json → Except String Window.Bound
  | .str "current" => pure .current
  | .str "up" => pure .unboundedPreceding
  | .str "uf" => pure .unboundedFollowing
  | .arr #[.str "p", .num n] => pure (.preceding n.mantissa.toNat)
  | .arr #[.str "f", .num n] => pure (.following n.mantissa.toNat)
  | _ => err "bad bound"

def frameJ (f : Window.Frame) : String :=
  let part := fun (k : String) (v : Option Int) => match v with
    | some i => ["\"" ++ k ++ "\":{\"$i\":\"" ++ toString i ++ "\"}"]
    | none => []
  "{" ++ ",".intercalate (part "max" f.max ++ part "min" f.min) ++ "}"

def boundText : Window.Bound → String
  | .current => "CURRENT ROW"
  | .unboundedPreceding => "UNBOUNDED PRECEDING"
  | .unboundedFollowing => "UNBOUNDED FOLLOWING"
  | .preceding n => toString n ++ " PRECEDING"
  | .following n => toString n ++ " FOLLOWING"

def synText : Window.FrameSyn → String
  | .single b => "ROWS " ++ boundText b
  | .between a b => "ROWS BETWEEN " ++ boundText a ++ " AND " ++ boundText b

def handleFrame (req : Json) : Except String String := do
  let fj ← req.getObjVal? "f"
  let f ← match fj with
    | .arr #[.str "single", b] => do pure (Window.FrameSyn.single (← toBoundJ b))
    | .arr #[.str "between", a, b] => do pure (Window.FrameSyn.between (← toBoundJ a) (← toBoundJ b))
    | _ => err "bad frame"
  let parsed := Window.parseFrame f
  let fmt := match Window.fmtFrame parsed with
    | some (some g) => jstr (synText g)
    | some none => "\"\""
    | none => "{\"$err\":\"TypeError\"}"
  pure ("{\"model\":" ++ frameJ parsed ++ ",\"spec\":" ++ frameJ (Window.specFrame f) ++
    ",\"valid\":" ++ toString (Window.valid f) ++ ",\"fmt\":" ++ fmt ++ "}")

def handleAccumulate (req : Json) : Except String String := do
  let outs ← req.getObjVal? "outs"
  match outs with
  | .arr xs => do
    let js ← xs.toList.mapM toJ
    pure ("{\"model\":" ++ (Script.unwrap (Script.accumulate js)).render ++ "}")
  | _ => err "outs must be a list"

def handleSkip (req : Json) : Except String String := do
  let text ← req.getObjValAs? String "text"
  pure ("{\"n\":" ++ toString (Skip.skipCount text) ++ "}")

def handleInsert (req : Json) : Except String String := do
  let cols : Option (List String) := match req.getObjVal? "cols" with
    | .ok (.arr xs) => some (xs.toList.filterMap fun j => match j with | .str s => some s | _ => none)
    | _ => none
  let rowsJ ← req.getObjVal? "rows"
  let rows ← match rowsJ with
    | .arr rs => rs.toList.mapM fun r =>
        match r with
        | .arr cells => cells.toList.mapM fun c =>
            match c with
            | .arr #[.str "lit", .bool t] => pure (Dml.Cell.lit () t)
            | .arr #[.str "other"] => pure (Dml.Cell.other ())
            | _ => err "bad cell"
        | _ => err "bad row"
    | _ => err "rows must be a list"
  let shape := match Dml.toInsert cols rows with
    | .valuesDicts _ => "valuesDicts"
    | .valuesLists _ => "valuesLists"
    | .query _ _ => "query"
  pure ("{\"shape\":\"" ++ shape ++ "\"}")


/-! ### the recogniser engine (`MoSql.Peg`) on small grammars -/
def chars (j : Json) : Except String (List Char) :=
  match j with
  | .str s => pure s.toList
  | _ => err "string expected"

def ranges (j : Json) : Except String (List (Char × Char)) :=
  match j with
  | .str s => pure (s.toList.map fun c => (c, c))
  | _ => err "character set expected"

partial def toG : Json → Except String Peg.G
  | .arr #[.str "lit", s, .bool cl] => do pure (.term (.lit (← chars s) cl))
  | .arr #[.str "kw", s, .bool cl] => do pure (.term (.kw (← chars s) cl))
  | .arr #[.str "word", a, b] => do pure (.term (.word (← ranges a) (← ranges b)))
  | .arr #[.str "quoted", .str q] =>
    match q.toList with
    | [c] => pure (.term (.quoted c))
    | _ => err "one quote character expected"
  | .arr #[.str "empty"] => pure .empty
  | .arr #[.str "seq", .num ws, .arr gs] => do pure (.seq ws.mantissa.toNat (← gs.toList.mapM toG))
  | .arr #[.str "alt", .arr gs] => do pure (.alt (← gs.toList.mapM toG))
  | .arr #[.str "longest", .arr gs] => do pure (.longest (← gs.toList.mapM toG))
  | .arr #[.str "many", .num ws, g, .num mn, .num mx] => do pure (.many ws.mantissa.toNat (← toG g) mn.mantissa.toNat mx.mantissa.toNat)
  | .arr #[.str "opt", g] => do pure (.opt (← toG g))
  | .arr #[.str "group", g] => do pure (.group (← toG g))
  | .arr #[.str "suppress", g] => do pure (.suppress (← toG g))
  | .arr #[.str "ref", .num n] => pure (.ref n.mantissa.toNat)
  | .arr #[.str "not", g] => do pure (.notAhead (← toG g))
  | .arr #[.str "ahead", g] => do pure (.ahead (← toG g))
  | j => err ("bad grammar node " ++ j.compress)

partial def tokJ : Peg.Tok → String
  | .leaf s => jstr (String.ofList s)
  | .group ts => "[" ++ ",".intercalate (ts.map tokJ) ++ "]"

def pegSkip (ws : Nat) (x : List Char) : List Char := Peg.engines ws x

def handlePeg (req : Json) : Except String String := do
  let rulesJ ← req.getObjVal? "rules"
  let rules ← match rulesJ with
    | .arr rs => rs.toList.mapM toG
    | _ => err "rules must be a list"
  let start ← toG (← req.getObjVal? "start")
  let topWs ← req.getObjValAs? Nat "top_ws"
  let fuel ← req.getObjValAs? Nat "fuel"
  let parseAll := match req.getObjValAs? Bool "parse_all" with | .ok b => b | _ => false
  let inputsJ ← req.getObjVal? "inputs"
  let inputs ← match inputsJ with
    | .arr xs => xs.toList.mapM chars
    | _ => err "inputs must be a list"
  let E : Peg.Env := { skip := pegSkip, rule := fun i => rules.getD i .empty }
  let outs := inputs.map fun x =>
    match Peg.parseTop E fuel topWs start parseAll x with
    | .fail => "[\"fail\"]"
    | .diverge => "[\"diverge\"]"
    | .ok ts r => "[\"ok\",[" ++ ",".intercalate (ts.map tokJ) ++ "]," ++ toString (x.length - r.length) ++ "]"
  pure ("{\"model\":[" ++ ",".intercalate outs ++ "]}")


/-- `to_flat_column_type` on a column description: keys / type name / kwargs of the type call (values are opaque JSON texts) -/
def handleFlatCol (req : Json) : Except String String := do
  let pairs (j : Json) : Except String (List (String × String)) :=
    match j with
    | .arr xs => xs.toList.mapM fun p =>
        match p with
        | .arr #[.str k, v] => pure (k, v.compress)
        | _ => err "pair expected"
    | _ => err "list of pairs expected"
  let keys ← pairs (← req.getObjVal? "keys")
  let kw ← pairs (← req.getObjVal? "kw")
  let ty ← req.getObjValAs? String "type"
  let c : Dml.ColDesc String := { keys := keys, typeName := ty, typeKw := kw }
  let r := Dml.flatColumn c
  let show_ (l : List (String × String)) : String := "[" ++ ",".intercalate (l.map fun (k, v) => "[" ++ jstr k ++ "," ++ v ++ "]") ++ "]"
  pure ("{\"keys\":" ++ show_ r.keys ++ ",\"type\":" ++ jstr r.typeName ++ ",\"kw\":" ++ show_ r.typeKw ++ "}")

/-- `Sources.fmt` on a list of sources: item = ["plain", src] | ["join", kind, src, cond]; src = ["tbl", name] | ["group", [items]];
cond = ["none"] | ["on", k] | ["using", k] -/
partial def srcOfJson : Json → Except String Sources.Src
  | .arr #[.str "tbl", .str n] => pure (.tbl n)
  | .arr #[.str "group", .arr items] => do pure (.group (← items.toList.mapM itemOfJson))
  | _ => err "source expected"
where
  itemOfJson : Json → Except String Sources.Item
    | .arr #[.str "plain", s] => do pure (.plain (← srcOfJson s))
    | .arr #[.str "join", .str k, s, c] => do
      let cond ← match c with
        | .arr #[.str "none"] => pure Sources.Cond.none
        | .arr #[.str "on", (.num n)] => pure (Sources.Cond.on n.mantissa.toNat)
        | .arr #[.str "using", (.num n)] => pure (Sources.Cond.using n.mantissa.toNat)
        | _ => err "condition expected"
      pure (.join k (← srcOfJson s) cond)
    | _ => err "item expected"

def handleSources (req : Json) : Except String String := do
  let items ← match (← req.getObjVal? "items") with
    | .arr xs => xs.toList.mapM srcOfJson.itemOfJson
    | _ => err "list of items expected"
  let ts := Sources.fmt items
  let show_ : Sources.Tok → String
    | .name n => jstr ("n:" ++ n)
    | .lp => jstr "("
    | .rp => jstr ")"
    | .comma => jstr ","
    | .join k => jstr ("j:" ++ k)
    | .on k => jstr ("on:" ++ toString k)
    | .using k => jstr ("using:" ++ toString k)
  pure ("{\"tokens\":[" ++ ",".intercalate (ts.map show_) ++ "],\"separated\":" ++ toString (Sources.wellSeparated ts)
    ++ ",\"balanced\":" ++ toString (Sources.balanced ts) ++ "}")

def handle (line : String) : String :=
  match Json.parse line with
  | .error e => "{\"error\":" ++ jstr ("json: " ++ e) ++ "}"
  | .ok req =>
    let r : Except String String :=
      match req.getObjValAs? String "op" with
      | .ok "expr" => handleExpr req
      | .ok "scrub" => handleScrub req
      | .ok "fmt" => handleFmt req
      | .ok "fmt2" => handleFmt2 req
      | .ok "script" => handleScript req
      | .ok "accumulate" => handleAccumulate req
      | .ok "union" => handleUnion req
      | .ok "lex" => handleLex req
      | .ok "frame" => handleFrame req
      | .ok "skip" => handleSkip req
      | .ok "insert" => handleInsert req
      | .ok "peg" => handlePeg req
      | .ok "flatcol" => handleFlatCol req
      | .ok "sources" => handleSources req
      | .ok "fmtTable" => pure handleFmtTable
      | .ok "ping" => pure "{\"pong\":true}"
      | .ok o => err ("unknown op " ++ o)
      | .error e => err e
    match r with
    | .ok s => s
    | .error e => "{\"error\":" ++ jstr e ++ "}"

end Drv

partial def loop (hin : IO.FS.Stream) (hout : IO.FS.Stream) : IO Unit := do
  let line ← hin.getLine
  if line.isEmpty then return ()
  let t := line.trimAscii.toString
  if t.isEmpty then
    loop hin hout
  else
    hout.putStrLn (Drv.handle t)
    loop hin hout

def main : IO Unit := do
  let hin ← IO.getStdin
  let hout ← IO.getStdout
  loop hin hout
  hout.flush
