#!/bin/bash
# Offline build of the framework: regenerate the tables from /repo, build every Lean module
# (models, lemmas, property theorems) and the driver executable, byte-compile the harness.
set -e
cd "$(dirname "$0")"
export PATH="/opt/veriftools/lean/bin:$PATH"
mkdir -p build evidence replays
/venv/bin/python tools/extract.py 2> >(grep -v 'conda.cli.condarc' >&2)
(cd lean && lake build MoSql driver)
/venv/bin/python -m compileall -q tools >/dev/null
echo "setup ok"
