#!/venv/bin/python
"""(development) write tools/pattern_canon.json: fingerprint -> pattern text, for every regular expression found in the
grammar graphs of the CURRENT /repo tree (run on the pinned tree only).  Patterns whose fingerprints collide are left out."""
import json, os, sys
sys.path.insert(0, os.path.dirname(os.path.abspath(__file__)))
import extract as X
sys.path.insert(0, X.REPO)
import mo_sql_parsing as M
import importlib
sql_parser = importlib.import_module('mo_sql_parsing.sql_parser')
pats = set()
for name in ("common_parser", "mysql_parser", "sqlserver_parser", "bigquery_parser"):
    for ac in (None, "*"):
        parser = getattr(sql_parser, name)(ac)
        for e in X.walk_graph(parser.element):
            cfg = getattr(e, "parser_config", None)
            rx = getattr(cfg, "regex", None) if cfg is not None else None
            if rx is None or not hasattr(rx, "pattern"):
                rx = getattr(e, "regex", None)
            if rx is not None and hasattr(rx, "pattern") and rx.pattern:
                pats.add(rx.pattern)
by_fp = {}
for p in sorted(pats):
    fp = X.fingerprint(p)
    if fp:
        by_fp.setdefault(fp, []).append(p)
table = {fp: ps[0] for fp, ps in by_fp.items() if len(ps) == 1}
json.dump({"table": table, "known": sorted(pats)}, open(os.path.join(X.VERIF, "tools", "pattern_canon.json"), "w", encoding="utf8"), indent=0, ensure_ascii=False, sort_keys=True)
print(len(pats), "patterns,", len(table), "with a fingerprint of their own,", sum(len(v) for v in by_fp.values() if len(v) > 1), "colliding (left textual)")
