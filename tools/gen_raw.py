"""raw trees for the stub-parser correspondence of scrub / _parse (C08, C11, C12)"""

OPS = ["f", "g", "add", "null", "select", "op", "args"]
KEYS = ["k", "value", "name", "f", "g", "then", "x"]


class RawGen:
    def __init__(self, rng):
        self.rng = rng

    def raw(self, depth):
        r = self.rng
        c = r.random()
        if depth <= 0 or c < 0.25:
            return r.choice([None, "a", "b", 1, 0, 2.5, True, False, "NULL", "NULL", "", {"$dict": []}])
        if c < 0.55:
            n = r.choice([0, 1, 1, 2, 2, 3])
            if r.random() < 0.8:
                args = {"$list": [self.raw(depth - 1) for _ in range(n)]}
            else:
                args = self.raw(depth - 1)
            kw = {}
            for _ in range(r.choice([0, 0, 0, 1, 2])):
                kw[r.choice(KEYS)] = self.raw(depth - 1)
            return {"$call": r.choice(OPS), "args": args, "kw": kw}
        if c < 0.8:
            items = [self.raw(depth - 1) for _ in range(r.choice([0, 1, 2, 2, 3]))]
            calls = [v for v in items if isinstance(v, dict) and "$call" in v]
            if calls and r.random() < 0.3:
                # the SAME node a second time (to_switch_call puts the subject of a simple CASE under every WHEN):
                # to_python(memo=...) builds one object for both places
                items.insert(r.randrange(len(items) + 1), r.choice(calls))
            return {"$list": items}
        d = {}
        for _ in range(r.choice([1, 1, 2, 3])):
            d[r.choice(KEYS)] = self.raw(depth - 1)
        return {"$dict": list(d.items())}

    def top(self, depth=4):
        """statements are dict-shaped"""
        return {"$dict": [("select", self.raw(depth))] + ([("from", self.raw(depth - 2))] if self.rng.random() < 0.3 else [])}


def to_driver(x):
    if x is None or isinstance(x, (bool, str)):
        return "$NULLMARK" if x == "NULL" and False else ({"$null": 1} if x == "NULL" else x)
    if isinstance(x, int):
        return {"$i": str(x)}
    if isinstance(x, float):
        return {"$f": repr(x)}
    if "$call" in x:
        return ["$callo", x["$call"], to_driver(x["args"]), [[k, to_driver(v)] for k, v in x["kw"].items()]]
    if "$list" in x:
        return ["$list"] + [to_driver(v) for v in x["$list"]]
    if "$dict" in x:
        return ["$dict"] + [[k, to_driver(v)] for k, v in x["$dict"]]
    raise ValueError(x)


def to_python(x, Call, SQL_NULL, memo=None):
    """build the value with the REAL library's classes (fresh containers every time; with `memo`, a call node that
    occurs twice in the description - the same description object - is ONE Call object in both places)"""
    if x == "NULL":
        return SQL_NULL
    if x is None or isinstance(x, (bool, str, int, float)):
        return x
    if "$call" in x:
        if memo is not None and id(x) in memo:
            return memo[id(x)]
        out = Call(x["$call"], to_python(x["args"], Call, SQL_NULL, memo), {k: to_python(v, Call, SQL_NULL, memo) for k, v in x["kw"].items()})
        if memo is not None:
            memo[id(x)] = out
        return out
    if "$list" in x:
        return [to_python(v, Call, SQL_NULL, memo) for v in x["$list"]]
    if "$dict" in x:
        return {k: to_python(v, Call, SQL_NULL, memo) for k, v in x["$dict"]}
    raise ValueError(x)
