"""Tie A for C15/C16/C17: read the entry points of mo_sql_parsing/__init__.py and the module-level state of the
package from the source's AST (names only — no line numbers, no statement shapes beyond what the model uses).

 entry programs : per entry point, the straight-line program  acq · set g… · use g… · rel  that the Session
                  model runs (set = `_utils.<g> = …` in `_parse`; use = a read of `_utils.<g>`, or a call into the
                  matcher / scrub, which reads every parse-scoped global that any function of the package reads)
 cache key      : the subscripts of lookup_parsers in _get_or_create_parser
 callers        : who calls `_parse` / `_get_or_create_parser`
 module globals : names that functions of the package rebind with `global`, and attributes of package modules
                  assigned from other modules
"""
import ast
import os

ENTRY = ["parse", "parse_mysql", "parse_sqlserver", "parse_bigquery"]
LOCKS = {"parse_locker"}        # names of the module lock (re-read from the source by `extract`)
ALIASES = {"_utils", "utils"}   # local names of the utils module (re-read from the source by `extract`)


def _is_lock_with(w):
    return isinstance(w, ast.With) and any(isinstance(i.context_expr, ast.Name) and i.context_expr.id in LOCKS for i in w.items)
HELPERS = ["_parse", "_get_or_create_parser"]


def _doc_stripped(body):
    if body and isinstance(body[0], ast.Expr) and isinstance(getattr(body[0], "value", None), ast.Constant) and isinstance(body[0].value.value, str):
        return body[1:]
    return body


def _calls_in(node):
    out = []
    for n in ast.walk(node):
        if isinstance(n, ast.Call):
            f = n.func
            if isinstance(f, ast.Name):
                out.append(f.id)
            elif isinstance(f, ast.Attribute):
                out.append(f.attr)
    return out


class Lin(ast.NodeVisitor):
    """linearise `_parse` in evaluation order: values before targets, statements in source order"""

    def __init__(self, alias, funcs=None, matcher_reads=()):
        self.alias = alias      # local name of the utils module
        self.funcs = funcs or {}            # module-level functions of __init__: calls to them are followed
        self.matcher_reads = list(matcher_reads)
        self.stack = []
        self.env = [{}]                     # parameter name -> string constant, per activation
        self.parser_key = ""
        self.out = []
        self.cond = 0           # inside a branch that may not execute
        self.loop_sets = []     # globals installed inside a loop body (not definite after the loop)
        self.dead = set()       # … and therefore not to be read after it without a new install
        self.problems = []
        self.in_loop = 0

    def _branch(self, nodes):
        self.cond += 1
        for n in nodes:
            self.visit(n)
        self.cond -= 1

    def visit_If(self, n):
        self.visit(n.test)
        self._branch(n.body)
        self._branch(n.orelse)

    def visit_IfExp(self, n):
        self.visit(n.test)
        self._branch([n.body])
        self._branch([n.orelse])

    def visit_Try(self, n):
        self._branch(n.body)
        for h in n.handlers:
            self._branch(h.body)
        self._branch(n.orelse)
        self._branch(n.finalbody)

    def visit_While(self, n):
        self.visit(n.test)
        self._branch(n.body)
        self._branch(n.orelse)

    def visit_For(self, n):
        self.visit(n.iter)
        self.in_loop += 1
        for st in n.body:
            self.visit(st)
        self.in_loop -= 1
        if self.in_loop == 0:
            # after the loop (possibly zero iterations) nothing installed inside it is definite:
            # a later read is reported as a read without install
            self.dead |= set(self.loop_sets)
            self.loop_sets = []
        self._branch(n.orelse)

    def visit_Assign(self, n):
        self.visit(n.value)
        for t in n.targets:
            if isinstance(t, ast.Attribute) and isinstance(t.value, ast.Name) and t.value.id == self.alias:
                if self.cond == 0:
                    # an install inside a branch that may not execute is not an install
                    self.out.append(("set", t.attr))
                    self.dead.discard(t.attr)
                    if self.in_loop:
                        self.loop_sets.append(t.attr)
            else:
                self.visit(t)

    def visit_Attribute(self, n):
        if isinstance(n.value, ast.Name) and n.value.id == self.alias and isinstance(n.ctx, ast.Load):
            if n.attr in self.dead:
                self.problems.append("%s is read after the loop that installs it" % n.attr)
            self.out.append(("use", n.attr))
        else:
            self.generic_visit(n)

    def visit_With(self, n):
        locked = _is_lock_with(n)
        for i in n.items:
            self.visit(i.context_expr)
        if locked:
            self.out.append(("acq", ""))
        for st in n.body:
            self.visit(st)
        if locked:
            self.out.append(("rel", ""))

    def visit_Name(self, n):
        if n.id == "lookup_parsers":
            # the parser cache: persistent shared state, read-modify-write
            if not (self.out and self.out[-1] == ("touch", "lookup_parsers")):
                self.out.append(("touch", "lookup_parsers"))

    def _const(self, node):
        if isinstance(node, ast.Constant) and isinstance(node.value, str):
            return node.value
        if isinstance(node, ast.Name):
            return self.env[-1].get(node.id)
        return None

    def visit_Call(self, n):
        for a in n.args:
            self.visit(a)
        for k in n.keywords:
            self.visit(k.value)
        f = n.func
        name = f.id if isinstance(f, ast.Name) else (f.attr if isinstance(f, ast.Attribute) else "?")
        if isinstance(f, ast.Attribute):
            self.visit(f.value)
        if isinstance(f, ast.Name) and name == "_get_or_create_parser":
            k = self._const(n.args[0]) if n.args else None
            if k:
                self.parser_key = k
        if isinstance(f, ast.Name) and name in self.funcs and name not in self.stack and len(self.stack) < 6:
            # follow the call: the program of an entry point does not depend on how its body is cut into helpers
            fn = self.funcs[name]
            params = [a.arg for a in fn.args.args]
            env = {}
            for p_, a in zip(params, n.args):
                c = self._const(a)
                if c is not None:
                    env[p_] = c
            for k in n.keywords:
                c = self._const(k.value)
                if c is not None and k.arg:
                    env[k.arg] = c
            self.stack.append(name)
            self.env.append(env)
            for st in _doc_stripped(fn.body):
                self.visit(st)
            self.env.pop()
            self.stack.pop()
            return
        if name in ("parse_string", "scrub"):
            for g in self.matcher_reads:
                self.out.append(("use", g))
            return
        self.out.append(("call", name))


# ---- writes through what a function was given --------------------------------------------------------------------------
# `scrub` turns the grammar's result into the tree and `format` turns a tree into text: neither may write into the objects
# it is handed (the grammar puts one Call object under several parents; the caller keeps the tree it formats).  The analysis
# is flow-insensitive: a name is "given" when it is a parameter (of the function or of a function nested in it) or bound
# to a part of something given (subscript, attribute, .get / .items / .values, iteration); a write is an assignment to,
# deletion of, or mutating method call on a part of something given.  Only a rebinding to a new container by a statement
# directly in a function body clears a name (for the lines below it), so the answer may over-approximate; on the pinned
# tree it is empty.
MUTATORS = {"append", "extend", "update", "pop", "insert", "clear", "setdefault", "sort", "reverse", "remove", "popitem", "add", "discard", "__setitem__", "__delitem__"}
VIEW_METHODS = {"get", "items", "values", "keys", "copy_ref"}
VIEW_FUNCS = {"enumerate", "reversed", "iter", "zip", "listwrap", "first", "next", "sorted_ref"}


def _fresh(e):
    """an expression that certainly builds a new container"""
    if isinstance(e, (ast.Dict, ast.List, ast.Set, ast.ListComp, ast.DictComp, ast.SetComp)):
        return True
    if isinstance(e, ast.Call):
        f = e.func
        if isinstance(f, ast.Name) and f.id in ("dict", "list", "set", "sorted", "deepcopy", "OrderedDict"):
            return True
        if isinstance(f, ast.Attribute) and f.attr in ("copy", "deepcopy") and not e.args:
            return True
        if isinstance(f, ast.Attribute) and f.attr == "deepcopy":
            return True
    return False


def argument_writes(mod, func):
    """writes through objects reachable from the parameters of `func` (flow-insensitive, may over-approximate)"""
    tainted = set()
    for f in ast.walk(func):
        if isinstance(f, (ast.FunctionDef, ast.Lambda)):
            a = f.args
            for x in a.posonlyargs + a.args + a.kwonlyargs + ([a.vararg] if a.vararg else []) + ([a.kwarg] if a.kwarg else []):
                if x.arg not in ("self", "cls"):
                    tainted.add(x.arg)

    def view(e):
        if isinstance(e, ast.Name):
            return e.id in tainted
        if isinstance(e, (ast.Subscript, ast.Attribute, ast.Starred)):
            return view(e.value)
        if isinstance(e, ast.Call):
            f = e.func
            if isinstance(f, ast.Attribute) and f.attr in VIEW_METHODS:
                return view(f.value)
            if isinstance(f, ast.Name) and f.id in VIEW_FUNCS:
                return any(view(a) for a in e.args)
            return False
        if isinstance(e, ast.IfExp):
            return view(e.body) or view(e.orelse)
        if isinstance(e, ast.BoolOp):
            return any(view(v) for v in e.values)
        if isinstance(e, ast.NamedExpr):
            return view(e.value)
        return False

    def bind(t):
        new = False
        for n in ast.walk(t):
            if isinstance(n, ast.Name) and n.id not in tainted:
                tainted.add(n.id)
                new = True
        return new

    changed = True
    while changed:
        changed = False
        for n in ast.walk(func):
            if isinstance(n, ast.Assign) and view(n.value):
                for t in n.targets:
                    if isinstance(t, (ast.Name, ast.Tuple, ast.List)):
                        changed |= bind(t)
            elif isinstance(n, (ast.For, ast.comprehension)) and view(n.iter):
                changed |= bind(n.target)
            elif isinstance(n, ast.NamedExpr) and view(n.value):
                changed |= bind(n.target)
            elif isinstance(n, ast.withitem) and n.optional_vars is not None and view(n.context_expr):
                changed |= bind(n.optional_vars)
    out = []
    # a name rebound to a NEW container by a statement directly in a function body (so that it runs before everything
    # below it) no longer stands for what was given: writes through that name below that line are not counted
    fresh_from = {}
    for f in ast.walk(func):
        if isinstance(f, ast.FunctionDef):
            for st in f.body:
                if isinstance(st, ast.Assign) and len(st.targets) == 1 and isinstance(st.targets[0], ast.Name) and _fresh(st.value):
                    fresh_from.setdefault(st.targets[0].id, st.lineno)

    def root(e):
        while isinstance(e, (ast.Subscript, ast.Attribute, ast.Starred)):
            e = e.value
        return e.id if isinstance(e, ast.Name) else None

    def counted(e, lineno):
        r = root(e)
        return not (r in fresh_from and fresh_from[r] < lineno)

    def target_write(t, how):
        if isinstance(t, (ast.Subscript, ast.Attribute)) and view(t.value) and counted(t.value, t.lineno):
            out.append("%s.%s:%s %s" % (mod, func.name, how, ast.unparse(t)))
        elif isinstance(t, (ast.Tuple, ast.List)):
            for x in t.elts:
                target_write(x, how)

    for n in ast.walk(func):
        if isinstance(n, ast.Assign):
            for t in n.targets:
                target_write(t, "set")
        elif isinstance(n, ast.AugAssign):
            target_write(n.target, "aug")
        elif isinstance(n, ast.AnnAssign) and n.value is not None:
            target_write(n.target, "set")
        elif isinstance(n, ast.Delete):
            for t in n.targets:
                target_write(t, "del")
        elif isinstance(n, ast.Call) and isinstance(n.func, ast.Attribute) and n.func.attr in MUTATORS and view(n.func.value) and counted(n.func.value, n.lineno):
            out.append("%s.%s:call %s.%s" % (mod, func.name, ast.unparse(n.func.value), n.func.attr))
    return sorted(set(out))


def all_argument_writes(repo):
    out = []
    for mod, names in (("formatting", None), ("utils", {"scrub"})):
        tree = ast.parse(open(os.path.join(repo, "mo_sql_parsing", mod + ".py"), encoding="utf8").read())
        for n in ast.walk(tree):
            if isinstance(n, ast.FunctionDef) and (names is None or n.name in names):
                out += argument_writes(mod, n)
    return sorted(set(out))


# ---- process-wide settings -------------------------------------------------------------------------------------------
# a call that changes a setting of the interpreter or the process outlives the library call that made it (unless it is
# undone on every path out, which the package never needs: on the pinned tree there is no such call at all)
PROCESS_SETTERS = {
    "sys": {"setrecursionlimit", "setswitchinterval", "settrace", "setprofile", "setdlopenflags", "set_int_max_str_digits",
            "set_asyncgen_hooks", "set_coroutine_origin_tracking_depth"},
    "warnings": {"simplefilter", "filterwarnings", "resetwarnings"}, "locale": {"setlocale"},
    "os": {"chdir", "putenv", "unsetenv", "umask", "nice", "setuid", "setgid"}, "decimal": {"setcontext"},
    "gc": {"disable", "enable", "set_threshold", "set_debug", "freeze"}, "random": {"seed", "setstate"},
    "signal": {"signal", "alarm", "setitimer"}, "threading": {"settrace", "setprofile", "stack_size", "excepthook"},
    "faulthandler": {"enable", "disable"}, "resource": {"setrlimit"}, "socket": {"setdefaulttimeout"}, "tracemalloc": {"start", "stop"},
}


def process_setting_calls(repo):
    out = []
    pkg = os.path.join(repo, "mo_sql_parsing")
    for fn in sorted(os.listdir(pkg)):
        if not fn.endswith(".py"):
            continue
        tree = ast.parse(open(os.path.join(pkg, fn), encoding="utf8").read())
        mods, direct = {}, {}
        for n in ast.walk(tree):
            if isinstance(n, ast.Import):
                for a in n.names:
                    if a.name.split(".")[0] in PROCESS_SETTERS:
                        mods[a.asname or a.name.split(".")[0]] = a.name.split(".")[0]
            elif isinstance(n, ast.ImportFrom) and n.module and n.module.split(".")[0] in PROCESS_SETTERS:
                for a in n.names:
                    if a.name in PROCESS_SETTERS[n.module.split(".")[0]]:
                        direct[a.asname or a.name] = "%s.%s" % (n.module.split(".")[0], a.name)
        for n in ast.walk(tree):
            if isinstance(n, ast.Call):
                f = n.func
                if isinstance(f, ast.Attribute) and isinstance(f.value, ast.Name) and f.attr in PROCESS_SETTERS.get(mods.get(f.value.id, ""), ()):
                    out.append("%s:%s.%s" % (fn[:-3], mods[f.value.id], f.attr))
                elif isinstance(f, ast.Name) and f.id in direct:
                    out.append("%s:%s" % (fn[:-3], direct[f.id]))
            elif isinstance(n, (ast.Assign, ast.AugAssign, ast.Delete)):
                # os.environ[...] = ..., getcontext().prec = ..., sys.stdout = ...
                for t in (n.targets if not isinstance(n, ast.AugAssign) else [n.target]):
                    src = ast.unparse(t)
                    if src.startswith(("os.environ", "sys.std", "sys.path", "sys.modules", "sys.excepthook", "sys.displayhook")) or "getcontext()" in src:
                        out.append("%s:%s" % (fn[:-3], src.split("[")[0]))
    return sorted(set(out))


def extract(X, repo):
    pkg = os.path.join(repo, "mo_sql_parsing")
    trees = {}
    for fn in sorted(os.listdir(pkg)):
        if fn.endswith(".py"):
            try:
                trees[fn[:-3]] = ast.parse(open(os.path.join(pkg, fn)).read())
            except SyntaxError as e:
                X.problem("effects", "cannot read %s: %s" % (fn, e))
    init = trees.get("__init__")
    if init is None:
        X.problem("effects", "mo_sql_parsing/__init__.py not found")
        return
    funcs = {f.name: f for f in init.body if isinstance(f, ast.FunctionDef)}
    # ---- the module lock and the local name of the utils module, as the source has them: `X = Lock()` at module level of
    #      __init__ (and whatever name other modules import it under), `import … utils as Y`
    LOCKS.clear()
    for st in init.body:
        if isinstance(st, ast.Assign) and isinstance(st.value, ast.Call):
            fn_ = st.value.func
            nm = fn_.id if isinstance(fn_, ast.Name) else (fn_.attr if isinstance(fn_, ast.Attribute) else "")
            if nm in ("Lock", "RLock"):
                for t in st.targets:
                    if isinstance(t, ast.Name):
                        LOCKS.add(t.id)
    for tr in trees.values():
        for n in ast.walk(tr):
            if isinstance(n, ast.ImportFrom) and (n.module or "").startswith("mo_sql_parsing"):
                for a in n.names:
                    if a.name in LOCKS and a.asname:
                        LOCKS.add(a.asname)
    if not LOCKS:
        X.problem("effects", "no module-level Lock() found in __init__.py")
    alias = "_utils"
    for n in ast.walk(init):
        if isinstance(n, ast.ImportFrom) and (n.module or "") == "mo_sql_parsing":
            for a in n.names:
                if a.name == "utils":
                    alias = a.asname or a.name
        elif isinstance(n, ast.Import):
            for a in n.names:
                if a.name == "mo_sql_parsing.utils" and a.asname:
                    alias = a.asname
    ALIASES.clear()
    ALIASES.update({alias, "utils", "_utils"})
    # ---- parse-scoped globals: attributes of the utils alias assigned in __init__
    scoped = []
    for n in ast.walk(init):
        if isinstance(n, ast.Assign):
            for t in n.targets:
                if isinstance(t, ast.Attribute) and isinstance(t.value, ast.Name) and t.value.id == alias and t.attr not in scoped:
                    scoped.append(t.attr)
    # which of them does any function of the package read (by bare name inside utils, or as utils.<g> elsewhere)?
    read_by = {}
    written_elsewhere = []
    written_raw = []
    global_rebinds = []
    for mod, tr in trees.items():
        for f in ast.walk(tr):
            if not isinstance(f, (ast.FunctionDef, ast.Lambda)):
                continue
            fname = getattr(f, "name", "<lambda>")
            for n in ast.walk(f):
                if isinstance(n, ast.Global):
                    for g in n.names:
                        if mod == "__init__" and g == alias:
                            g = "_utils"        # the lazily imported utils module, under whatever local name
                        if (mod, g) not in global_rebinds:
                            global_rebinds.append((mod, g))
                if mod == "utils" and isinstance(n, ast.Name) and isinstance(n.ctx, ast.Load) and n.id in scoped:
                    read_by.setdefault(n.id, set()).add("%s.%s" % (mod, fname))
                if isinstance(n, ast.Attribute) and isinstance(n.ctx, ast.Load) and n.attr in scoped and isinstance(n.value, ast.Name) and n.value.id in ALIASES:
                    if not (mod == "__init__"):
                        read_by.setdefault(n.attr, set()).add("%s.%s" % (mod, fname))
                if isinstance(n, ast.Assign):
                    for t in n.targets:
                        if isinstance(t, ast.Attribute) and isinstance(t.value, ast.Name) and t.value.id in ALIASES | {"sql_parser", "keywords", "types", "formatting", "windows"}:
                            item = "%s.%s:=%s.%s" % (mod, fname, "_utils" if t.value.id == alias else t.value.id, t.attr)
                            if (mod, fname, t.value.id, t.attr, item) not in written_raw:
                                written_raw.append((mod, fname, t.value.id, t.attr, item))
    matcher_reads = [g for g in scoped if any(not r.startswith("formatting.") for r in read_by.get(g, ()))]
    format_reads = sorted({g for g in scoped for r in read_by.get(g, ()) if r.startswith("formatting.")})
    # ---- entry points: the program of each, following calls into helpers of __init__ (so that cutting an entry point
    #      or `_parse` into helper functions, or merging them, gives the same program)
    pf = funcs.get("_parse")
    entries = []
    for name in ENTRY:
        f = funcs.get(name)
        if f is None:
            X.problem("effects", "entry point %s not found" % name)
            continue
        lin = Lin(alias, {k: v for k, v in funcs.items() if k not in ENTRY}, matcher_reads)
        for st in _doc_stripped(f.body):
            lin.visit(st)
        for pr in lin.problems:
            X.problem("effects", "%s: %s" % (name, pr))
        prog = []
        for k, g in lin.out:
            if k in ("acq", "rel", "set", "use", "touch") and not (k == "touch" and prog and prog[-1] == (k, g)):
                prog.append((k, g))
        entries.append({"name": name, "parser": lin.parser_key, "program": prog})
    # ---- cache key
    key_parts = []
    gf = funcs.get("_get_or_create_parser")
    if gf is not None:
        for n in ast.walk(gf):
            if isinstance(n, ast.Subscript) and isinstance(n.value, ast.Subscript) and isinstance(n.value.value, ast.Name) and n.value.value.id == "lookup_parsers":
                a = n.value.slice
                b = n.slice
                kp = [getattr(a, "id", "?"), getattr(b, "id", "?")]
                if kp not in key_parts:
                    key_parts.append(kp)
    if key_parts != [["parser_name", "all_columns"]]:
        # the cache is written differently (a tuple key, other names, a helper class …): decide by what it DOES — the four
        # entry points, each with all_columns None and "*", twice: the parser objects used must be pairwise distinct across
        # the eight (dialect, all_columns) pairs and identical for the same pair
        try:
            import mo_sql_parsing as M
            seen = {}
            orig = M._parse

            def spy(parser, *a, **k):
                seen.setdefault(current[0], []).append(id(parser))
                return orig(parser, *a, **k)

            current = [None]
            M._parse = spy
            try:
                for rnd in range(2):
                    for fn in ENTRY:
                        for ac in (None, "*"):
                            current[0] = (fn, ac)
                            getattr(M, fn)("select 1", all_columns=ac)
            finally:
                M._parse = orig
            ids = {k: set(v) for k, v in seen.items()}
            if len(ids) == 8 and all(len(v) == 1 for v in ids.values()) and len({next(iter(v)) for v in ids.values()}) == 8:
                key_parts = [["parser_name", "all_columns"]]
            else:
                key_parts = [["behaviour", "%d keys, %d parser objects" % (len(ids), len({x for v in ids.values() for x in v}))]]
        except Exception as e:      # noqa
            X.problem("effects", "cache key could not be read structurally nor measured: %s" % type(e).__name__)
    # ---- which functions only ever run under `parse_locker`: every call site in the package is lexically inside
    #      `with parse_locker:` or inside a function that itself only runs under the lock (least fixed point)
    def locked_node_ids(fn):
        ids = set()
        for w in ast.walk(fn):
            if _is_lock_with(w):
                for n in ast.walk(w):
                    ids.add(id(n))
        return ids

    all_funcs = []      # (module, FunctionDef)
    for mod, tr in trees.items():
        for f in ast.walk(tr):
            if isinstance(f, ast.FunctionDef):
                all_funcs.append((mod, f))
    sites = {}          # callee name -> [(caller module, caller name, lexically locked)]
    for mod, f in all_funcs:
        lk = locked_node_ids(f)
        for n in ast.walk(f):
            if isinstance(n, ast.Call):
                cn = n.func.id if isinstance(n.func, ast.Name) else (n.func.attr if isinstance(n.func, ast.Attribute) else None)
                if cn:
                    sites.setdefault(cn, []).append((mod, f.name, id(n) in lk))
    init_names = set(funcs)
    protected = set()
    changed = True
    while changed:
        changed = False
        for fname in init_names:
            if fname in protected or fname in ENTRY:
                continue
            ss = sites.get(fname, [])
            if ss and all(lkd or (m == "__init__" and c in protected) for m, c, lkd in ss):
                protected.add(fname)
                changed = True
    # functions of __init__ that handle the state the lock protects (directly or through what they call)
    def sensitive(fname, seen=()):
        fn = funcs.get(fname)
        if fn is None or fname in seen:
            return False
        for n in ast.walk(fn):
            if isinstance(n, ast.Name) and n.id == "lookup_parsers":
                return True
            if isinstance(n, ast.Attribute) and isinstance(n.value, ast.Name) and n.value.id == alias and n.attr in scoped:
                return True
            if isinstance(n, ast.Call):
                cn = n.func.id if isinstance(n.func, ast.Name) else (n.func.attr if isinstance(n.func, ast.Attribute) else None)
                if cn in ("parse_string", "scrub"):
                    return True
                if isinstance(n.func, ast.Name) and cn in funcs and sensitive(cn, seen + (fname,)):
                    return True
        return False

    # installs of the parse-scoped globals by helpers of __init__ that only run under the lock are the per-call
    # installs (they are in the entry programs); every other cross-module write is listed
    for mod, fname, tmod, attr, item in written_raw:
        if mod == "__init__" and fname in protected and tmod == alias and attr in scoped:
            continue
        if item not in written_elsewhere:
            written_elsewhere.append(item)
    # ---- calls of lock-sensitive helpers that are NOT known to run under the lock (the entry points' own calls are
    #      judged by `lock_covers` on their programs)
    callers = []
    for fname in sorted(init_names):
        if fname in ENTRY or not sensitive(fname):
            continue
        for m, c, lkd in sites.get(fname, []):
            if lkd or (m == "__init__" and c in protected):
                continue
            item = "%s.%s->%s" % (m, c, fname)
            if item not in callers:
                callers.append(item)
    # ---- ownership facts (C17): what `scrub` returns for an empty dict, what `_parse` stores into NULL slots
    empty_dict = "?"
    ut = trees.get("utils")
    if ut is not None:
        for f in ut.body:
            if isinstance(f, ast.FunctionDef) and f.name == "scrub":
                for n in ast.walk(f):
                    if isinstance(n, ast.If):
                        t = ast.unparse(n.test).replace(" ", "")
                        if "isinstance(result,dict)" in t and "notresult" in t and n.body and isinstance(n.body[0], ast.Return):
                            v = n.body[0].value
                            if isinstance(v, ast.Name):
                                empty_dict = "input:" + v.id
                            elif isinstance(v, ast.Dict) and not v.keys:
                                empty_dict = "fresh"
                            elif isinstance(v, ast.Call) and getattr(v.func, "id", "") == "dict" and not v.args:
                                empty_dict = "fresh"
                            else:
                                empty_dict = "other:" + ast.unparse(v)
    null_slot = "?"
    for fn_ in funcs.values():        # wherever in __init__ the loop over the recorded slots lives
        for n in ast.walk(fn_):
            if isinstance(n, ast.For) and "null_locations" in ast.unparse(n.iter):
                for st in n.body:
                    if isinstance(st, ast.Assign) and isinstance(st.targets[0], ast.Subscript):
                        null_slot = ast.unparse(st.value)
    # ---- every call into the parsing engine (`<element>.parse_string(...)`) and whether it is lexically inside
    # `with parse_locker:` (or in a helper that only the locked entry points call)
    engine_calls = []
    for mod, tr in trees.items():
        for f in ast.walk(tr):
            if not isinstance(f, ast.FunctionDef):
                continue
            locked_nodes = set()
            for w in ast.walk(f):
                if _is_lock_with(w):
                    for n in ast.walk(w):
                        locked_nodes.add(id(n))
            for n in ast.walk(f):
                if isinstance(n, ast.Call) and isinstance(n.func, ast.Attribute) and n.func.attr in ("parse_string", "parse", "scan_string", "search_string"):
                    recv = ast.unparse(n.func.value)
                    if n.func.attr == "parse" and recv in ("ast", "json"):
                        continue
                    under = id(n) in locked_nodes or (mod == "__init__" and f.name in protected)
                    engine_calls.append(("%s.%s:%s.%s" % (mod, f.name, recv, n.func.attr), under))
    # ---- behavioural twins of the two ownership facts: when the statements are written differently, measure what they do
    FRESH_NULL = "{'null': {}} if null is SQL_NULL else null"
    if empty_dict != "fresh" or null_slot != FRESH_NULL:
        try:
            import mo_sql_parsing as M
            from mo_sql_parsing import utils as U
            if empty_dict != "fresh":
                M.parse("select 1")                     # installs the per-call globals scrub reads
                probe = {}
                r1, r2 = U.scrub(probe), U.scrub(probe)
                if isinstance(r1, dict) and not r1 and r1 is not probe and r1 is not r2:
                    empty_dict = "fresh"
            if null_slot != FRESH_NULL:
                def nulls(t, acc):
                    if isinstance(t, dict):
                        if t == {"null": {}}:
                            acc.append(t)
                            acc.append(t["null"])
                        for v in t.values():
                            nulls(v, acc)
                    elif isinstance(t, list):
                        for v in t:
                            nulls(v, acc)
                    return acc
                a = nulls(M.parse("select null, f(null), coalesce(null, null, 1) from t"), [])
                b = nulls(M.parse("select null, f(null), coalesce(null, null, 1) from t"), [])
                ids = [id(x) for x in a + b]
                shared = {id(M.SQL_NULL), id(M.SQL_NULL["null"])}
                own = object()
                c = M.parse("select null, g(null)", null=own)
                if len(a) == 8 and len(set(ids)) == len(ids) and not (set(ids) & shared) and c == {"select": [{"value": own}, {"value": {"g": own}}]}:
                    null_slot = FRESH_NULL
        except Exception as e:      # noqa
            X.problem("effects", "ownership facts could not be measured: %s" % type(e).__name__)
    X.data["effects"] = {
        "engine_calls": sorted(set(engine_calls)),
        "scrub_empty_dict": empty_dict,
        "null_slot_value": null_slot,
        "parse_scoped": scoped,
        "read_by": {g: sorted(v) for g, v in read_by.items()},
        "format_reads": format_reads,
        "entries": entries,
        "cache_key": key_parts,
        "callers": sorted(callers),
        "global_rebinds": sorted("%s.%s" % x for x in global_rebinds),
        "cross_module_writes": sorted(written_elsewhere),
        "argument_writes": all_argument_writes(repo),
        "process_setting_calls": process_setting_calls(repo),
    }


def gen_lean(X, lean_str):
    e = X.data.get("effects", {})

    def instr(k, g):
        if k == "acq":
            return ".acq"
        if k == "rel":
            return ".rel"
        return ".%s %s" % (k, lean_str(g))

    lines = ["/- GENERATED by tools/extract.py from /repo's working tree — do not edit. -/", "import MoSql.Session",
             "namespace MoSql.Gen", "open MoSql.Session", ""]
    lines.append("/-- attributes of `mo_sql_parsing.utils` that `__init__._parse` assigns: the state of the parse in progress -/")
    lines.append("def parseScoped : List String := [%s]" % ", ".join(lean_str(g) for g in e.get("parse_scoped", [])))
    lines.append("")
    lines.append("/-- per entry point: name, parser builder, and the program (lock, installs, reads) read from the AST -/")
    lines.append("def entryPrograms : List (String × String × List Instr) := [")
    rows = []
    for en in e.get("entries", []):
        rows.append("  (%s, %s, [%s])" % (lean_str(en["name"]), lean_str(en["parser"]), ", ".join(instr(k, g) for k, g in en["program"])))
    lines.append(",\n".join(rows) + "]")
    lines.append("")
    lines.append("/-- the subscripts under which `_get_or_create_parser` caches a parser -/")
    lines.append("def cacheKey : List (List String) := [%s]" % ", ".join("[%s]" % ", ".join(lean_str(x) for x in kp) for kp in e.get("cache_key", [])))
    lines.append("")
    lines.append("/-- calls of lock-sensitive helpers of `__init__` (functions that install / read the parse-scoped globals, touch the parser cache or run the engine) from a place that is not known to run under `parse_locker`; (caller, callee) -/")
    lines.append("def helperCallers : List (String × String) := [%s]" % ", ".join(
        "(%s, %s)" % (lean_str(x.split("->")[0]), lean_str(x.split("->")[1])) for x in e.get("callers", [])))
    lines.append("")
    lines.append("/-- parse-scoped globals that `formatting.py` reads -/")
    lines.append("def formatReads : List String := [%s]" % ", ".join(lean_str(x) for x in e.get("format_reads", [])))
    lines.append("")
    lines.append("/-- names rebound with `global` inside functions of the package -/")
    lines.append("def globalRebinds : List String := [%s]" % ", ".join(lean_str(x) for x in e.get("global_rebinds", [])))
    lines.append("")
    lines.append("/-- assignments to attributes of package modules from functions other than `_parse` -/")
    lines.append("def crossModuleWrites : List String := [%s]" % ", ".join(lean_str(x) for x in e.get("cross_module_writes", [])))
    lines.append("")
    lines.append("/-- every call into the parsing engine in the package, and whether it runs under `parse_locker` -/")
    lines.append("def engineCalls : List (String × Bool) := [%s]" % ", ".join(
        "(%s, %s)" % (lean_str(a), "true" if b else "false") for a, b in e.get("engine_calls", [])))
    lines.append("")
    lines.append("/-- what `utils.scrub` returns for an empty Python dict: the input object or a new one -/")
    lines.append("def scrubEmptyDict : String := %s" % lean_str(e.get("scrub_empty_dict", "?")))
    lines.append("")
    lines.append("/-- writes of `utils.scrub` and of the functions of `formatting.py` into objects they were given (parameters and their parts) -/")
    lines.append("def argumentWrites : List String := [%s]" % ", ".join(lean_str(x) for x in e.get("argument_writes", [])))
    lines.append("")
    lines.append("/-- calls in the package that change a setting of the interpreter or the process (module:setter) -/")
    lines.append("def processSettingCalls : List String := [%s]" % ", ".join(lean_str(x) for x in e.get("process_setting_calls", [])))
    lines.append("")
    lines.append("/-- the expression `_parse` stores into every recorded NULL slot -/")
    lines.append("def nullSlotValue : String := %s" % lean_str(e.get("null_slot_value", "?")))
    lines.append("")
    lines.append("end MoSql.Gen")
    return "\n".join(lines) + "\n"
