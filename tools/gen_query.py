"""G-query: SELECT queries assembled from the supported clauses, their SQL text and the tree the
property (C02) demands.  Every name is unique so that mis-attachment is visible.

Query AST (Python dicts):
  query  = {"with": [(name, query)], "body": setexpr, "orderby": [(expr, dir|None)], "limit": int|None, "offset": int|None}
  setexpr = ("select", select) | ("chain", operand, [(op, operand), ...])
  operand = ("select", select) | ("paren", query)          # parenthesised operand, may carry its own ORDER BY / LIMIT
  select = {"distinct": bool, "top": (count, percent, with_ties)|None, "items": [item], "from": [source], "joins": [(kind, source, cond)],
            "where": expr|None, "groupby": [expr], "having": expr|None}
  item   = ("star",) | ("tstar", table) | ("expr", expr, alias|None)
  source = ("table", name, alias|None) | ("sub", query, alias)
  cond   = None | ("on", expr) | ("using", col)
  expr   = ("raw", text, tree)                              # text and demanded tree, produced by gen_expr
"""
import gen_expr as G

SETOPS = [("UNION", "union"), ("UNION ALL", "union_all"), ("INTERSECT", "intersect"), ("EXCEPT", "except"), ("MINUS", "minus")]
JOINS = ["JOIN", "INNER JOIN", "LEFT JOIN", "RIGHT JOIN", "FULL JOIN", "LEFT OUTER JOIN", "RIGHT OUTER JOIN",
         "FULL OUTER JOIN", "CROSS JOIN"]


class QueryGen:
    def __init__(self, rng, gen_ops):
        self.rng = rng
        self.eg = G.ExprGen(rng, [o["key"] for o in gen_ops])
        # keep expressions inside queries to well-behaved operators (C01 owns the operator zoo)
        self.eg.bins = [k for k in self.eg.bins if k in ("+", "-", "*", "=", "<", ">", "<>", "and", "or", "like")]
        self.eg.pres = [k for k in self.eg.pres if k in ("not",)]
        self.eg.terns = []
        self.eg.has_cast = False
        self.texts = G.op_text(gen_ops)
        self.n = 0

    def name(self, p):
        self.n += 1
        return "%s%d" % (p, self.n)

    def expr(self, depth=1, boolean=False):
        self.eg.n = self.n
        if boolean:
            l, r = self.eg.col(), self.eg.atom(("col", "int", "str"))
            s = ("bin", self.rng.choice(["=", "<", ">", "<>"]), l, r)
            if depth > 1 and self.rng.random() < 0.4:
                l2, r2 = self.eg.col(), self.eg.atom(("col", "int"))
                s = ("bin", self.rng.choice(["and", "or"]), s, ("bin", "=", l2, r2))
        else:
            s = self.eg.random(depth) if self.rng.random() < 0.5 else self.eg.col()
            if s[0] == "null" or s[0] == "bool":
                s = self.eg.col()
        self.n = self.eg.n
        e = G.write(s, "minimal", self.rng)
        return ("raw", G.render(e, self.texts), G.spec(e))

    def select(self, subdepth):
        r = self.rng
        items = []
        for _ in range(r.choice([1, 1, 2, 3, 4])):
            c = r.random()
            if c < 0.1 and not items:
                items.append(("star",))
            elif c < 0.18:
                items.append(("tstar", self.name("t")))
            else:
                e = self.expr(r.choice([0, 1, 1, 2]))
                if subdepth > 0 and r.random() < 0.08:
                    q = self.query(subdepth - 1, simple=True)
                    e = ("raw", "( " + render(q) + " )", spec(q))
                items.append(("expr", e, self.name("a") if r.random() < 0.4 else None))
        frm, joins = [], []
        for _ in range(r.choice([0, 1, 1, 1, 2, 3])):
            frm.append(self.source(subdepth))
        if frm:
            # up to five joins in one chain, joins without a condition (CROSS JOIN) mixed among joins with one
            for _ in range(r.choice([0, 0, 1, 1, 2, 2, 3, 4, 5])):
                kind = "CROSS JOIN" if r.random() < 0.2 else r.choice(JOINS)
                cond = None
                if kind != "CROSS JOIN":
                    cond = ("on", self.expr(2, boolean=True)) if r.random() < 0.7 else ("using", self.name("c"))
                joins.append((kind, self.source(subdepth), cond))
        where = None
        if frm and r.random() < 0.5:
            where = self.expr(2, boolean=True)
            if subdepth > 0 and r.random() < 0.2:
                q = self.query(subdepth - 1, simple=True)
                col = self.name("c")
                if r.random() < 0.5:
                    where = ("raw", col + " IN ( " + render(q) + " )", {"in": [col, spec(q)]})
                else:
                    where = ("raw", "EXISTS ( " + render(q) + " )", {"exists": spec(q)})
        groupby = [self.expr(0) for _ in range(r.choice([1, 2]))] if frm and r.random() < 0.3 else []
        having = self.expr(1, boolean=True) if groupby and r.random() < 0.5 else None
        top = None
        distinct = r.random() < 0.15
        if not distinct and r.random() < 0.08:
            # the count 0 is falsy in Python, PERCENT / WITH TIES change the shape of the entry
            top = (r.choice([0, 0, 1, 5, 10]), r.random() < 0.35, r.random() < 0.35)
        if distinct or top is not None:
            items = [it for it in items if it[0] == "expr"] or [("expr", self.expr(0), None)]
        return {"distinct": distinct, "top": top, "items": items, "from": frm, "joins": joins, "where": where,
                "groupby": groupby, "having": having}

    def source(self, subdepth):
        r = self.rng
        if subdepth > 0 and r.random() < 0.12:
            return ("sub", self.query(subdepth - 1, simple=True), self.name("s"))
        return ("table", self.name("t"), self.name("x") if r.random() < 0.35 else None)

    def tail(self):
        r = self.rng
        ob = [(self.expr(0), r.choice([None, None, "ASC", "DESC"])) for _ in range(r.choice([1, 1, 2]))] if r.random() < 0.35 else []
        lim = r.choice([0, 1, 3, 10]) if r.random() < 0.3 else None       # 0 is falsy in Python
        # every subset of the three trailing clauses occurs (OFFSET alone included)
        off = r.choice([0, 2, 20]) if r.random() < (0.4 if lim is not None else 0.12) else None
        return ob, lim, off

    def operand(self, subdepth, allow_paren=True):
        r = self.rng
        if allow_paren and r.random() < 0.3:
            inner = self.query(subdepth, simple=r.random() < 0.5, allow_with=False, chain_len=r.choice([1, 2]))
            return ("paren", inner)
        return ("select", self.select(subdepth))

    def query(self, subdepth=1, simple=False, allow_with=True, chain_len=None):
        r = self.rng
        n = chain_len if chain_len is not None else (1 if simple else r.choice([1, 1, 1, 2, 2, 3, 4]))
        if n == 1:
            body = ("select", self.select(subdepth))
        else:
            first = self.operand(subdepth)
            rest = []
            op = r.choice(SETOPS)
            for _ in range(n - 1):
                if r.random() < 0.5:
                    op = r.choice(SETOPS)
                rest.append((op, self.operand(subdepth)))
            body = ("chain", first, rest)
        ob, lim, off = self.tail()
        withs = []
        if allow_with and not simple and r.random() < 0.2:
            for _ in range(r.choice([1, 1, 2, 3])):
                withs.append((self.name("w"), self.query(0, simple=True, allow_with=False)))
        return {"with": withs, "body": body, "orderby": ob, "limit": lim, "offset": off}

    def chains(self, length, paren_mode):
        """every operator sequence of the given length (used exhaustively for short chains)"""
        import itertools
        for ops in itertools.product(SETOPS, repeat=length - 1):
            self.n = 0
            yield ops


# ---------------------------------------------------------------- text
def r_expr(e):
    return e[1]


def r_source(s):
    if s[0] == "table":
        return s[1] + (" AS " + s[2] if s[2] else "")
    return "( " + render(s[1]) + " ) AS " + s[2]


def r_select(s):
    parts = ["SELECT"]
    if s["distinct"]:
        parts.append("DISTINCT")
    if s["top"] is not None:
        n, percent, ties = s["top"]
        parts.append("TOP %d" % n + (" PERCENT" if percent else "") + (" WITH TIES" if ties else ""))
    items = []
    for it in s["items"]:
        if it[0] == "star":
            items.append("*")
        elif it[0] == "tstar":
            items.append(it[1] + ".*")
        else:
            items.append(r_expr(it[1]) + (" AS " + it[2] if it[2] else ""))
    parts.append(" , ".join(items))
    if s["from"]:
        parts.append("FROM " + " , ".join(r_source(x) for x in s["from"]))
        for kind, src, cond in s["joins"]:
            parts.append(kind + " " + r_source(src))
            if cond and cond[0] == "on":
                parts.append("ON " + r_expr(cond[1]))
            elif cond:
                parts.append("USING ( " + cond[1] + " )")
    if s["where"]:
        parts.append("WHERE " + r_expr(s["where"]))
    if s["groupby"]:
        parts.append("GROUP BY " + " , ".join(r_expr(e) for e in s["groupby"]))
    if s["having"]:
        parts.append("HAVING " + r_expr(s["having"]))
    return " ".join(parts)


def r_operand(o):
    if o[0] == "select":
        return r_select(o[1])
    return "( " + render(o[1]) + " )"


def render(q):
    parts = []
    if q["with"]:
        parts.append("WITH " + " , ".join(n + " AS ( " + render(w) + " )" for n, w in q["with"]))
    b = q["body"]
    if b[0] == "select":
        parts.append(r_select(b[1]))
    else:
        parts.append(r_operand(b[1]))
        for (text, _), o in b[2]:
            parts.append(text)
            parts.append(r_operand(o))
    if q["orderby"]:
        parts.append("ORDER BY " + " , ".join(r_expr(e) + (" " + d if d else "") for e, d in q["orderby"]))
    if q["limit"] is not None:
        parts.append("LIMIT %d" % q["limit"])
    if q["offset"] is not None:
        parts.append("OFFSET %d" % q["offset"])
    return " ".join(parts)


# ---------------------------------------------------------------- the demanded tree
def one(xs):
    """a property is a value, a list of at least two values, or absent"""
    return xs[0] if len(xs) == 1 else xs


def s_source(s):
    if s[0] == "table":
        return {"value": s[1], "name": s[2]} if s[2] else s[1]
    return {"value": spec(s[1]), "name": s[2]}


def s_select(s):
    out = {}
    items = []
    for it in s["items"]:
        if it[0] == "star":
            items.append({"all_columns": {}})
        elif it[0] == "tstar":
            items.append({"all_columns": it[1]})
        else:
            d = {"value": it[1][2]}
            if it[2]:
                d["name"] = it[2]
            items.append(d)
    out["select_distinct" if s["distinct"] else "select"] = one(items)
    if s["top"] is not None:
        n, percent, ties = s["top"]
        if ties:
            out["top"] = {"ties": True, ("percent" if percent else "value"): n}
        elif percent:
            out["top"] = {"percent": n}
        else:
            out["top"] = n
    if s["from"]:
        frm = [s_source(x) for x in s["from"]]
        for kind, src, cond in s["joins"]:
            j = {kind.lower(): s_source(src)}
            if cond and cond[0] == "on":
                j["on"] = cond[1][2]
            elif cond:
                j["using"] = cond[1]
            frm.append(j)
        out["from"] = one(frm)
    if s["where"]:
        out["where"] = s["where"][2]
    if s["groupby"]:
        out["groupby"] = one([{"value": e[2]} for e in s["groupby"]])
    if s["having"]:
        out["having"] = s["having"][2]
    return out


def s_operand(o):
    if o[0] == "select":
        return s_select(o[1])
    return spec(o[1])


def spec(q):
    b = q["body"]
    tail = {}
    if q["orderby"]:
        tail["orderby"] = one([dict({"value": e[2]}, **({"sort": d.lower()} if d else {})) for e, d in q["orderby"]])
    if q["limit"] is not None:
        tail["limit"] = q["limit"]
    if q["offset"] is not None:
        tail["offset"] = q["offset"]
    if b[0] == "select":
        out = s_select(b[1])
        out.update(tail)
    else:
        # set operators group left to right; a run of identical UNION / UNION ALL written at this level
        # (not inside parentheses) is one n-ary node
        acc = s_operand(b[1])
        last = None
        for (_, name), o in b[2]:
            if name == last and "union" in name:
                acc = {name: acc[name] + [s_operand(o)]}
            else:
                acc = {name: [acc, s_operand(o)]}
            last = name
        out = dict({"from": acc}, **tail) if tail else acc
    if q["with"]:
        out["with"] = one([{"name": n, "value": spec(w)} for n, w in q["with"]])
    return out
