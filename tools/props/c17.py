"""C17 — returned trees belong to the caller; format does not touch its argument."""
import copy
import gc
import json

import common as C
import pool

ASSUMPTIONS = [
    "object identity is observed with id() on the real results; the model (MoSql.Alias) abstracts allocation to a "
    "provenance tag per container, its correspondence is the aliasing census below",
    "a caller-supplied null= object is the caller's own: it is stored by reference in every NULL slot (the model says so) "
    "and is not counted as library-owned state",
]

PROBES = [
    ("common", "select * from t", {}),
    ("common", "select null, f(null), a is null from t", {}),
    ("common", "select a, count(*) from t group by a", {}),
    ("common", "delete from t", {}),
    ("common", "select t.* from t", {}),
    ("common", "select a from t where b in (1, 2) and c = null", {}),
    ("mysql", "select `a` from t", {}),
    ("common", "select f() from t", {}),
    ("common", "insert into t (a) values (null)", {}),
    ("common", "select map[k, v], a from t", {}),
]


# shapes for which the formatter has a dedicated branch that rebuilds or unwraps its input
FORMAT_EXTRA = [
    "select a from t where b in ('x')", "select a from t where b not in ('x')", "select a from t where b in ('x', 'y')",
    "select a from t where b in (1)", "select a from t where b in (select c from u)", "select a from t where b not in (1, 2)",
    "select a from t union select b from u", "select a from t union all select b from u order by 1 limit 2",
    "delete from t where a = 1", "delete from t", "insert into t (a) values (1)", "insert into t (a, b) values (1, 2), (3, 4)",
    "select a from t order by b desc nulls first", "select count(*) over (partition by a order by b rows between 1 preceding and current row) from t",
    "select case when a then 1 else 2 end from t", "select cast(a as varchar(10)) from t", "select a from t limit 1 offset 2",
    "with w as (select 1) select * from w", "select a from t join u using (b)", "select a from t left join u on t.a = u.a",
    "select x from t where a between 1 and 2", "select 'a' from t", "select a from t where b like 'x' escape '\\'" if False else "select a from t where b like 'x'",
    "select distinct a, b from t", "select top 3 a from t", "create table t (a int)", "update t set a = 1 where b = 2",
    "select a from t where b = any (select c from u)" if False else "select a from t where exists (select 1 from u)",
    "select {fn now()}" if False else "select now()", "select a from t group by a having count(*) > 1",
    "select a is null, b is not null from t", "select not a from t", "select -a from t", "select a || b || c from t",
]


def containers(x, out=None):
    if out is None:
        out = []
    if isinstance(x, dict):
        out.append(x)
        for v in x.values():
            containers(v, out)
    elif isinstance(x, list):
        out.append(x)
        for v in x:
            containers(v, out)
    return out


def library_objects(R):
    """ids of every dict / list reachable from the package's module globals and the cached grammar graphs"""
    import sys
    roots = [m for n, m in sys.modules.items() if n.startswith("mo_sql_parsing")]
    seen = set()
    stack = list(roots)
    ids = {}
    n = 0
    while stack and n < 3_000_000:
        o = stack.pop()
        if id(o) in seen:
            continue
        seen.add(id(o))
        n += 1
        if isinstance(o, (dict, list)) and not isinstance(o, type):
            ids[id(o)] = o
        try:
            stack.extend(gc.get_referents(o))
        except Exception:
            pass
    return ids


def mutate(c, how):
    if isinstance(c, dict):
        if how == 0:
            c["__verif_added__"] = {"x": 1}
        elif how == 1:
            c.clear()
        else:
            for k in list(c):
                c[k] = "__verif_overwritten__"
    else:
        if how == 0:
            c.append("__verif_appended__")
        elif how == 1:
            del c[:]
        else:
            for i in range(len(c)):
                c[i] = "__verif_overwritten__"


def run(ctx, scale=1):
    rep = ctx.rep
    rng = ctx.rng
    R = C.real()
    m = R.m
    # ---- a `calls=` hook that calls the library again (same thread).  The pinned tree blocks on its own, non-reentrant
    #      lock: nothing to observe then.  If the nested call does go through, the tree it returned must stay as it was
    #      returned when the outer call finishes (the outer call's NULL substitution must not reach into it).
    import subprocess
    script = (
        "import sys, json, copy\nsys.path.insert(0, %r)\nimport mo_sql_parsing as m\ninner = []\n"
        "def hook(op, args, kwargs):\n"
        "    if not inner:\n"
        "        inner.append(None)\n"
        "        t = m.parse('select f(null), null from u where g(null, 1) = h(null)')\n"
        "        inner[0] = (t, copy.deepcopy(t))\n"
        "    return m.simple_op(op, args, kwargs)\n"
        "out = m.parse('select k(null), j(1), null from t', calls=hook, null={'N': 1})\n"
        "t, snap = inner[0]\n"
        "print(json.dumps({'same': t == snap, 'now': t, 'then': snap}))\n" % C.REPO)
    try:
        pr = subprocess.run([C.PY, "-W", "ignore", "-c", script], capture_output=True, timeout=12)
        outcome = json.loads(pr.stdout.decode("utf8").strip().splitlines()[-1]) if pr.returncode == 0 and pr.stdout.strip() else {"error": pr.stderr.decode("utf8", "replace")[-200:]}
    except subprocess.TimeoutExpired:
        outcome = {"blocked": True}
    rep.count("reentrant_hook", "blocked" if outcome.get("blocked") else ("same" if outcome.get("same") else ("error" if "error" in outcome else "MODIFIED")))
    rep.case("reentrant-hook")
    if outcome.get("same") is False:
        rep.finding("returned-tree-modified:reentrant-hook",
                    "a tree returned to a calls= hook by a nested parse was modified when the outer parse finished: %s -> %s" % (
                        json.dumps(outcome["then"])[:140], json.dumps(outcome["now"])[:140]),
                    {"kind": "reentrant-hook"})
    for d, s, kw in PROBES:
        R.parse_raw(s, d, **kw)          # build the parsers before the census of library objects
    for d in ("sqlserver", "bigquery"):
        R.parse_raw("select 1", d)

    def probe_all():
        return [C.cdump(R.parse(s, d, **kw)) for d, s, kw in PROBES] + \
               [C.cdump(m.format(t)) for t in FORMAT_PROBES]

    FORMAT_PROBES = [r[1] for r in (R.parse_raw(s, d) for d, s, kw in PROBES[:6]) if r[0] == "ok"]
    FORMAT_PROBES = [copy.deepcopy(t) for t in FORMAT_PROBES]
    reference = probe_all()
    if probe_all() != reference:
        raise C.InfraError("probe set is not deterministic")

    stmts = pool.statements(ctx, n_gen=(60 if ctx.quick else 600) * scale)
    if ctx.quick:
        corp = [x for x in stmts if x["origin"] == "corpus"]
        rest = [x for x in stmts if x["origin"] != "corpus"]
        stmts = rng.sample(corp, min(len(corp), 120 * scale)) + rest
    import gen_tokens as GT
    g = GT.Gen(rng)
    for _ in range((500 if ctx.quick else 5000) * scale):
        kind, toks = g.statement()
        stmts.append({"sql": GT.text(toks), "dialect": "common", "origin": "gen-tokens"})
    stmts += [{"sql": s, "dialect": "common", "origin": "extra"} for s in FORMAT_EXTRA]
    stmts = [{"sql": s, "dialect": d, "origin": "probe"} for d, s, kw in PROBES] + stmts
    lib = library_objects(R)
    rep.count("library_containers", None, len(lib))

    earlier = []      # (sql, tree, snapshot dump, container ids)
    seen_ids = {}
    for it in stmts:
        sql, d = it["sql"], it["dialect"]
        kw = rng.choice([{}, {}, {"null": None}, {"calls": m.normal_op}, {"all_columns": "*"}])
        r = R.parse_raw(sql, d, **kw)
        if r[0] != "ok" or not isinstance(r[1], (dict, list)):
            rep.count("statements", "skipped")
            continue
        tree = r[1]
        rep.count("statements", it["origin"])
        rep.case(sql)
        cs = containers(tree)
        # ---- aliasing census: containers shared with the library or with an earlier result
        for c in cs:
            rep.count("containers_checked")
            if id(c) in lib:
                where = "SQL_NULL" if c is m.SQL_NULL else ("empty-dict-constant" if c == {} else "library-container")
                rep.finding("alias:" + where, "%s: %r returns a container that the library keeps: %r" % (d, sql[:120], c),
                            {"kind": "alias", "sql": sql, "dialect": d, "kw": sorted(kw)})
            elif id(c) in seen_ids and seen_ids[id(c)][1] is c and "null" not in kw:
                rep.finding("alias:earlier-result", "%r shares a container with the result of %r: %r" % (sql[:100], seen_ids[id(c)][0][:100], c),
                            {"kind": "alias", "sql": sql, "dialect": d, "kw": sorted(kw)})
        for c in cs:
            seen_ids.setdefault(id(c), (sql, c))
        earlier.append((sql, tree, C.cdump(C.canon(tree))))
        # ---- format must not touch its argument and must be deterministic
        snap = C.cdump(C.canon(tree))
        f1 = R.format_raw(tree)
        if C.cdump(C.canon(tree)) != snap:
            rep.finding("format-mutates-argument", "format changed its argument for %r" % sql[:140], {"kind": "format", "sql": sql, "dialect": d})
        f2 = R.format_raw(copy.deepcopy(tree))
        if f1[:2] != f2[:2]:
            rep.finding("format-not-deterministic", "format gives %r for a tree and %r for an equal copy (%r)" % (f1[1][:80], f2[1][:80], sql[:100]),
                        {"kind": "format", "sql": sql, "dialect": d})
        rep.count("format_checks")
        if len(earlier) > 40:
            earlier.pop(0)

    # ---- every tree shape the repository's own tests know (expected trees and format() arguments): format must
    # leave its argument alone and give the same text again, and for an equal copy
    import corpus as _corpus
    for t in _corpus.format_trees():
        snap = C.cdump(C.canon(t))
        f1 = R.format_raw(t)
        rep.count("format_checks_test_trees")
        rep.case("fmt-tree:" + snap[:300])
        if C.cdump(C.canon(t)) != snap:
            rep.finding("format-mutates-argument", "format changed its argument %s into %s" % (snap[:160], C.cdump(C.canon(t))[:160]),
                        {"kind": "format-tree", "tree": json.loads(snap)})
            continue
        if f1[0] != "ok":
            continue
        f2 = R.format_raw(t)
        f3 = R.format_raw(C.uncanon(json.loads(snap)))
        if f2[:2] != f1[:2] or f3[:2] != f1[:2]:
            rep.finding("format-not-deterministic", "format gives %r, then %r, and %r for an equal copy (%s)" % (f1[1][:70], f2[1][:70], f3[1][:70], snap[:100]),
                        {"kind": "format-tree", "tree": json.loads(snap)})

    # ---- earlier results must not have been modified by later calls
    for sql, tree, snap in earlier:
        if C.cdump(C.canon(tree)) != snap:
            rep.finding("earlier-result-modified", "the tree returned for %r was modified by later calls" % sql[:140],
                        {"kind": "snapshot", "sql": sql})

    # ---- mutation: every container of a returned tree, three ways; then all probes again
    picks = [x for x in stmts if x["origin"] == "probe"] + rng.sample(stmts, min(len(stmts), (35 if ctx.quick else 500) * scale))
    budget = (1500 if ctx.quick else 40000) * scale
    done = 0
    for it in picks:
        sql, d = it["sql"], it["dialect"]
        if done >= budget:
            break
        for kw in ({}, {"calls": m.normal_op}):
            r = R.parse_raw(sql, d, **kw)
            if r[0] != "ok" or not isinstance(r[1], (dict, list)):
                continue
            n = len(containers(r[1]))
            for ci in range(n):
                for how in (0, 1, 2):
                    r = R.parse_raw(sql, d, **kw)
                    cs = containers(r[1])
                    if ci >= len(cs):
                        continue
                    c = cs[ci]
                    desc = repr(c)[:80]
                    try:
                        mutate(c, how)
                    except Exception:
                        continue
                    rep.count("mutations")
                    done += 1
                    now = probe_all()
                    if now != reference:
                        which = [i for i, (a, b) in enumerate(zip(now, reference)) if a != b]
                        rep.finding("mutation-leaks:" + ("SQL_NULL" if "null" in desc else "container"),
                                    "after mutating container #%d (%s, way %d) of parse(%r): probe %d now gives %s" % (ci, desc, how, sql[:100], which[0], now[which[0]][:140]),
                                    {"kind": "mutation", "sql": sql, "dialect": d, "container": ci, "how": how, "normal": bool(kw)})
                        # repair the library state as well as we can, otherwise everything after fails
                        _repair(R, reference, probe_all)
    rep.sample({"statement": stmts[0]["sql"], "containers": len(containers(R.parse_raw(stmts[0]["sql"], stmts[0]["dialect"])[1]))})


def _repair(R, reference, probe_all):
    m = R.m
    try:
        m.SQL_NULL.clear()
        m.SQL_NULL["null"] = {}
    except Exception:
        pass
    if probe_all() != reference:
        # drop the cached parsers: grammar constants are rebuilt
        try:
            for k in m.lookup_parsers:
                for a in m.lookup_parsers[k]:
                    m.lookup_parsers[k][a] = None
        except Exception:
            # the cache is the package's private business: when it cannot be emptied this way, a fresh import does it
            import importlib, sys
            for name in [n for n in sys.modules if n == "mo_sql_parsing" or n.startswith("mo_sql_parsing.")]:
                del sys.modules[name]
            R.m = importlib.import_module("mo_sql_parsing")
        if probe_all() != reference:
            raise C.InfraError("library state could not be restored after a leaking mutation; rerun to continue")


def search(ctx):
    run(ctx, scale=3)


def replay(ctx, p):
    if p.get("kind") == "reentrant-hook":
        print("re-run ./check C17: the re-entrant hook probe is part of every run")
        return True
    R = C.real()
    m = R.m
    d = p.get("dialect", "common")
    if p["kind"] == "alias":
        lib_before = None
        r = R.parse_raw(p["sql"], d)
        lib = library_objects(R)
        bad = [c for c in containers(r[1]) if id(c) in lib]
        print(bad[:3])
        return bool(bad)
    if p["kind"] == "mutation":
        kw = {"calls": m.normal_op} if p.get("normal") else {}
        before = [C.cdump(R.parse(s, dd, **k)) for dd, s, k in PROBES]
        r = R.parse_raw(p["sql"], d, **kw)
        mutate(containers(r[1])[p["container"]], p["how"])
        after = [C.cdump(R.parse(s, dd, **k)) for dd, s, k in PROBES]
        print([i for i, (a, b) in enumerate(zip(before, after)) if a != b])
        return before != after
    if p["kind"] == "format-tree":
        t = C.uncanon(p["tree"])
        snap = C.cdump(C.canon(t))
        f1 = R.format_raw(t)
        f2 = R.format_raw(t)
        return C.cdump(C.canon(t)) != snap or f1[:2] != f2[:2]
    if p["kind"] == "format":
        r = R.parse_raw(p["sql"], d)
        snap = C.cdump(C.canon(r[1]))
        f1 = R.format_raw(r[1])
        f2 = R.format_raw(copy.deepcopy(r[1]))
        return C.cdump(C.canon(r[1])) != snap or f1[:2] != f2[:2]
    return True
