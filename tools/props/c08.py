"""C08 — results are plain JSON in the documented simplified form, under every option."""
import json
import math
import re

import common as C
import pool
import scrubtie

ASSUMPTIONS = [
    "ParseResults are abstracted to lists / dicts / groups in the Raw model; the stub-parser correspondence drives the real "
    "_parse + scrub with generated raw trees, the end-to-end oracle covers real ParseResults",
]


def custom_op(op, args, kwargs):
    out = {"call": op}
    if args is not None:
        out["with"] = args
    if kwargs:
        out["opts"] = kwargs
    return out


NULL_OPTS = {"default": "DEFAULT", "none": None, "scalar": 0, "container": []}


def walk(x, null_opt, mode, path, problems):
    """census of what must not be in a result"""
    if null_opt != "default" and x is NULL_VALUES.get(null_opt, object()):
        return
    if x is None:
        if null_opt != "none":
            problems.append(("none-value", path))
        return
    if isinstance(x, bool) or isinstance(x, str) or isinstance(x, int):
        return
    if isinstance(x, float):
        if math.isnan(x) or math.isinf(x):
            problems.append(("float:inf-or-nan", path))
        return
    if isinstance(x, list):
        if len(x) == 0:
            problems.append(("simplified:empty-list", path))
        elif len(x) == 1 and not (mode == "normal" and path and path[-1] == "args") and mode != "custom":
            problems.append(("simplified:one-element-list", path))
        for i, v in enumerate(x):
            walk(v, null_opt, mode, path + [i], problems)
        return
    if isinstance(x, dict):
        for k, v in x.items():
            if not isinstance(k, str):
                problems.append(("non-string-key", path))
            if v is None and null_opt != "none":
                problems.append(("simplified:none-entry", path + [k]))
            else:
                walk(v, null_opt, mode, path + [k], problems)
        return
    problems.append(("leak:" + type(x).__name__, path))


NULL_VALUES = {}


def classify(kind, path, mode, tree):
    if kind.startswith("leak:Call") and mode == "normal" and len(path) >= 2 and path[-2] == "args":
        return "normal_op:sole-null-arg"
    if kind.startswith("leak:Call") and mode == "custom" and path and path[-1] == "with":
        return "custom-calls:sole-null-arg"
    if kind.startswith("leak:Call"):
        # which construct holds the leaked marker
        holder = [p for p in path if isinstance(p, str)]
        return "leak:Call:%s:%s" % (mode, holder[-1] if holder else "top")
    return "%s:%s" % (kind, mode)


def run(ctx):
    rep = ctx.rep
    R = C.real()
    m = R.m
    if ctx.driver:
        scrubtie.run_correspondence(ctx, 3000 if ctx.quick else 40000)
    stmts = pool.statements(ctx, n_gen=300 if ctx.quick else 5000)
    stmts = pool.scripts() + stmts
    calls = {"simple": None, "normal": m.normal_op, "custom": custom_op}
    combos_per = 3 if ctx.quick else 12
    for st in stmts:
        combos = [(st["dialect"], "default", "simple", None)]
        for _ in range(combos_per):
            combos.append((ctx.rng.choice(["common", "mysql", "sqlserver", "bigquery"]),
                           ctx.rng.choice(list(NULL_OPTS)), ctx.rng.choice(list(calls)), ctx.rng.choice([None, "*"])))
        # the rename map is an option too (parse takes fmap=, the dialect entry points take the same map as is_null=):
        # every function name of the statement and the operators a NULL comparison folds to
        fnames = sorted(set(x.lower() for x in re.findall(r"([A-Za-z_][A-Za-z_0-9]*)\s*\(", st["sql"])))[:6]
        fmap_all = {n: n + "_r" for n in fnames + ["missing", "exists", "not", "neg", "coalesce"]}
        for dialect, nopt, mode, ac in combos:
            kw = {"calls": calls[mode], "all_columns": ac}
            use_fmap = ctx.rng.random() < 0.4
            if use_fmap:
                kw["fmap" if dialect == "common" else "is_null"] = fmap_all
            if nopt != "default":
                kw["null"] = NULL_OPTS[nopt]
            NULL_VALUES.clear()
            if nopt == "container":
                NULL_VALUES["container"] = kw["null"]
            r = R.parse_raw(st["sql"], dialect, **kw)
            rep.case("%s|%s|%s|%s|%s" % (st["sql"], dialect, nopt, mode, ac), nontrivial=True)
            rep.count("dialect", dialect)
            rep.count("null", nopt)
            rep.count("calls", mode)
            rep.count("origin", st["origin"])
            if r[0] != "ok":
                rep.count("outcome", r[1])
                continue
            rep.count("outcome", "ok")
            tree = r[1]
            problems = []
            if tree is None:
                # the whole result is None: "input containing no statement returns None" (C13) — an empty text, lone
                # semicolons, and what the library treats as such (an empty BEGIN END block)
                rep.count("outcome", "no-statement")
                continue
            walk(tree, nopt, mode, [], problems)
            if not problems:
                try:
                    if json.loads(json.dumps(tree, allow_nan=False)) != tree:
                        problems.append(("json-roundtrip-differs", []))
                except Exception as e:
                    problems.append(("json-dumps-raises:" + type(e).__name__, []))
            rep.sample({"sql": st["sql"][:120], "options": [dialect, nopt, mode, ac]})
            for kind, path in problems[:1]:
                key = classify(kind, path, mode, tree)
                rep.count("finding", key)
                rep.finding(key, "parse(%r, %s/null=%s/calls=%s/all_columns=%s): %s at %s" % (st["sql"][:150], dialect, nopt, mode, ac, kind, path),
                            {"sql": st["sql"], "dialect": dialect, "null": nopt, "calls": mode, "all_columns": ac,
                             "problem": kind, "path": path, "fmap": fmap_all if use_fmap else None})


def search(ctx):
    ctx.quick = False
    run(ctx)


def replay(ctx, p):
    R = C.real()
    m = R.m
    calls = {"simple": None, "normal": m.normal_op, "custom": custom_op}
    kw = {"calls": calls[p["calls"]], "all_columns": p["all_columns"]}
    if p["null"] != "default":
        kw["null"] = NULL_OPTS[p["null"]]
    NULL_VALUES.clear()
    if p["null"] == "container":
        NULL_VALUES["container"] = kw["null"]
    if p.get("fmap"):
        kw["fmap" if p["dialect"] == "common" else "is_null"] = p["fmap"]
    r = R.parse_raw(p["sql"], p["dialect"], **kw)
    print(r)
    if r[0] != "ok":
        return False
    problems = []
    if r[1] is not None:
        walk(r[1], p["null"], p["calls"], [], problems)
    print(problems)
    return bool(problems)
