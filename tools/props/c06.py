"""C06 — string and numeric literals survive parse and format exactly."""
import itertools
import json
import math
import random
import re
import struct
from fractions import Fraction

import common as C

ASSUMPTIONS = [
    "float(repr(x)) == x and correct rounding of float(text) are Python's guarantees (trusted, not proved)",
    "pyEval models Python's string-literal evaluation on the generated alphabet; \\N{name} and lone surrogates are outside it",
]

ALPH = ["'", '"', "\\", "\n", "\r", "\t", "\0", "a", "b", "n", "x", "u", "0", "1", "7", "8", "f", ";", "-", "/", "*", "#",
        "é", "漢", " ", "N", "{", "}", "U", "`", "[", "]", "%", "_",
        # text that is not in a Unicode normalisation form: a combining mark after its base letter, singletons with a
        # canonical replacement (KELVIN, OHM, ANGSTROM), conjoining jamo, a compatibility ligature, fullwidth, astral
        "e\u0301", "\u0301", "\u212a", "\u2126", "\u212b", "\u1100\u1161", "\ufb01", "\uff21", "\U0001f600", "\u00a0", "\u200b", "\u2028"]
SAFE = [c for c in ALPH if c not in ("\\", "\r", "\0")]
MARK = "zq9marker"

TEMPLATES = {
    "select": "SELECT {lit}",
    "where": "SELECT a FROM t WHERE b = {lit}",
    "in": "SELECT a FROM t WHERE b IN ({lit}, 'zz')",
    "arg": "SELECT f({lit}, 1)",
    "values": "INSERT INTO t (c) VALUES ({lit})",
}


def subst(tree, old, new):
    if isinstance(tree, dict):
        return {k: subst(v, old, new) for k, v in tree.items()}
    if isinstance(tree, list):
        return [subst(v, old, new) for v in tree]
    if isinstance(tree, str) and tree == old:
        return new
    return tree


def unfold_literals(t):
    """the all-literal tuple folding is not the subject here: {'literal': [a, b]} == [{'literal': a}, {'literal': b}]"""
    if isinstance(t, dict):
        if set(t) == {"literal"} and isinstance(t["literal"], list):
            return [{"literal": x} for x in t["literal"]]
        return {k: unfold_literals(v) for k, v in t.items()}
    if isinstance(t, list):
        return [unfold_literals(v) for v in t]
    return t


def str_key(s):
    if "\\" in s:
        return "str:backslash"
    if "\r" in s:
        return "str:carriage-return"
    if "\0" in s:
        return "str:nul"
    return "str:other"


def gen_strings(ctx):
    rng = ctx.rng
    out = []
    maxlen = 3 if ctx.quick else 4
    small = ["'", '"', "\\", "\n", "\r", "\0", "a", ";", "-", "#", "é", "*", "/"]
    for n in range(0, maxlen + 1):
        prods = list(itertools.product(small, repeat=n))
        if len(prods) > (3000 if ctx.quick else 40000):
            prods = rng.sample(prods, 3000 if ctx.quick else 40000)
        out += ["".join(p) for p in prods]
    for _ in range(4000 if ctx.quick else 60000):
        n = rng.choice([1, 2, 3, 5, 8, 12, 20, 40])
        alph = SAFE if rng.random() < 0.6 else ALPH
        out.append("".join(rng.choice(alph) for _ in range(n)))
    out += ["select", "NULL", "--", "/* x */", "# c", "a;b", "it's", 'say "hi"', "O''Brien", "%", "_", "é漢",
            "cafe\u0301", "it's cafe\u0301; -- select", "\u212a", "\u2126m", "A\u030a", "\u1112\u1161\u11ab", "\ufb01n", "x\u0323\u0307", "\u00e9 vs e\u0301"]
    return out


def run(ctx):
    rep = ctx.rep
    R = C.real()
    m = R.m
    rng = ctx.rng
    from mo_sql_parsing.formatting import Formatter
    from mo_sql_parsing import utils as U

    F = Formatter()
    strings = gen_strings(ctx)

    # ---------------- Tie B: codecs and matchers, model vs real
    if ctx.driver:
        sample = strings if ctx.quick else strings
        enc = ctx.driver.batch([{"op": "lex", "what": "encodeSQ", "text": s} for s in sample])
        bad = 0
        toks = []
        for s, a in zip(sample, enc):
            real = F._literal({"literal": s})
            toks.append(real)
            rep.count("tie", "encodeSQ")
            if a.get("ok") != real:
                bad += 1
                if bad <= 3:
                    rep.tie_break("correspondence", "Lex.encodeSQ vs Formatter._literal", {"s": s, "real": real, "model": a})
        dec = ctx.driver.batch([{"op": "lex", "what": "decodeImpl", "text": t} for t in toks])
        for t, a in zip(toks, dec):
            try:
                real = {"ok": U.single_literal([t])["literal"]}
            except Exception:
                real = {"err": True}
            rep.count("tie", "decodeImpl")
            rep.case("dec:" + t, nontrivial=len(t) > 3)
            if a != real:
                bad += 1
                if bad <= 6:
                    rep.tie_break("correspondence", "Lex.decodeImpl vs single_literal", {"token": t, "real": real, "model": a})
                # the known defects of the decoder are exactly "the body is evaluated like a Python string literal" (the
                # model): a result that is neither the written text nor that evaluation is a different violation
                written = t[1:-1].replace("''", "'")
                if real != {"ok": written}:
                    rep.finding("str:decoding-differs-from-python-evaluation",
                                "single_literal(%r) = %r ; written %r ; Python evaluation of the body gives %r" % (t[:60], real, written[:60], a),
                                {"kind": "parse-string", "sql": "select " + t, "dialect": "common", "expected": {"ok": C.canon({"select": {"value": {"literal": written}}})}})
        # the token regex itself: arbitrary text after an opening quote
        pat = re.compile(dict(ctx.gen["lex_patterns"])["ansi_string"])
        raw = ["'" + s + rng.choice(["", "'", "' x", "''", "'y'"]) for s in sample[: len(sample) // 2]]
        ms = ctx.driver.batch([{"op": "lex", "what": "matchSQ", "text": t} for t in raw])
        for t, a in zip(raw, ms):
            mm = pat.match(t)
            real = {"body": mm.group(0)[1:-1], "rest": t[mm.end():]} if mm else {"err": True}
            rep.count("tie", "matchSQ")
            if a != real:
                bad += 1
                if bad <= 9:
                    rep.tie_break("correspondence", "Lex.matchSQ vs ansi_string regex", {"text": t, "real": real, "model": a})
        # double-quoted
        dqs = sample[: len(sample) // 3]
        dq_t = ['"' + s.replace('"', '""') + '"' for s in dqs]
        dd = ctx.driver.batch([{"op": "lex", "what": "decodeImplDQ", "text": t} for t in dq_t])
        for t, a in zip(dq_t, dd):
            try:
                real = {"ok": U.double_literal([t])["literal"]}
            except Exception:
                real = {"err": True}
            rep.count("tie", "decodeImplDQ")
            if a != real:
                bad += 1
                if bad <= 12:
                    rep.tie_break("correspondence", "Lex.decodeImplDQ vs double_literal", {"token": t, "real": real, "model": a})
        # integers
        ints = [rng.randrange(10 ** rng.randint(0, 40)) for _ in range(300)]
        di = ctx.driver.batch([{"op": "lex", "what": "digits", "text": str(n)} for n in ints])
        for n, a in zip(ints, di):
            rep.count("tie", "digits")
            if a.get("ok") != str(n) or a.get("back") != str(n):
                bad += 1
                rep.tie_break("correspondence", "Lex.digits/parseNat vs str/int", {"n": str(n), "model": a})
        # parse_int on the texts int_num accepts (digits, optional exponent with optional +): exact integers of any size
        texts = []
        for _ in range(300):
            t = str(rng.randrange(10 ** rng.randint(0, 30)))
            if rng.random() < 0.7:
                t += rng.choice("eE") + rng.choice(["", "", "+"]) + str(rng.choice([0, 1, 2, 5, 17, 40, 300, rng.randint(0, 99)]))
            if rng.random() < 0.2:
                t = "00" + t
            texts.append(t)
        pi = ctx.driver.batch([{"op": "lex", "what": "parseInt", "text": t} for t in texts])
        for t, a in zip(texts, pi):
            rep.count("tie", "parse_int")
            try:
                real = U.parse_int([t])
            except Exception as e:      # noqa
                real = "raised " + type(e).__name__
            if isinstance(real, bool) or not isinstance(real, int) or str(real) != a.get("value"):
                bad += 1
                if bad <= 12:
                    rep.tie_break("correspondence", "Lex.parseIntText vs utils.parse_int", {"text": t, "real": repr(real)[:80], "model": a})
        rep.count("correspondence_mismatches", None, bad)

    # ---------------- oracle: strings through parse, in five positions and four entry points
    base = {}
    for pos, tpl in TEMPLATES.items():
        for d in ("common", "mysql", "sqlserver", "bigquery"):
            r = R.parse_raw(tpl.format(lit="'" + MARK + "'"), d)
            if r[0] == "ok":
                base[(pos, d, "sq")] = r[1]
            if d in ("mysql", "bigquery"):
                r = R.parse_raw(tpl.format(lit='"' + MARK + '"'), d)
                if r[0] == "ok":
                    base[(pos, d, "dq")] = r[1]
    keys = sorted(base)
    for s in strings:
        combos = [("select", "common", "sq")] + [rng.choice(keys) for _ in range(1 if ctx.quick else 3)]
        for pos, d, style in combos:
            if (pos, d, style) not in base:
                continue
            lit = "'" + s.replace("'", "''") + "'" if style == "sq" else '"' + s.replace('"', '""') + '"'
            sql = TEMPLATES[pos].format(lit=lit)
            r = R.parse_raw(sql, d)
            rep.case("s:%s|%s|%s|%s" % (pos, d, style, s), nontrivial=len(s) >= 2)
            rep.count("position", pos)
            rep.count("dialect", d)
            rep.count("style", style)
            want = unfold_literals(subst(base[(pos, d, style)], MARK, s))
            got = {"ok": C.canon(unfold_literals(r[1]))} if r[0] == "ok" else {"$err": r[1]}
            if C.cdump(got) != C.cdump({"ok": C.canon(want)}):
                key = str_key(s) + (":dq" if style == "dq" else "")
                if key == "str:other:dq" and d == "bigquery" and "\n" in s and r[0] != "ok":
                    key = "str:newline-in-double-quotes:bigquery"
                rep.count("finding", key)
                rep.finding(key, "%s(%r) = %s ; the literal is %r" % (d, sql[:120], C.cdump(got)[:160], s),
                            {"kind": "parse-string", "sql": sql, "dialect": d, "expected": {"ok": C.canon(want)}})
        # format -> parse
        f = R.format_raw({"select": {"value": {"literal": s}}})
        if f[0] != "ok":
            rep.finding("fmt-string-raises", "format of literal %r raised %s" % (s, f[1]), {"kind": "format-string", "s": s})
            continue
        r = R.parse_raw(f[1])
        rep.case("f:" + s, nontrivial=len(s) >= 2)
        got = {"ok": C.canon(r[1])} if r[0] == "ok" else {"$err": r[1]}
        want = {"ok": C.canon({"select": {"value": {"literal": s}}})}
        rep.sample({"literal": s, "format": f[1]})
        if C.cdump(got) != C.cdump(want):
            key = "fmt-" + str_key(s)
            rep.count("finding", key)
            rep.finding(key, "parse(format({'literal': %r})) = %s" % (s, C.cdump(got)[:160]), {"kind": "format-string", "s": s})

    # ---------------- numbers: text -> value
    def num_case(text, kind):
        sql = "SELECT " + text
        r = R.parse_raw(sql)
        rep.case("n:" + text)
        rep.count("number", kind)
        try:
            exact = Fraction(text.replace(" ", ""))
        except Exception:
            return
        ok = False
        v = None
        if r[0] == "ok":
            try:
                v = r[1]["select"]["value"]
            except Exception:
                v = r[1]
            if isinstance(v, bool):
                ok = False
            elif isinstance(v, int):
                ok = Fraction(v) == exact
            elif isinstance(v, float):
                try:
                    ok = math.isfinite(v) and v == float(exact) and not (kind.startswith("int") and "e" not in text.lower())
                except OverflowError:
                    ok = False
        if not ok:
            t = text.lower().lstrip("+- ")
            if "e-" in t and "." not in t:
                key = "num:negative-exponent-without-dot"
            elif r[0] == "ok" and isinstance(v, dict) and set(v) == {"neg"} and isinstance(v["neg"], int) and abs(exact) >= 2 ** 1023:
                key = "num:sign-not-folded-beyond-float-range"
            elif r[0] == "ok" and isinstance(v, float) and not math.isfinite(v):
                key = "num:overflow-to-inf"
            elif r[0] != "ok" and r[1] != "ParseException":
                key = "num:raises-" + r[1]
            else:
                key = "num:" + kind
            rep.count("finding", key)
            rep.finding(key, "parse(%r) -> %s ; exact value %s" % (sql, C.cdump(C.canon(v)) if r[0] == "ok" else r[1], exact),
                        {"kind": "parse-number", "sql": sql})

    for _ in range(600 if ctx.quick else 8000):
        n = rng.randrange(10 ** rng.randint(0, 40))
        num_case(rng.choice(["", "", "-", "+", "- "]) + str(n), "int")
    for _ in range(900 if ctx.quick else 12000):
        a, b = str(rng.randrange(10 ** rng.randint(0, 12))), str(rng.randrange(10 ** rng.randint(0, 12)))
        e = rng.choice(["", "", "%s%s%d" % (rng.choice("eE"), rng.choice(["", "+"]), rng.randint(0, 30)), "%s+%d" % (rng.choice("eE"), rng.randint(0, 300)),
                        "%s-%d" % (rng.choice("eE"), rng.randint(1, 330)), "%s%d" % (rng.choice("eE"), rng.randint(300, 400))])
        form = rng.choice(["%s.%s" % (a, b), "%s." % a, ".%s" % b, a])
        kind = "float" if ("." in form or "e-" in e.lower()) else "int-exp"
        num_case(rng.choice(["", "", "-"]) + form + e, kind)

    # every spelling of the exponent (letter case x sign) behind every form of mantissa, in a select item and inside an
    # expression of each dialect: the lexer decides int / float by these characters alone
    for mant in ("1", "25", "120", "1.", "1.5", ".5", "0", "00"):
        for letter in "eE":
            for sign in ("", "+", "-"):
                for ex in ("0", "1", "3", "05", "12"):
                    text = "%s%s%s%s" % (mant, letter, sign, ex)
                    kind = "float" if ("." in mant or sign == "-") else "int-exp"
                    for lead in ("", "-"):
                        num_case(lead + text, kind)
    for d in ("common", "mysql", "sqlserver", "bigquery"):
        for text, want in (("1E-3", 0.001), ("25e-2", 0.25), ("120E-05", 0.0012), ("3E2", 300), ("3e+2", 300), ("1.E-3", 0.001)):
            sql = "SELECT a FROM t WHERE b > %s AND f(%s) IN (%s, 7)" % (text, text, text)
            r = R.parse_raw(sql, d)
            rep.case("n:" + d + ":" + text)
            good = {"from": "t", "select": {"value": "a"}, "where": {"and": [{"gt": ["b", want]}, {"in": [{"f": want}, [want, 7]]}]}}
            if r[0] != "ok" or r[1] != good or not all(type(x) is type(want) for x in (r[1]["where"]["and"][0]["gt"][1], r[1]["where"]["and"][1]["in"][0]["f"])):
                rep.count("finding", "num:in-expression")
                rep.finding("num:in-expression", "%s(%r) -> %s" % (d, sql, C.cdump(C.canon(r[1])) if r[0] == "ok" else r[1]),
                            {"kind": "parse-number", "sql": sql})

    # ---------------- numbers: value -> format -> parse, identical value AND type
    def fmt_case(v):
        f = R.format_raw({"select": {"value": v}})
        rep.case("v:" + repr(v))
        rep.count("format-number", type(v).__name__)
        if f[0] != "ok":
            rep.finding("fmt-number-raises", "format(%r) raised %s" % (v, f[1]), {"kind": "format-number", "v": repr(v)})
            return
        r = R.parse_raw(f[1])
        back = None
        if r[0] == "ok":
            try:
                back = r[1]["select"]["value"]
            except Exception:
                back = r[1]
        if r[0] != "ok" or type(back) is not type(v) or back != v or (isinstance(v, float) and math.copysign(1, back) != math.copysign(1, v)):
            rp = repr(v)
            if isinstance(v, float) and "e-" in rp:
                key = "fmt:float-repr-negative-exponent"
            elif isinstance(v, float) and "e+" in rp:
                key = "fmt:float-repr-positive-exponent"
            elif isinstance(v, float) and not math.isfinite(v):
                key = "fmt:non-finite"
            else:
                key = "fmt:" + type(v).__name__
            rep.count("finding", key)
            rep.finding(key, "format(%r) = %r parses back to %s" % (v, f[1], C.cdump(C.canon(back)) if r[0] == "ok" else r[1]),
                        {"kind": "format-number", "v": repr(v)})

    for _ in range(500 if ctx.quick else 6000):
        fmt_case(rng.randrange(-10 ** rng.randint(0, 40), 10 ** rng.randint(0, 40)))
    for _ in range(1500 if ctx.quick else 20000):
        bits = rng.getrandbits(64)
        x = struct.unpack("<d", struct.pack("<Q", bits))[0]
        if math.isfinite(x):
            fmt_case(x)
        fmt_case(round(rng.uniform(-1e6, 1e6), rng.randint(0, 6)))
    for v in [True, False, 0, -0.0, 0.0, 1e16, 1e-5, 1e22, 5e-324, 1.7976931348623157e308, 0.1, 1 / 3]:
        fmt_case(v)
    # short mantissas: repr() writes them without a decimal point once an exponent is needed ("1e+16", "-5e-07"),
    # which is where the text of a float and the text of an integer with an exponent meet; both signs, both
    # exponent signs, around the two thresholds of repr (1e16, 1e-4) and far from them
    for m in (1, 2, 5, 9, 25, 125, 1.5):
        for k in list(range(-12, 26)) + [-300, -100, -30, 30, 100, 300]:
            x = float("%se%d" % (m, k))
            for v in (x, -x):
                if math.isfinite(v):
                    fmt_case(v)


def search(ctx):
    ctx.quick = False
    run(ctx)


def replay(ctx, p):
    R = C.real()
    if p["kind"] == "parse-string":
        r = R.parse_raw(p["sql"], p["dialect"])
        got = {"ok": C.canon(r[1])} if r[0] == "ok" else {"$err": r[1]}
        print(p["sql"], "->", C.cdump(got))
        return C.cdump(got) != C.cdump(p["expected"])
    if p["kind"] == "format-string":
        f = R.format_raw({"select": {"value": {"literal": p["s"]}}})
        r = R.parse_raw(f[1]) if f[0] == "ok" else ("err", f[1])
        print(f, "->", r)
        return not (r[0] == "ok" and r[1] == {"select": {"value": {"literal": p["s"]}}})
    if p["kind"] == "parse-number":
        r = R.parse_raw(p["sql"])
        print(p["sql"], "->", r)
        return True
    v = eval(p["v"], {"inf": float("inf"), "nan": float("nan")})
    f = R.format_raw({"select": {"value": v}})
    r = R.parse_raw(f[1]) if f[0] == "ok" else ("err", f[1])
    print(f, "->", r)
    return not (r[0] == "ok" and r[1]["select"]["value"] == v and type(r[1]["select"]["value"]) is type(v))
