"""C01 — expression trees honour operator precedence, associativity and operand order."""
import json

import common as C
import gen_expr as G
import ref

ASSUMPTIONS = [
    "the PEG recogniser delivers the token sequence `prefix* atom suffix* (binop prefix* atom suffix*)*` to make_tree "
    "(validated by the correspondence on every generated expression, not proved)",
    "reference operator order = tools/ref.py REF_LEVELS (SQLite's classes refined by the library's IS/IN/LIKE/BETWEEN order)",
]


def gen_level(gen):
    return {o["key"]: (o["level"], o["kind"]) for o in gen["ops"]}


def deviations(e, glv, acc=None):
    """edges (parent key, slot, child key) where an UNPARENTHESISED operator child sits under an operator parent
    and the library's level table says it does not belong there (make_tree will regroup or drop)"""
    acc = [] if acc is None else acc
    t = e[0]

    def key_of(x):
        if x[0] in ("pre", "bin", "tern"):
            return x[1]
        if x[0] == "cast":
            return "::"
        return None

    def chk(parent, slot, child, strict):
        ck = key_of(child)
        if ck is None or parent not in glv or ck not in glv:
            return
        pk, cl = glv[parent][0], glv[ck][0]
        if (cl >= pk) if strict else (cl > pk):
            acc.append((parent, slot, ck))

    if t == "pre":
        chk(e[1], 0, e[2], False)
        deviations(e[2], glv, acc)
    elif t == "cast":
        chk("::", 0, e[1], False)
        deviations(e[1], glv, acc)
    elif t == "bin":
        chk(e[1], 0, e[2], False)
        chk(e[1], 1, e[3], True)
        deviations(e[2], glv, acc)
        deviations(e[3], glv, acc)
    elif t == "tern":
        chk(e[1], 0, e[2], False)
        chk(e[1], 1, e[3], True)
        chk(e[1], 2, e[4], True)
        for x in e[2:5]:
            deviations(x, glv, acc)
    elif t == "paren":
        deviations(e[1], glv, acc)
    elif t == "call":
        for x in e[2]:
            deviations(x, glv, acc)
    return acc


def classify(e, glv):
    dv = deviations(e, glv)
    if not dv:
        return "unexplained"
    p, s, c = dv[0]
    lab = ref.ref_label_of()
    return "level-deviation:%s,%d,%s" % (lab.get(p, p), s, lab.get(c, c))


def cases(ctx):
    rng = ctx.rng
    keys = [o["key"] for o in ctx.gen["ops"]]
    g = G.ExprGen(rng, keys)
    out = []
    for triple, s in g.depth2():
        out.append(("d2", "minimal", s))
        out.append(("d2", "full", s))
    n_rand = 4000 if ctx.quick else 60000
    for i in range(n_rand):
        g.n = 0
        s = g.random(rng.choice([2, 3, 3, 4]) if ctx.quick else rng.choice([2, 3, 4, 5]))
        out.append(("rand", rng.choice(["minimal", "minimal", "redundant", "full"]), s))
    return out


def evaluate(ctx, items):
    """items: list of (origin, style, semantic AST) -> runs model + real + spec"""
    rep = ctx.rep
    R = C.real()
    glv = gen_level(ctx.gen)
    written = [G.write(s, style, ctx.rng) for (_, style, s) in items]
    answers = ctx.driver.batch([{"op": "expr", "e": e} for e in written]) if ctx.driver else [None] * len(items)
    corr_bad = 0
    for (origin, style, s), e, ans in zip(items, written, answers):
        if ans is not None and "error" in ans:
            raise C.InfraError("driver: %s on %s" % (ans["error"], json.dumps(e)[:200]))
        sql = ans["sql"] if ans else None
        if sql is None:
            continue
        text = "SELECT " + sql
        rep.case(sql, nontrivial=G.depth_of(s) >= 2)
        rep.count("origin", origin)
        rep.count("style", style)
        rep.count("depth", G.depth_of(s))
        for k in set(G.ops_of(s)):
            rep.count("operator", k)
        r = R.parse_raw(text)
        if r[0] == "ok":
            try:
                real = {"ok": C.canon(r[1]["select"]["value"])}
            except Exception:
                real = {"ok": C.canon(r[1])}
        else:
            real = {"$err": r[1]}
            rep.count("error", r[1])
        want = {"ok": C.canon(G.spec(e))}
        model = {"ok": ans["model"]}
        if isinstance(ans["model"], dict) and "$obj" in ans["model"] and str(ans["model"]["$obj"]).startswith("crash"):
            model = {"$err": "Except"}
        rep.sample({"sql": text, "tree": real.get("ok", real)})
        # 1. correspondence
        if C.cdump(real) != C.cdump(model):
            corr_bad += 1
            if corr_bad <= 5:
                rep.tie_break("correspondence", "parseE vs parse", {"sql": text, "real": real, "model": model, "e": e})
        # 2. oracle on the real implementation
        if C.cdump(real) != C.cdump(want):
            key = classify(e, glv)
            rep.count("finding", key)
            rep.finding(key, "%s -> %s (expected %s)" % (text, C.cdump(real)[:160], C.cdump(want)[:160]),
                        {"sql": text, "observed": real, "expected": want, "e": e})
        # 3. the theorem's promise, checked on the model: compatible => nothing dropped
        if ans["ok"] and ans["drops"]:
            raise C.InfraError("model drops content on a compatible expression: " + text)
    rep.count("correspondence_mismatches", None, corr_bad)


def run(ctx):
    items = cases(ctx)
    evaluate(ctx, items)


def search(ctx):
    """a tie is broken: look harder for an input on which the real implementation violates the property"""
    g = G.ExprGen(ctx.rng, [o["key"] for o in ctx.gen["ops"]] if ctx.gen else [k for k, _ in ref.BINARY])
    items = []
    for i in range(20000):
        g.n = 0
        items.append(("search", ctx.rng.choice(["minimal", "redundant"]), g.random(ctx.rng.choice([2, 3, 4]))))
    evaluate(ctx, items)


def replay(ctx, payload):
    R = C.real()
    r = R.parse_raw(payload["sql"])
    real = {"ok": C.canon(r[1]["select"]["value"])} if r[0] == "ok" else {"$err": r[1]}
    print("sql:", payload["sql"])
    print("observed:", C.cdump(real))
    print("expected:", C.cdump(payload["expected"]))
    return C.cdump(real) != C.cdump(payload["expected"])
