"""C01 — expression trees honour operator precedence, associativity and operand order."""
import json

import common as C
import gen_expr as G
import ref

ASSUMPTIONS = [
    "the PEG recogniser delivers the token sequence `prefix* atom suffix* (binop prefix* atom suffix*)*` to make_tree "
    "(validated by the correspondence on every generated expression, not proved)",
    "reference operator order = tools/ref.py REF_LEVELS (SQLite's classes refined by the library's IS/IN/LIKE/BETWEEN order)",
]


def gen_level(gen):
    return {o["key"]: (o["level"], o["kind"]) for o in gen["ops"]}


def deviations(e, glv, acc=None):
    """edges (parent key, slot, child key) where an UNPARENTHESISED operator child sits under an operator parent
    and the library's level table says it does not belong there (make_tree will regroup or drop)"""
    acc = [] if acc is None else acc
    t = e[0]

    def key_of(x):
        if x[0] in ("pre", "bin", "tern"):
            return x[1]
        if x[0] == "cast":
            return "::"
        return None

    def chk(parent, slot, child, strict):
        ck = key_of(child)
        if ck is None or parent not in glv or ck not in glv:
            return
        pk, cl = glv[parent][0], glv[ck][0]
        if (cl >= pk) if strict else (cl > pk):
            acc.append((parent, slot, ck))

    if t == "pre":
        chk(e[1], 0, e[2], False)
        deviations(e[2], glv, acc)
    elif t == "cast":
        chk("::", 0, e[1], False)
        deviations(e[1], glv, acc)
    elif t == "bin":
        chk(e[1], 0, e[2], False)
        chk(e[1], 1, e[3], True)
        deviations(e[2], glv, acc)
        deviations(e[3], glv, acc)
    elif t == "tern":
        chk(e[1], 0, e[2], False)
        chk(e[1], 1, e[3], True)
        chk(e[1], 2, e[4], True)
        for x in e[2:5]:
            deviations(x, glv, acc)
    elif t == "paren":
        deviations(e[1], glv, acc)
    elif t == "call":
        for x in e[2]:
            deviations(x, glv, acc)
    return acc


def classify(e, glv):
    dv = deviations(e, glv)
    if not dv:
        return "unexplained"
    p, s, c = dv[0]
    lab = ref.ref_label_of()
    return "level-deviation:%s,%d,%s" % (lab.get(p, p), s, lab.get(c, c))


def cases(ctx):
    rng = ctx.rng
    keys = [o["key"] for o in ctx.gen["ops"]]
    g = G.ExprGen(rng, keys)
    out = []
    for triple, s in g.depth2():
        out.append(("d2", "minimal", s))
        out.append(("d2", "full", s))
    n_rand = 4000 if ctx.quick else 60000
    for i in range(n_rand):
        g.n = 0
        s = g.random(rng.choice([2, 3, 3, 4]) if ctx.quick else rng.choice([2, 3, 4, 5]))
        out.append(("rand", rng.choice(["minimal", "minimal", "redundant", "full"]), s))
    return out


def evaluate(ctx, items):
    """items: list of (origin, style, semantic AST) -> runs model + real + spec"""
    rep = ctx.rep
    R = C.real()
    glv = gen_level(ctx.gen)
    written = [G.write(s, style, ctx.rng) for (_, style, s) in items]
    answers = ctx.driver.batch([{"op": "expr", "e": e} for e in written]) if ctx.driver else [None] * len(items)
    corr_bad = 0
    for (origin, style, s), e, ans in zip(items, written, answers):
        if ans is not None and "error" in ans:
            raise C.InfraError("driver: %s on %s" % (ans["error"], json.dumps(e)[:200]))
        sql = ans["sql"] if ans else None
        if sql is None:
            continue
        text = "SELECT " + sql
        rep.case(sql, nontrivial=G.depth_of(s) >= 2)
        rep.count("origin", origin)
        rep.count("style", style)
        rep.count("depth", G.depth_of(s))
        for k in set(G.ops_of(s)):
            rep.count("operator", k)
        r = R.parse_raw(text)
        if r[0] == "ok":
            try:
                real = {"ok": C.canon(r[1]["select"]["value"])}
            except Exception:
                real = {"ok": C.canon(r[1])}
        else:
            real = {"$err": r[1]}
            rep.count("error", r[1])
        want = {"ok": C.canon(G.spec(e))}
        model = {"ok": ans["model"]}
        if isinstance(ans["model"], dict) and "$obj" in ans["model"] and str(ans["model"]["$obj"]).startswith("crash"):
            model = {"$err": "Except"}
        rep.sample({"sql": text, "tree": real.get("ok", real)})
        # 1. correspondence
        if C.cdump(real) != C.cdump(model):
            corr_bad += 1
            if corr_bad <= 5:
                rep.tie_break("correspondence", "parseE vs parse", {"sql": text, "real": real, "model": model, "e": e})
        # 2. oracle on the real implementation
        if C.cdump(real) != C.cdump(want):
            key = classify(e, glv)
            rep.count("finding", key)
            rep.finding(key, "%s -> %s (expected %s)" % (text, C.cdump(real)[:160], C.cdump(want)[:160]),
                        {"sql": text, "observed": real, "expected": want, "e": e})
        # 2b. the other entry points: the property is about the operator order of the library, not of one dialect
        #     (atoms are plain names, numbers and single-quoted strings: nothing dialect-sensitive is written)
        if origin == "d2" and style == "minimal":
            for d in ("mysql", "sqlserver", "bigquery"):
                rd = R.parse_raw(text, d)
                if rd[0] == "ok":
                    try:
                        other = {"ok": C.canon(rd[1]["select"]["value"])}
                    except Exception:
                        other = {"ok": C.canon(rd[1])}
                else:
                    other = {"$err": rd[1]}
                rep.count("entry_point", d)
                if C.cdump(other) != C.cdump(real):
                    rep.finding("entry-point-differs:%s:%s" % (d, classify(e, glv)),
                                "parse_%s(%r) -> %s but parse -> %s" % (d, text, C.cdump(other)[:160], C.cdump(real)[:160]),
                                {"sql": text, "dialect": d, "observed": other, "expected": real, "e": e})
        # 3. the theorem's promise, checked on the model: compatible => nothing dropped
        if ans["ok"] and ans["drops"]:
            raise C.InfraError("model drops content on a compatible expression: " + text)
    rep.count("correspondence_mismatches", None, corr_bad)


# ------------------------------------------------------------------ values: the tree's documented meaning vs SQLite
EVAL_KEYS = ["+", "-", "*", "/", "%", "<", "<=", ">", ">=", "=", "==", "!=", "<>", "and", "or", "&", "|",
             "u-", "u~", "not", "between", "not between"]
ROWS = [(None, 0, 1), (1, None, -2), (3, 2, None), (0, 0, 0), (-1, 5, 2), (7, -3, 4), (None, None, None), (2, 2, 2)]


class EvalGen(G.ExprGen):
    """expressions SQLite can evaluate exactly: three integer columns, small integers, NULL, TRUE / FALSE"""

    def atom(self, kinds=None):
        r = self.rng.random()
        if r < 0.5:
            return ("col", self.rng.choice(["x1", "x2", "x3"]))
        if r < 0.8:
            return ("int", self.rng.randint(0, 9))
        if r < 0.9:
            return ("null",)
        return ("bool", self.rng.random() < 0.5)

    def col(self):
        return ("col", self.rng.choice(["x1", "x2", "x3"]))

    def random(self, depth):
        if depth <= 0 or self.rng.random() < 0.15:
            return self.atom()
        key = self.rng.choice(self.all_keys())
        return self.node(key, lambda: self.random(depth - 1))


class NotEvaluable(Exception):
    pass


def _and3(vals):
    if any(v is not None and v == 0 for v in vals):
        return 0
    if any(v is None for v in vals):
        return None
    return 1


def _or3(vals):
    if any(v is not None and v != 0 for v in vals):
        return 1
    if any(v is None for v in vals):
        return None
    return 0


def eval_tree(t, row):
    """value of a parse tree under the documented meaning of the operator names (integers, NULL, 3-valued logic)"""
    if t is True:
        return 1
    if t is False:
        return 0
    if isinstance(t, int):
        return t
    if isinstance(t, str):
        if t in row:
            return row[t]
        raise NotEvaluable(t)
    if isinstance(t, dict) and len(t) == 1:
        (k, v), = t.items()
        if k == "null":
            return None
        args = v if isinstance(v, list) else [v]
        if k == "case":
            # documented: a list of {"when": condition, "then": value} branches, optionally followed by the ELSE value;
            # the first branch whose condition is TRUE (not NULL, not 0) wins
            for b in args:
                if isinstance(b, dict) and set(b) == {"when", "then"}:
                    c = eval_tree(b["when"], row)
                    if c is not None and c != 0:
                        return eval_tree(b["then"], row)
                else:
                    return eval_tree(b, row)
            return None
        if k == "cast":
            if args[1] in ({"int": {}}, {"integer": {}}, {"bigint": {}}):
                return eval_tree(args[0], row)
            raise NotEvaluable("cast to " + repr(args[1])[:30])
        if k in ("coalesce", "ifnull"):
            for a in args:
                x = eval_tree(a, row)
                if x is not None:
                    return x
            return None
        if k == "nullif":
            a, b = eval_tree(args[0], row), eval_tree(args[1], row)
            return None if (a is not None and b is not None and a == b) else a
        if k == "abs":
            x = eval_tree(args[0], row)
            return None if x is None else abs(x)
        if k in ("and", "or"):
            vals = [eval_tree(a, row) for a in args]
            return _and3(vals) if k == "and" else _or3(vals)
        vals = [eval_tree(a, row) for a in args]
        if k == "missing":
            return int(vals[0] is None)
        if k == "exists":
            return int(vals[0] is not None)
        if k in ("between", "not_between"):
            a, lo, hi = vals
            ge = None if (a is None or lo is None) else int(a >= lo)
            le = None if (a is None or hi is None) else int(a <= hi)
            r = _and3([ge, le])
            return r if k == "between" else (None if r is None else int(not r))
        if any(x is None for x in vals):
            return None
        if k == "add":
            return sum(vals)
        if k == "mul":
            out = 1
            for x in vals:
                out *= x
            return out
        if k == "binary_and":
            out = vals[0]
            for x in vals[1:]:
                out &= x
            return out
        if k == "binary_or":
            out = vals[0]
            for x in vals[1:]:
                out |= x
            return out
        if len(vals) == 1:
            x = vals[0]
            if k == "neg":
                return -x
            if k == "pos":
                return x
            if k == "binary_not":
                return ~x
            if k == "not":
                return int(x == 0)
            raise NotEvaluable(k)
        if len(vals) == 2:
            a, b = vals
            if k == "sub":
                return a - b
            if k == "div":
                return None if b == 0 else (abs(a) // abs(b)) * (1 if (a >= 0) == (b >= 0) else -1)
            if k == "mod":
                return None if b == 0 else (abs(a) % abs(b)) * (1 if a >= 0 else -1)
            if k in ("lt", "lte", "gt", "gte", "eq", "neq"):
                return int({"lt": a < b, "lte": a <= b, "gt": a > b, "gte": a >= b, "eq": a == b, "neq": a != b}[k])
        raise NotEvaluable(k)
    raise NotEvaluable(repr(t)[:40])


def sqlite_values(ctx):
    """the second half of the property: evaluating the returned tree with the documented meaning of its operator
    names gives, on every row of a test table, the value SQLite computes for the text (this also checks the
    reference operator order of tools/ref.py against SQLite itself)"""
    import sqlite3
    rep = ctx.rep
    R = C.real()
    glv = gen_level(ctx.gen)
    keys = [k for k in EVAL_KEYS if k in {o["key"] for o in ctx.gen["ops"]}]
    g = EvalGen(ctx.rng, keys)
    con = sqlite3.connect(":memory:")
    con.execute("create table t (x1 integer, x2 integer, x3 integer)")
    con.executemany("insert into t values (?, ?, ?)", ROWS)
    rows = [dict(zip(("x1", "x2", "x3"), r)) for r in ROWS]
    items = []
    for triple, s in g.depth2():
        items.append(s)
    for _ in range(1500 if ctx.quick else 40000):
        items.append(g.random(ctx.rng.choice([2, 3, 3, 4])))
    # BETWEEN sits where the LIBRARY puts it (the property takes that level as given, SQLite has it at the equality
    # level): expressions that contain it are written fully parenthesised, so both readings coincide
    written = [G.write(s, "full" if any(k in ("between", "not between") for k in G.ops_of(s)) else
                       ctx.rng.choice(["minimal", "minimal", "redundant"]), ctx.rng) for s in items]
    answers = ctx.driver.batch([{"op": "expr", "e": e} for e in written]) if ctx.driver else []
    for s, e, ans in zip(items, written, answers):
        if "error" in ans:
            raise C.InfraError("driver: " + ans["error"])
        text = ans["sql"]
        r = R.parse_raw("SELECT " + text)
        if r[0] != "ok":
            rep.count("sqlite", "rejected-by-parse")
            continue
        tree = r[1]["select"]["value"] if isinstance(r[1].get("select"), dict) and "value" in r[1]["select"] else None
        if tree is None:
            continue
        if C.cdump(C.canon(tree)) != C.cdump(C.canon(G.spec(e))):
            rep.count("sqlite", "skipped-structure-already-reported")
            continue
        if '"missing"' in C.cdump(C.canon(tree)) or '"exists"' in C.cdump(C.canon(tree)):
            # the documented folding of a comparison with a bare NULL (sanctioned by C10 / C11) is not SQL's 3-valued `=`
            rep.count("sqlite", "skipped-null-comparison-folding")
            continue
        try:
            got = [v[0] for v in con.execute("select " + text + " from t order by rowid")]
        except sqlite3.Error as ex:
            rep.count("sqlite", "sqlite-error")
            continue
        try:
            mine = [eval_tree(tree, row) for row in rows]
        except NotEvaluable:
            rep.count("sqlite", "not-evaluable")
            continue
        except (OverflowError, ValueError):
            continue
        if any(isinstance(v, float) or (v is not None and abs(v) > 2 ** 62) for v in got):
            rep.count("sqlite", "skipped-overflow")
            continue
        rep.case("sqlite:" + text)
        rep.count("sqlite", "compared")
        if got != mine:
            root = next(iter(tree)) if isinstance(tree, dict) else "atom"
            rep.finding("sqlite-value-differs:" + root,
                        "SQLite evaluates %r to %s on the test table, the tree %s means %s" % (text[:160], got, C.cdump(C.canon(tree))[:200], mine),
                        {"sql": "SELECT " + text, "kind": "sqlite", "text": text})


CASE_ATOMS = ["x1", "x2", "x3", "NULL", "0", "1", "2", "( NULL )", "x1 + 1", "- x2", "x1 > x2", "NOT x3"]


def case_battery(ctx):
    """CASE (searched and simple), CAST / ::, and calls: the texts the property names besides the operators.  The value
    of the returned tree under the documented meaning (a simple CASE compares its subject with `=`: a NULL subject
    or WHEN value never matches) against SQLite's value of the text, row by row"""
    import itertools
    rng = ctx.rng
    texts = []
    for subj, w1, w2 in itertools.product(CASE_ATOMS[:8], CASE_ATOMS[:8], CASE_ATOMS[:5]):
        texts.append("CASE %s WHEN %s THEN 10 WHEN %s THEN 20 ELSE 30 END" % (subj, w1, w2))
    for subj, w1 in itertools.product(CASE_ATOMS, CASE_ATOMS):
        texts.append("CASE %s WHEN %s THEN x2 END" % (subj, w1))
        texts.append("CASE WHEN %s THEN 10 WHEN %s IS NULL THEN 20 ELSE x3 END" % (w1, subj))
        if "NULL" not in subj + w1:      # `x = NULL` written out is the documented folding to missing (C10 / C11), not SQL's `=`
            texts.append("CASE WHEN %s = %s THEN 1 ELSE 0 END + 1" % (subj, w1))
    for a, b in itertools.product(CASE_ATOMS[:7], CASE_ATOMS[:7]):
        texts += ["COALESCE( %s , %s , 7 )" % (a, b), "NULLIF( %s , %s )" % (a, b), "IFNULL( %s , %s ) * 2" % (a, b),
                  "CAST( %s AS int ) + %s" % (a, b), "ABS( %s - %s )" % (a, b), "- ABS( %s ) * %s" % (a, b),
                  "CASE x1 WHEN %s THEN CASE %s WHEN 1 THEN 5 END ELSE 6 END" % (a, b)]
    if ctx.quick:
        texts = rng.sample(texts, 500)
    return texts


def sqlite_battery(ctx):
    import sqlite3
    rep = ctx.rep
    R = C.real()
    con = sqlite3.connect(":memory:")
    con.execute("create table t (x1 integer, x2 integer, x3 integer)")
    con.executemany("insert into t values (?, ?, ?)", ROWS)
    rows = [dict(zip(("x1", "x2", "x3"), r)) for r in ROWS]
    for text in case_battery(ctx):
        r = R.parse_raw("SELECT " + text)
        if r[0] != "ok":
            rep.finding("case-battery:rejected", "parse rejects %r (%s)" % (text, r[1]), {"sql": "SELECT " + text, "kind": "sqlite", "text": text})
            continue
        tree = r[1]["select"]["value"] if isinstance(r[1].get("select"), dict) and "value" in r[1]["select"] else r[1].get("select")
        try:
            got = [v[0] for v in con.execute("select " + text + " from t order by rowid")]
            mine = [eval_tree(tree, row) for row in rows]
        except (sqlite3.Error, NotEvaluable, OverflowError, ValueError, TypeError, KeyError) as ex:
            rep.count("sqlite_battery", "skipped:" + type(ex).__name__)
            continue
        rep.case("sqlite:" + text)
        rep.count("sqlite_battery", "compared")
        if got != mine:
            root = next(iter(tree)) if isinstance(tree, dict) else "atom"
            rep.finding("sqlite-value-differs:battery:" + root,
                        "SQLite evaluates %r to %s on the test table, the tree %s means %s" % (text[:160], got, C.cdump(C.canon(tree))[:200], mine),
                        {"sql": "SELECT " + text, "kind": "sqlite", "text": text})


def run(ctx):
    items = cases(ctx)
    evaluate(ctx, items)
    sqlite_values(ctx)
    sqlite_battery(ctx)


def search(ctx):
    """a tie is broken: look harder for an input on which the real implementation violates the property"""
    g = G.ExprGen(ctx.rng, [o["key"] for o in ctx.gen["ops"]] if ctx.gen else [k for k, _ in ref.BINARY])
    items = []
    for i in range(20000):
        g.n = 0
        items.append(("search", ctx.rng.choice(["minimal", "redundant"]), g.random(ctx.rng.choice([2, 3, 4]))))
    evaluate(ctx, items)


def replay(ctx, payload):
    R = C.real()
    if payload.get("kind") == "sqlite":
        import sqlite3
        con = sqlite3.connect(":memory:")
        con.execute("create table t (x1 integer, x2 integer, x3 integer)")
        con.executemany("insert into t values (?, ?, ?)", ROWS)
        got = [v[0] for v in con.execute("select " + payload["text"] + " from t order by rowid")]
        tree = R.parse_raw(payload["sql"])[1]["select"]["value"]
        mine = [eval_tree(tree, dict(zip(("x1", "x2", "x3"), r))) for r in ROWS]
        print(got)
        print(mine)
        return got != mine
    r = R.parse_raw(payload["sql"], payload.get("dialect", "common"))
    real = {"ok": C.canon(r[1]["select"]["value"])} if r[0] == "ok" else {"$err": r[1]}
    print("sql:", payload["sql"])
    print("observed:", C.cdump(real))
    print("expected:", C.cdump(payload["expected"]))
    return C.cdump(real) != C.cdump(payload["expected"])
