"""C19 — DDL and DML trees keep every column, option, assignment and row in place."""
import json

import common as C

ASSUMPTIONS = [
    "the recogniser is not modelled: the generated statements are parsed by the real parser and compared with the tree the "
    "statement's AST demands (written from the property: every name, type, parameter, option, constraint, assignment and "
    "row value, in source order, options on the column they were written on)",
    "INSERT: the library writes literal-only multi-row VALUES as {values: [...]} and everything else as {columns, query}; "
    "both shapes are read back into the matrix (row, column) -> value and compared with the written matrix",
    "duplicate column names are not generated (invalid SQL)",
]

# (text, expected type tree given params) — params: None | [n] | [n, m]
TYPES = [
    ("int", 0), ("integer", 0), ("bigint", 0), ("smallint", 0), ("tinyint", 0), ("mediumint", 0), ("text", 0), ("date", 0), ("boolean", 0),
    ("bool", 0), ("timestamp", 0), ("time", 0), ("datetime", 0), ("float", 0), ("real", 0), ("double", 0), ("json", 0), ("uuid", 0),
    ("blob", 0), ("string", 0), ("double precision", 0), ("timestamptz", 0),
    ("varchar", 1), ("char", 1), ("nvarchar", 1), ("nchar", 1), ("varbinary", 1), ("decimal", 2), ("numeric", 2), ("number", 2),
    ("int", 1), ("bigint", 1), ("decimal", 1), ("numeric", 1), ("character varying", 1), ("float", 1),
    ("time", 1), ("timestamp", 1), ("datetime", 1), ("timestamptz", 1), ("datetimeoffset", 1),
]


# words the DDL grammar uses that are not reserved: legal, and common, as column names
SOFT_WORDS = ["key", "index", "value", "type", "name", "comment", "data", "text", "date", "time", "level", "position", "size", "format",
              "status", "schema", "temporary", "view", "columns", "enforced", "generated", "identity", "start", "increment", "zone"]


def type_tree(name, params):
    key = name.replace(" ", "_")
    if not params:
        return {key: {}}
    if len(params) == 1:
        return {key: params[0]}
    return {key: list(params)}


class Gen:
    def __init__(self, rng):
        self.rng = rng
        self.n = 0

    def fresh(self, p):
        self.n += 1
        return p + str(self.n)

    def name(self, p, allow_schema=True):
        """-> (written, recorded)"""
        r = self.rng.random()
        n = self.fresh(p)
        if r < 0.6:
            return n, n
        if r < 0.75 and allow_schema:
            s = self.fresh("s")
            return s + "." + n, s + "." + n
        if r < 0.9:
            q = n + " x"
            return '"' + q + '"', q
        return "`" + n + "`", n

    def literal(self):
        """-> (written, tree, plain python value or None if not a plain literal)"""
        r = self.rng.random()
        self.n += 1
        if r < 0.3:
            v = self.rng.choice([0, 1, 7, 1000 + self.n])
            return str(v), v, v
        if r < 0.55:
            s = self.rng.choice(["", "x%d" % self.n, "it's", "a b"])
            return "'" + s.replace("'", "''") + "'", {"literal": s}, s
        if r < 0.7:
            return "%d.5" % self.n, self.n + 0.5, self.n + 0.5
        if r < 0.85:
            return "NULL", {"null": {}}, None
        a, b = self.fresh("c"), 2
        return "%s + %d" % (a, b), {"add": [a, b]}, None

    # ---- CREATE TABLE
    def create_table(self):
        rng = self.rng
        tw, tr = self.name("t")
        cols_w, cols_t = [], []
        names = []
        soft = [w for w in SOFT_WORDS]
        rng.shuffle(soft)
        for _ in range(rng.randint(1, 8)):
            cw, cr = self.name("c", allow_schema=False)
            if soft and rng.random() < 0.2:
                # column names that are also words of the DDL grammar (KEY, INDEX, …) — unquoted, as people write them
                cw = cr = soft.pop()
            names.append(cw)
            ty, np_ = rng.choice(TYPES)
            params = [rng.choice([0, 0, 1, 3, 10, 255]) for _ in range(np_)]      # a size of 0 is falsy in Python
            w = cw + " " + ty + ("(" + ", ".join(map(str, params)) + ")" if params else "")
            t = {"name": cr, "type": type_tree(ty, params)}
            # attributes written inside the type: CHARACTER SET is flattened into the column, COLLATE is a column
            # entry, UNSIGNED stays in the type — each next to whatever options the column has
            if ty in ("varchar", "char", "text", "nvarchar", "nchar") and rng.random() < 0.3:
                cs = rng.choice(["utf8", "latin1", "utf8mb4"])
                w += " CHARACTER SET " + cs
                t["character_set"] = cs
                if rng.random() < 0.4:
                    co = rng.choice(["utf8_bin", "latin1_bin"])
                    w += " COLLATE " + co
                    t["collate"] = co
            elif ty in ("int", "integer", "bigint", "smallint", "tinyint", "mediumint") and rng.random() < 0.25:
                w += " UNSIGNED"
                t["type"] = dict({"unsigned": True}, **t["type"])
            opts = rng.sample(["not null", "null", "default", "primary key", "unique", "check", "references", "comment", "auto_increment"],
                              rng.randint(0, 3))
            if "not null" in opts and "null" in opts:
                opts.remove("null")
            for o in opts:
                if o == "not null":
                    w += " NOT NULL"
                    t["nullable"] = False
                elif o == "null":
                    w += " NULL"
                    t["nullable"] = True
                elif o == "default":
                    lw, lt, _ = self.literal()
                    if "+" in lw:
                        lw, lt = "1", 1
                    w += " DEFAULT " + lw
                    t["default"] = lt
                elif o == "primary key":
                    w += " PRIMARY KEY"
                    t["primary_key"] = True
                elif o == "unique":
                    w += " UNIQUE"
                    t["unique"] = True
                elif o == "check":
                    k = rng.choice([0, 5, 10])
                    w += " CHECK (%s > %d)" % (cw, k)
                    t["check"] = {"gt": [cr, k]}
                elif o == "references":
                    rw, rr = self.name("r")
                    fw, fr = self.name("k", allow_schema=False)
                    w += " REFERENCES %s (%s)" % (rw, fw)
                    t["references"] = {"table": rr, "columns": fr}
                elif o == "comment":
                    s = "note %d" % self.n
                    w += " COMMENT '%s'" % s
                    t["comment"] = {"literal": s}
                elif o == "auto_increment":
                    w += " AUTO_INCREMENT"
                    t["auto_increment"] = True
            cols_w.append(w)
            cols_t.append(t)
        cons_w, cons_t = [], []
        for _ in range(rng.choice([0, 0, 1, 2, 3])):
            k = rng.randint(0, 3)
            picked = rng.sample(range(len(names)), rng.randint(1, min(2, len(names))))
            cw = ", ".join(names[i] for i in picked)
            cr = [cols_t[i]["name"] for i in picked]
            crr = cr[0] if len(cr) == 1 else cr
            if k == 0:
                cons_w.append("PRIMARY KEY (%s)" % cw)
                cons_t.append({"primary_key": {"columns": crr}})
            elif k == 1:
                cons_w.append("UNIQUE (%s)" % cw)
                cons_t.append({"index": {"unique": True, "columns": crr}})
            elif k == 2:
                rw, rr = self.name("r")
                fks = [self.name("k", allow_schema=False) for _ in picked]
                cons_w.append("FOREIGN KEY (%s) REFERENCES %s (%s)" % (cw, rw, ", ".join(f[0] for f in fks)))
                fr = [f[1] for f in fks]
                cons_t.append({"foreign_key": {"columns": crr, "references": {"table": rr, "columns": fr[0] if len(fr) == 1 else fr}}})
            else:
                nm = self.fresh("k")
                i = picked[0]
                cons_w.append("CONSTRAINT %s CHECK (%s > 1)" % (nm, names[i]))
                cons_t.append({"name": nm, "check": {"gt": [cols_t[i]["name"], 1]}})
        sql = "CREATE TABLE %s (%s)" % (tw, ", ".join(cols_w + cons_w))
        tree = {"name": tr, "columns": cols_t if len(cols_t) > 1 else cols_t[0]}
        if cons_t:
            tree["constraint"] = cons_t if len(cons_t) > 1 else cons_t[0]
        return sql, {"create table": tree}, "create_table"

    # ---- INSERT
    def insert(self):
        rng = self.rng
        tw, tr = self.name("t")
        nc = rng.randint(1, 5)
        cols = [self.name("c", allow_schema=False) for _ in range(nc)]
        with_cols = rng.random() < 0.85
        nr = rng.randint(1, 4)
        rows = [[self.literal() for _ in range(nc)] for _ in range(nr)]
        if rng.random() < 0.4:     # rows of plain, truthy literals only (the library's compact shape)
            rows = [[(str(10 * j + i + 1), 10 * j + i + 1, 10 * j + i + 1) for i in range(nc)] for j in range(nr)]
        sql = "INSERT INTO %s %sVALUES %s" % (tw, "(" + ", ".join(c[0] for c in cols) + ") " if with_cols else "",
                                              ", ".join("(" + ", ".join(v[0] for v in r) + ")" for r in rows))
        def cell(v):
            plain = v[2] is not None and not isinstance(v[2], bool)
            return ["lit", bool(v[2])] if plain else ["other"]

        want = {"table": tr, "columns": [c[1] for c in cols] if with_cols else None,
                "matrix": [[(v[1], v[2]) for v in r] for r in rows],
                "model_req": {"op": "insert", "cols": [c[1] for c in cols] if with_cols else None, "rows": [[cell(v) for v in r] for r in rows]}}
        return sql, want, "insert"

    def insert_select(self):
        tw, tr = self.name("t")
        cols = [self.name("c", allow_schema=False) for _ in range(self.rng.randint(1, 4))]
        src = [self.fresh("d") for _ in cols]
        uw, ur = self.name("u")
        sql = "INSERT INTO %s (%s) SELECT %s FROM %s" % (tw, ", ".join(c[0] for c in cols), ", ".join(src), uw)
        sel = [{"value": s} for s in src]
        cl = [c[1] for c in cols]
        tree = {"insert": tr, "columns": cl if len(cl) > 1 else cl[0], "query": {"select": sel if len(sel) > 1 else sel[0], "from": ur}}
        return sql, tree, "insert_select"

    # ---- UPDATE / DELETE / misc
    def update(self):
        rng = self.rng
        tw, tr = self.name("t")
        n = rng.randint(1, 5)
        sets_w, sets_t = [], {}
        for _ in range(n):
            cw, cr = self.name("c", allow_schema=False)
            lw, lt, _ = self.literal()
            sets_w.append("%s = %s" % (cw, lw))
            sets_t[cr] = lt
        sql = "UPDATE %s SET %s" % (tw, ", ".join(sets_w))
        tree = {"update": tr, "set": sets_t}
        if rng.random() < 0.3:
            uw, ur = self.name("u")
            sql += " FROM " + uw
            tree["from"] = ur
        if rng.random() < 0.7:
            a = self.fresh("w")
            sql += " WHERE %s = 1" % a
            tree["where"] = {"eq": [a, 1]}
        return sql, tree, "update"

    def delete(self):
        tw, tr = self.name("t")
        sql = "DELETE FROM " + tw
        tree = {"delete": tr}
        if self.rng.random() < 0.7:
            a = self.fresh("w")
            sql += " WHERE %s <> 'q'" % a
            tree["where"] = {"neq": [a, {"literal": "q"}]}
        return sql, tree, "delete"

    def misc(self):
        rng = self.rng
        k = rng.randint(0, 3)
        if k == 0:
            what = rng.choice(["table", "view", "index"])
            tw, tr = self.name("t")
            ife = rng.random() < 0.5
            t = {what: tr}
            if ife:
                t = {"if_exists": True, what: tr}
            return "DROP %s %s%s" % (what.upper(), "IF EXISTS " if ife else "", tw), {"drop": t}, "drop"
        if k == 1:
            vw, vr = self.name("v")
            a, (uw, ur) = self.fresh("c"), self.name("u")
            return "CREATE VIEW %s AS SELECT %s FROM %s" % (vw, a, uw), {"create view": {"name": vr, "query": {"select": {"value": a}, "from": ur}}}, "create_view"
        iw, ir = self.name("i", allow_schema=False)
        tw, tr = self.name("t")
        cols = [self.name("c", allow_schema=False) for _ in range(rng.randint(1, 3))]
        cl = [c[1] for c in cols]
        return "CREATE INDEX %s ON %s (%s)" % (iw, tw, ", ".join(c[0] for c in cols)), \
            {"create index": {"name": ir, "table": tr, "columns": cl if len(cl) > 1 else cl[0]}}, "create_index"

    def statement(self):
        self.n = 0
        r = self.rng.random()
        if r < 0.35:
            return self.create_table()
        if r < 0.6:
            return self.insert()
        if r < 0.68:
            return self.insert_select()
        if r < 0.83:
            return self.update()
        if r < 0.9:
            return self.delete()
        return self.misc()


def listwrap(x):
    if x is None:
        return []
    return x if isinstance(x, list) else [x]


def read_insert(tree, ncols):
    """the INSERT tree in either shape -> (table, columns or None, matrix of value trees, shape)"""
    if not isinstance(tree, dict) or "insert" not in tree:
        return None
    table = tree["insert"]
    if "values" in tree:
        rows = tree["values"]
        if rows and isinstance(rows[0], dict):
            cols = list(rows[0].keys())
            return table, cols, [[("plain", r.get(c)) for c in cols] for r in rows], "values-dicts", [list(r.keys()) for r in rows]
        return table, None, [[("plain", v) for v in listwrap(r)] for r in rows], "values-lists", None
    cols = listwrap(tree.get("columns")) or None
    q = tree.get("query", {})
    sels = q["union_all"] if isinstance(q, dict) and "union_all" in q else [q]
    m = []
    for s in sels:
        items = listwrap(s.get("select") if isinstance(s, dict) else None)
        m.append([("tree", it.get("value") if isinstance(it, dict) else it) for it in items])
    return table, cols, m, "query", None


def check_insert(got, want):
    """-> None if every (row, column) holds the written value, else a description"""
    r = read_insert(got, len(want["matrix"][0]))
    if r is None:
        return "not an insert tree"
    table, cols, m, shape, rowkeys = r
    if table != want["table"]:
        return "table %r instead of %r" % (table, want["table"])
    if want["columns"] is not None:
        if cols != want["columns"]:
            return "columns %r instead of %r (%s)" % (cols, want["columns"], shape)
        if rowkeys is not None and any(k != want["columns"] for k in rowkeys):
            return "row keys differ from the column list"
    elif cols is not None:
        return "columns %r appeared although none were written" % (cols,)
    if len(m) != len(want["matrix"]):
        return "%d rows instead of %d (%s)" % (len(m), len(want["matrix"]), shape)
    for j, (gr, wr) in enumerate(zip(m, want["matrix"])):
        if len(gr) != len(wr):
            return "row %d has %d values instead of %d (%s)" % (j, len(gr), len(wr), shape)
        for i, ((kind, gv), (wt, wp)) in enumerate(zip(gr, wr)):
            exp = wp if kind == "plain" else wt
            if C.cdump(C.canon(gv)) != C.cdump(C.canon(exp)):
                return "row %d column %d holds %r instead of %r (%s)" % (j, i, gv, exp, shape)
    return None


def same_unordered_keys(got, want):
    """equality of trees where dict key order is irrelevant but list order is significant"""
    return C.cdump(C.canon(got)) == C.cdump(C.canon(want))


def run(ctx, scale=1):
    rep = ctx.rep
    rng = ctx.rng
    g = Gen(rng)
    n = (6000 if ctx.quick else 120000) * scale
    cases = [g.statement() for _ in range(n)]
    outs = C.parse_many([(sql, "common", {}) for sql, _, _ in cases])
    # ---- Tie B: which of the two shapes, model (Dml.toInsert) vs the real to_values / to_insert_call
    if ctx.driver:
        ins = [(sql, want, o) for (sql, want, kind), o in zip(cases, outs) if kind == "insert"]
        ans = ctx.driver.batch([w["model_req"] for _, w, _ in ins])
        bad = 0
        for (sql, w, o), a in zip(ins, ans):
            if "error" in a:
                raise C.InfraError("driver: " + a["error"])
            got = json.loads(o)
            if "ok" not in got:
                continue
            t = C.uncanon(got["ok"])
            real_shape = "query"
            if isinstance(t, dict) and "values" in t:
                real_shape = "valuesDicts" if (t["values"] and isinstance(t["values"][0], dict)) else "valuesLists"
            rep.count("tie", "insert-shape:" + real_shape)
            if real_shape != a["shape"]:
                bad += 1
                if bad <= 5:
                    rep.tie_break("correspondence", "Dml.toInsert vs to_values/to_insert_call", {"sql": sql, "real": real_shape, "model": a["shape"]})
        rep.count("correspondence_mismatches", None, bad)
    # ---- Tie B: Dml.flatColumn vs the real to_flat_column_type, called directly on column descriptions (option values
    #      of every truthiness, the type with and without CHARACTER SET and other attributes, key order as written)
    if ctx.driver:
        C.real()        # puts the working tree on sys.path
        from mo_sql_parsing.utils import Call as _Call, to_flat_column_type as _flat
        VALUES = [False, True, 0, 1, "", "x", None, {"literal": "d"}, [], [1, 2], {}]
        OPTS = ["nullable", "enforced", "default", "primary_key", "unique", "comment", "auto_increment", "collate", "character_set", "check"]
        descs, reqs = [], []
        for _ in range((400 if ctx.quick else 8000) * scale):
            keys = [("name", "c%d" % rng.randint(1, 99))]
            for o in rng.sample(OPTS, rng.randint(0, 4)):
                keys.append((o, rng.choice(VALUES)))
            rng.shuffle(keys)
            kw = []
            for o in rng.sample(["character_set", "unsigned", "zerofill", "precision", "collate"], rng.randint(0, 3)):
                kw.append((o, rng.choice(["utf8", "latin1", True, False, 0, 5, ""])))
            ty = rng.choice(["varchar", "char", "int", "text", "decimal"])
            descs.append((keys, ty, kw))
            reqs.append({"op": "flatcol", "keys": [[k, v] for k, v in keys], "type": ty, "kw": [[k, v] for k, v in kw]})
        bad = 0
        for (keys, ty, kw), a in zip(descs, ctx.driver.batch(reqs)):
            if "error" in a:
                raise C.InfraError("driver: " + a["error"])
            call = _Call(ty, [10], dict(kw))
            tokens = dict(keys)
            tokens["type"] = call
            # the position of "type" among the keys is irrelevant to the model: put it last
            r = _flat(tokens)
            real_keys = [[k, v] for k, v in r.items() if k != "type"]
            real_kw = [[k, v] for k, v in call.kwargs.items()]
            rep.count("tie", "flat-column:" + ("charset" if any(k == "character_set" for k, _ in kw) else "plain"))
            rep.case("flatcol:" + json.dumps([keys, ty, kw], sort_keys=True, default=str))
            if json.dumps(real_keys) != json.dumps(a["keys"]) or json.dumps(real_kw) != json.dumps(a["kw"]) or r["type"] is not call:
                bad += 1
                if bad <= 5:
                    rep.tie_break("correspondence", "Dml.flatColumn vs to_flat_column_type",
                                  {"keys": keys, "type": ty, "kw": kw, "real": {"keys": real_keys, "kw": real_kw}, "model": a})
        rep.count("flat_column_mismatches", None, bad)
    for (sql, want, kind), o in zip(cases, outs):
        rep.case(sql)
        rep.count("statement", kind)
        got = json.loads(o)
        if "ok" not in got:
            rep.count("outcome", "rejected")
            rep.finding("rejected:" + kind, "%r -> %s" % (sql[:200], o[:80]), {"sql": sql, "kind": kind, "want": want})
            continue
        tree = C.uncanon(got["ok"])
        if kind == "insert":
            why = check_insert(tree, want)
            if isinstance(tree, dict):
                rep.count("insert_shape", "values" if "values" in tree else "query")
        else:
            why = None if same_unordered_keys(tree, want) else "tree differs"
            if kind == "create_table" and why is None:
                # column and constraint order is source order (lists compare ordered above); option keys per column checked by equality
                pass
        rep.count("outcome", "ok" if why is None else "differs")
        if len(rep.coverage["samples"]) < 4 and why is None:
            rep.sample({"sql": sql, "tree": got["ok"]})
        if why:
            rep.finding("differs:" + kind, "%r: %s; got %s" % (sql[:200], why, json.dumps(tree)[:240]), {"sql": sql, "kind": kind, "want": want})


def search(ctx):
    run(ctx, scale=3)


def replay(ctx, p):
    R = C.real()
    r = R.parse_raw(p["sql"])
    print(r[:2])
    if r[0] != "ok":
        return True
    if p["kind"] == "insert":
        w = p["want"]
        w["matrix"] = [[tuple(v) for v in row] for row in w["matrix"]]
        why = check_insert(r[1], w)
        print(why)
        return why is not None
    return not same_unordered_keys(r[1], p["want"])
