"""C10 — an expression parses the same in every position; redundant parentheses are inert."""
import json

import common as C
import gen_expr as G
from props import c01

ASSUMPTIONS = [
    "excluded by the property: the three documented literal foldings ('-<number>', comparison with bare NULL, all-literal tuples)",
]

# (name, template, path to the expression's subtree)
POSITIONS = [
    ("select", "SELECT {e} FROM t9", ["select", "value"]),
    ("where", "SELECT a9 FROM t9 WHERE {e}", ["where"]),
    ("having", "SELECT a9 FROM t9 GROUP BY a9 HAVING {e}", ["having"]),
    ("on", "SELECT a9 FROM t9 JOIN u9 ON {e}", ["from", 1, "on"]),
    ("groupby", "SELECT a9 FROM t9 GROUP BY {e}", ["groupby", "value"]),
    ("orderby", "SELECT a9 FROM t9 ORDER BY {e}", ["orderby", "value"]),
    ("argument", "SELECT f9 ( {e} , z9 ) FROM t9", ["select", "value", "f9", 0]),
    ("case_then", "SELECT CASE WHEN w9 THEN {e} ELSE z9 END FROM t9", ["select", "value", "case", 0, "then"]),
    ("case_when", "SELECT CASE WHEN {e} THEN y9 ELSE z9 END FROM t9", ["select", "value", "case", 0, "when"]),
    ("case_else", "SELECT CASE WHEN w9 THEN y9 ELSE {e} END FROM t9", ["select", "value", "case", 1]),
    ("switch_else", "SELECT CASE w9 WHEN 1 THEN y9 ELSE {e} END FROM t9", ["select", "value", "case", 1]),
    ("switch_subject", "SELECT CASE {e} WHEN 1 THEN y9 ELSE z9 END FROM t9", ["select", "value", "case", 0, "when", "eq", 0]),
    ("switch_when", "SELECT CASE w9 WHEN {e} THEN y9 ELSE z9 END FROM t9", ["select", "value", "case", 0, "when", "eq", 1]),
    ("between_operand", "SELECT x9 BETWEEN ( {e} ) AND y9 FROM t9", ["select", "value", "between", 1]),
    ("in_operand", "SELECT x9 IN ( {e} , y9 ) FROM t9", ["select", "value", "in", 1, 0]),
    ("cast_operand", "SELECT CAST( {e} AS int ) FROM t9", ["select", "value", "cast", 0]),
    ("subquery", "SELECT a9 FROM ( SELECT {e} AS z9 FROM t9 ) AS s9", ["from", "value", "select", "value"]),
    ("cte", "WITH w9 AS ( SELECT {e} AS z9 FROM t9 ) SELECT a9 FROM w9", ["with", "value", "select", "value"]),
    ("update_set", "UPDATE t9 SET a9 = {e}", ["set", "a9"]),
    ("update_where", "UPDATE t9 SET a9 = 1 WHERE {e}", ["where"]),
    ("delete_where", "DELETE FROM t9 WHERE {e}", ["where"]),
    ("insert_select", "INSERT INTO t9 ( a9 ) SELECT {e} FROM u9", ["query", "select", "value"]),
]


import re as _re
VALUE_CALL = _re.compile(r"^\s*((?:\(\s*)*)value\s*\(", _re.I)
INTERNAL_WORDS = ["value", "literal", "name", "op", "args", "kwargs", "over", "within", "filter", "missing", "exists", "neg", "add",
                  "coalesce", "count", "sum", "list", "dict", "call", "tuple", "type", "columns", "query", "range", "min", "max"]


def get(tree, path):
    for p in path:
        tree = tree[p]
    return tree


def paren_variants(e, rng, texts, limit=4):
    """written forms with extra parentheses that do not change grouping: around the whole expression
    (once and twice) and around operands whose parent binds no tighter (every operand of a written E
    is either an atom, already parenthesised, or binds tighter by construction)"""
    out = [["paren", e], ["paren", ["paren", e]]]

    def sites(x, path):
        t = x[0]
        res = []
        kids = {"pre": [2], "cast": [1], "bin": [2, 3], "tern": [2, 3, 4], "paren": [1]}.get(t, [])
        for i in kids:
            res.append(path + [i])
            res += sites(x[i], path + [i])
        if t == "call":
            for j, a in enumerate(x[2]):
                res.append(path + [2, j])
                res += sites(a, path + [2, j])
        return res

    def wrap(x, path):
        if not path:
            return ["paren", x]
        y = list(x)
        if path[0] == 2 and x[0] == "call":
            args = list(x[2])
            args[path[1]] = wrap(args[path[1]], path[2:])
            y[2] = args
            return y
        y[path[0]] = wrap(x[path[0]], path[1:])
        return y

    ss = sites(e, [])
    rng.shuffle(ss)
    for p in ss[:limit]:
        once = wrap(e, p)
        out.append(once)
        out.append(wrap(once, p))          # two layers around the same operand
        if rng.random() < 0.3:
            out.append(wrap(wrap(once, p), p))
    return out


def fold_sensitive_site(e, parent=None, slot=None):
    """does wrapping this node in parentheses touch a documented folding?"""
    return False


def has_fold(e):
    """expression contains a construct whose tree the documented foldings make parenthesis-sensitive:
    a sign directly before a number, or a comparison with a bare NULL"""
    t = e[0]
    if t == "pre" and e[1] in ("u-", "u+") and e[2][0] == "atom" and isinstance(e[2][2], dict) and ("$i" in e[2][2] or "$f" in e[2][2]):
        return True
    if t == "bin" and e[1] in ("=", "==", "!=", "<>", "is", "is not", "<=>", "is distinct from", "is not distinct from"):
        for x in (e[2], e[3]):
            if x[0] == "atom" and isinstance(x[2], dict) and "$null" in x[2]:
                return True
    for x in e[1:]:
        if isinstance(x, list) and x and isinstance(x[0], str) and x[0] in ("atom", "paren", "call", "pre", "cast", "bin", "tern"):
            if has_fold(x):
                return True
        elif isinstance(x, list):
            for y in x:
                if isinstance(y, list) and y and isinstance(y[0], str) and has_fold(y):
                    return True
    return False


def run(ctx, scale=1):
    rep = ctx.rep
    R = C.real()
    rng = ctx.rng
    g = G.ExprGen(rng, [o["key"] for o in ctx.gen["ops"]])
    texts = G.op_text(ctx.gen["ops"])
    glv = c01.gen_level(ctx.gen)
    n = (400 if ctx.quick else 6000) * scale
    all_texts = []
    for i in range(n):
        g.n = 0
        s = g.random(rng.choice([1, 2, 2, 3]))
        e = G.write(s, rng.choice(["minimal", "redundant"]), rng)
        all_texts.append((G.render(e, texts), e))
    # user functions whose names are words the library itself uses as keys of its trees / as internal markers
    for fname in INTERNAL_WORDS:
        all_texts += [(t, None) for t in ("%s(a1, 0)" % fname, "%s(a1)" % fname, "( %s(a1, 0) )" % fname, "%s(a1) + 1" % fname, "f9(%s(a1), 2)" % fname, "%s()" % fname)]
    # CASE / CAST / sub-scripts as the expression itself (they are operands too)
    all_texts += [(t, None) for t in ("CASE WHEN a1 THEN b2 ELSE c3 END", "CASE a1 WHEN 1 THEN b2 WHEN 2 THEN c3 END", "CASE WHEN a1 THEN b2 END",
                                      "CASE WHEN a1 THEN CASE WHEN b2 THEN c3 ELSE d4 END ELSE e5 END", "CAST( a1 AS int )", "a1 :: int",
                                      "a1 BETWEEN b2 AND c3", "a1 IN ( b2 , c3 )", "a1 IS NOT NULL", "EXISTS ( SELECT b2 FROM u3 )", "( a1 , b2 )")]
    for text, e in all_texts:
        ref = R.parse_raw(POSITIONS[0][1].format(e=text))
        if ref[0] != "ok":
            rep.count("reference", "rejected")
            continue
        try:
            ref_tree = C.cdump(C.canon(get(ref[1], POSITIONS[0][2])))
        except Exception:
            rep.count("reference", "no-path")
            continue
        rep.count("reference", "ok")
        rep.sample({"expression": text, "tree": json.loads(ref_tree)})
        # ---- every position
        for name, tpl, path in POSITIONS[1:]:
            r = R.parse_raw(tpl.format(e=text))
            rep.case("%s|%s" % (name, text))
            rep.count("position", name)
            if r[0] != "ok":
                got = "$err:" + r[1]
            else:
                try:
                    got = C.cdump(C.canon(get(r[1], path)))
                except Exception:
                    got = "$nopath:" + C.cdump(C.canon(r[1]))[:120]
            if got != ref_tree:
                key = "position:%s" % name
                sub = None
                mv = VALUE_CALL.match(text)
                if mv:
                    # a user function named `value` as the whole select item collides with the library's internal marker
                    # for window calls (`Call("value", …)`): one rule, sub-cases by the way the item is written
                    key = "select-item:function-named-value"
                    sub = ("paren" if mv.group(1) else "bare") + "|" + name
                rep.count("finding", key)
                rep.finding(key, "%r: as select item %s, in %s %s" % (text[:120], ref_tree[:160], name, got[:160]),
                            {"kind": "position", "expr": text, "position": name}, sub=sub)
        # ---- parentheses that do not change grouping
        if e is None:
            for vt in ("( %s )" % text, "( ( %s ) )" % text):
                r = R.parse_raw(POSITIONS[0][1].format(e=vt))
                rep.case("paren|%s" % vt)
                try:
                    got = "$err:" + r[1] if r[0] != "ok" else C.cdump(C.canon(get(r[1], POSITIONS[0][2])))
                except (KeyError, IndexError, TypeError):
                    got = "$no-such-path:" + C.cdump(C.canon(r[1]))
                if got != ref_tree:
                    if VALUE_CALL.match(vt) or VALUE_CALL.match(text):
                        rep.finding("select-item:function-named-value", "%r -> %s but %r -> %s" % (text[:120], ref_tree[:160], vt[:140], got[:160]),
                                    {"kind": "parens", "expr": text, "variant": vt}, sub="parens|" + ("paren" if VALUE_CALL.match(text).group(1) else "bare"))
                    else:
                        rep.finding("parens-change-tree", "%r -> %s but %r -> %s" % (text[:120], ref_tree[:160], vt[:140], got[:160]),
                                    {"kind": "parens", "expr": text, "variant": vt})
            continue
        if has_fold(e):
            rep.count("parens", "skipped-fold-sensitive")
            continue
        if c01.deviations(e, glv):
            # written under the reference precedence, but the library's level table groups this text
            # differently (C01 known findings): parentheses here DO change the library's grouping
            rep.count("parens", "skipped-level-deviation")
            continue
        for v in paren_variants(e, rng, texts):
            vt = G.render(v, texts)
            r = R.parse_raw(POSITIONS[0][1].format(e=vt))
            rep.case("paren|%s" % vt)
            rep.count("parens", "variant")
            got = "$err:" + r[1] if r[0] != "ok" else C.cdump(C.canon(get(r[1], POSITIONS[0][2])))
            if got != ref_tree:
                key = "parens-change-tree"
                rep.count("finding", key)
                rep.finding(key, "%r -> %s but %r -> %s" % (text[:120], ref_tree[:160], vt[:140], got[:160]),
                            {"kind": "parens", "expr": text, "variant": vt})


    # ---- chains of the operators that are flattened into one n-ary node: any number of parenthesis layers around a
    #      sub-chain reads like one layer (the layers are removed while the chain is folded)
    for op in ["+", "*", "AND", "OR", "||", "&", "|"]:
        for base, layered in (("a1 {o} ( b2 {o} c3 )", "a1 {o} {L} b2 {o} c3 {R}"), ("( a1 {o} b2 ) {o} c3", "{L} a1 {o} b2 {R} {o} c3"),
                              ("a1 {o} ( b2 {o} c3 ) {o} d4", "a1 {o} {L} b2 {o} c3 {R} {o} d4"), ("f9 ( a1 {o} ( b2 {o} c3 ) , 1 )", "f9 ( a1 {o} {L} b2 {o} c3 {R} , 1 )")):
            bt = base.format(o=op)
            ref = R.parse_raw(POSITIONS[0][1].format(e=bt))
            if ref[0] != "ok":
                continue
            ref_tree = C.cdump(C.canon(get(ref[1], POSITIONS[0][2])))
            for layers in (2, 3, 5):
                vt = layered.format(o=op, L="( " * layers, R=") " * layers).strip()
                for name, tpl, path in POSITIONS[:2]:
                    r = R.parse_raw(tpl.format(e=vt))
                    rb = R.parse_raw(tpl.format(e=bt))
                    rep.case("layers|%s|%s" % (name, vt))
                    rep.count("parens", "chain-layers")
                    try:
                        got = "$err:" + r[1] if r[0] != "ok" else C.cdump(C.canon(get(r[1], path)))
                        want = "$err:" + rb[1] if rb[0] != "ok" else C.cdump(C.canon(get(rb[1], path)))
                    except Exception:
                        continue
                    if got != want:
                        rep.finding("parens-change-tree", "%r -> %s but %r -> %s" % (bt, want[:160], vt[:140], got[:160]),
                                    {"kind": "parens", "expr": bt, "variant": vt})

    # ---- sub-queries are expressions too: a second / third pair of parentheses around one must be inert,
    # and it must read the same in every position
    SUBQ = ["select a1 from u2", "select a1 from u2 order by a1 limit 1", "select a1 from u2 where b3 = 4 order by a1 desc limit 5 offset 2",
            "select a1 from u2 union select c3 from v4 order by 1 limit 3", "select max(a1) from u2 group by b3 having count(*) > 1 order by 1",
            "select a1 from u2 order by a1 fetch first 2 rows only", "with w6 as (select 7 as k8) select k8 from w6",
            "with w6 as (select 7 as k8), x9 as (select k8 from w6) select k8 from x9 order by 1 limit 2"]
    FORMS = ["{q}", "c5 + {q}", "c5 = {q}", "c5 in {q}", "exists {q}", "coalesce({q}, 0)", "case when c5 then {q} else 1 end"]
    for q in SUBQ:
        for form in FORMS:
            base_text = form.format(q="(" + q + ")")
            ref = R.parse_raw(POSITIONS[0][1].format(e=base_text))
            if ref[0] != "ok":
                rep.count("subquery", "rejected")
                continue
            ref_tree = C.cdump(C.canon(get(ref[1], POSITIONS[0][2])))
            for layers in (2, 3):
                vt = form.format(q="(" * layers + q + ")" * layers)
                for name, tpl, path in POSITIONS:
                    if name in ("between_operand", "in_operand", "cast_operand") and form != "{q}":
                        continue
                    rb = R.parse_raw(tpl.format(e=base_text))
                    rv = R.parse_raw(tpl.format(e=vt))
                    rep.case("subq|%s|%s|%d" % (name, base_text, layers))
                    rep.count("subquery", "compared")
                    try:
                        gb = "$err:" + rb[1] if rb[0] != "ok" else C.cdump(C.canon(get(rb[1], path)))
                        gv = "$err:" + rv[1] if rv[0] != "ok" else C.cdump(C.canon(get(rv[1], path)))
                    except Exception:
                        continue
                    if gb.startswith("$err"):
                        continue
                    if gv != gb:
                        rep.finding("parens-change-tree:subquery", "%r -> %s but with %d layers %r -> %s" % (base_text[:100], gb[:150], layers, vt[:110], gv[:150]),
                                    {"kind": "pair", "position": name, "a": tpl.format(e=base_text), "b": tpl.format(e=vt), "path": path})
                    if gb != ref_tree and layers == 2:
                        rep.finding("position:%s" % name, "%r: as select item %s, in %s %s" % (base_text[:100], ref_tree[:150], name, gb[:150]),
                                    {"kind": "position", "expr": base_text, "position": name})
    # a whole statement in parentheses
    for q in SUBQ:
        a, b, c = R.parse(q), R.parse("(" + q + ")"), R.parse("((" + q + "))")
        rep.count("subquery", "statement")
        if C.cdump(b) != C.cdump(c):
            rep.finding("parens-change-tree:statement", "(%s) -> %s but ((%s)) -> %s" % (q[:80], C.cdump(b)[:150], q[:80], C.cdump(c)[:150]),
                        {"kind": "pair", "position": "statement", "a": "(" + q + ")", "b": "((" + q + "))", "path": []})
        if C.cdump(a) != C.cdump(b):
            rep.finding("parens-change-tree:statement", "%s -> %s but (%s) -> %s" % (q[:80], C.cdump(a)[:150], q[:80], C.cdump(b)[:150]),
                        {"kind": "pair", "position": "statement", "a": q, "b": "(" + q + ")", "path": []})


def search(ctx):
    run(ctx, scale=4)


def replay(ctx, p):
    R = C.real()
    if p.get("kind") == "pair":
        ra, rb = R.parse_raw(p["a"]), R.parse_raw(p["b"])
        ga = "$err" if ra[0] != "ok" else C.cdump(C.canon(get(ra[1], p["path"])))
        gb = "$err" if rb[0] != "ok" else C.cdump(C.canon(get(rb[1], p["path"])))
        print(ga)
        print(gb)
        return ga != gb
    ref = R.parse_raw(POSITIONS[0][1].format(e=p["expr"]))
    ref_tree = C.cdump(C.canon(get(ref[1], POSITIONS[0][2])))
    if p["kind"] == "position":
        name, tpl, path = [x for x in POSITIONS if x[0] == p["position"]][0]
        r = R.parse_raw(tpl.format(e=p["expr"]))
        got = "$err:" + r[1] if r[0] != "ok" else C.cdump(C.canon(get(r[1], path)))
    else:
        r = R.parse_raw(POSITIONS[0][1].format(e=p["variant"]))
        got = "$err:" + r[1] if r[0] != "ok" else C.cdump(C.canon(get(r[1], POSITIONS[0][2])))
    print(ref_tree)
    print(got)
    return got != ref_tree
