"""C18 — dialect entry points differ only in the documented quoting rules."""
import re

import common as C
import corpus
import gen_tokens as GT

ASSUMPTIONS = [
    "dialect-neutral = no double quote, square bracket, backtick, @, and no '-' directly after a name character",
    "the recogniser is not modelled; the four graphs are compared structurally (Tie A) and behaviourally (oracle)",
    "quoted contents avoid backslash and '.', whose decoding is C06/C07's subject (dotted quoted names are escaped)",
]

DIALECTS = ["common", "mysql", "sqlserver", "bigquery"]
SENSITIVE = re.compile(r'["\[\]`@]|[A-Za-z0-9_$À-ƿ]-')
CONTENT_ALPHABET = list("abXY09_ $#-+*/',;:()<>=!%&|~^?") + ["é", "ƿ", "select", "from", "--", "/*", "''", "  "]


def neutral(sql):
    return not SENSITIVE.search(sql)


def contents(rng, n):
    out = ["a", "a b", "select", "x-y", "1", "a'b", "FROM", " a", "a ", "%", "a--b", "a/*b*/c", "ünï"]
    for _ in range(n):
        k = rng.randint(1, 8)
        out.append("".join(rng.choice(CONTENT_ALPHABET) for _ in range(k)))
    return out


NAME_PLACES = [
    "select {q} from t9", "select t9.{q} from t9", "select {q}.c9 from t9", "select s9.{q}.c9 from t9", "select f9(x9).{q} from t9",
    "select (a9).{q} from t9", "select a9[0].{q} from t9", "select a9:b9.{q} from t9", "select a9 from t9 where {q} = 1",
    "select a9 from t9 group by {q}", "select a9 from t9 order by {q} desc", "select f9({q}, 1) from t9",
    "select a9 from t9 join u9 on t9.{q} = u9.{q}", "select a9 from t9 join u9 using ({q})", "insert into t9 ({q}) values (1)",
    "insert into {q} (a9) values (1)", "update t9 set {q} = 1", "update {q} set a9 = 1", "delete from {q} where a9 = 1",
    "create table {q} (a9 int)", "create table t9 ({q} int)", "select a9 from s9.{q}", "select a9 from {q} as x9",
    "select a9 from t9 as {q}", "select a9 as {q} from t9", "with {q} as (select 1) select * from {q}",
    "select sum(a9) over (partition by {q} order by {q}) from t9", "select a9 from t9 where b9 in (select {q} from u9)",
    "select case when {q} > 1 then {q} else 0 end from t9", "select cast({q} as int) from t9", "drop table {q}",
    "create index i9 on t9 ({q})", "create view {q} as select 1",
]


def run(ctx, scale=1):
    rep = ctx.rep
    rng = ctx.rng
    g = GT.Gen(rng)
    jobs, metas = [], []
    # ---- neutral statements: generated + corpus
    stmts = []
    for _ in range((150 if ctx.quick else 2500) * scale):
        kind, toks = g.statement()
        stmts.append((GT.text(toks), "gen:" + kind))
    cps = [x["sql"] for x in corpus.load()]
    if ctx.quick:
        cps = rng.sample(cps, min(len(cps), 250 * scale))
    for s in cps:
        stmts.append((s, "corpus"))
    # near-misses of the sensitive spellings that are still neutral
    stmts += [(s, "extra") for s in ["select a - b from t", "select a -b from t", "select a- b from t", "select 1-2", "select a from t -- x-y\n",
                                     "select 'a-b', 'x\"y', '[z]', '`q`', '@v' from t", "select a /* [x] \"y\" `z` */ from t", "select 3-a from t",
                                     "select a$b, _c from t", "select a from t where b = 'it''s' and c<>-1",
                                     # bare names over the whole identifier alphabet (its edges: À Ö Ø ö ø ÿ Ā ƿ; ǀ is outside)
                                     "select aĀ, Āb, ƿ, xƿy from tÿ", "select À1, ÖØ, öø from ÿĀ join Ɛ on Ɛ.ƿ = ÿĀ.À1",
                                     "select a from t where ǀ = 1", "select aǀ from t", "select ñandú, straße, Ǝ from Ɵ where ƛ > 1",
                                     # the three comment styles glued to words (a comment is not a dialect-sensitive spelling)
                                     "select a from t #trailing", "select a, #first column\n b from t", "select a from t ##### section\nwhere a = 1",
                                     "select * from t where a = 1 #x\n and b = 2", "select a from t #\nwhere a = 1", "select a from t#c\n",
                                     "select a/*c*/from t", "select a from t --trailing", "select a, --first\n b from t"]]
    # the whole operator table side by side: a dialect whose operator order / flattening differs shows here
    import precprobe
    stmts += [(s, "operators") for s in precprobe.statements()]
    for sql, origin in stmts:
        # quoted lexemes and comments may contain anything; judge neutrality on the rest
        bare = re.sub(r"'(?:''|[^'])*'|--[^\n]*|#[^\n]*|/\*.*?\*/", " ", sql, flags=re.S)
        if not neutral(bare) or "\\" in sql:
            rep.count("neutral", "skipped-sensitive")
            continue
        for ac in (None, "*"):
            for d in DIALECTS:
                jobs.append((sql, d, {"all_columns": ac} if ac else {}))
                metas.append(("neutral", sql, ac, d, origin))
    # ---- documented differences, every content
    cs = contents(rng, (60 if ctx.quick else 1500) * scale)
    for c in cs:
        if "\\" in c or "." in c or "\n" in c or c == "*":
            continue        # decoding of these contents is C06/C07's subject (a quoted * is read as the star: C07 finding)
        forms = {
            "dq": '"' + c.replace('"', '""') + '"',
            "bt": "`" + c.replace("`", "``") + "`",
            "sq": "[" + c.replace("]", "]]") + "]",
        }
        for style, q in forms.items():
            for pos, tpl in (("column", "select {q} from t9"), ("table", "select a9 from {q}"), ("alias", "select a9 as {q} from t9"),
                             ("gencol", "create table t9 (a9 varchar(9), b9 varchar(9) as (concat(a9, {q})))")):
                if style == "dq" and pos not in ("column", "gencol"):
                    continue
                if pos == "gencol" and style == "sq":
                    continue
                for d in DIALECTS:
                    jobs.append((tpl.format(q=q), d, {}))
                    metas.append(("quoted", c, style, pos, d))
    # ---- the quoting rules hold at EVERY place a name can stand, not only where the statement starts: a plain name in
    #      quotes reads exactly like the bare name (backticks everywhere; double quotes for parse / parse_sqlserver;
    #      square brackets for parse_sqlserver)
    for tpl in NAME_PLACES:
        for nm in ("fld9", "Fld_9x"):
            for d in DIALECTS:
                jobs.append((tpl.format(q=nm), d, {}))
                metas.append(("place-base", tpl, nm, d))
                for style, q in (("bt", "`%s`" % nm), ("dq", '"%s"' % nm), ("sq", "[%s]" % nm)):
                    if (style == "dq" and d not in ("common", "sqlserver")) or (style == "sq" and d != "sqlserver"):
                        continue
                    jobs.append((tpl.format(q=q), d, {}))
                    metas.append(("place", tpl, nm, d, style))
    outs = C.parse_many(jobs)
    place_base = {(mt[1], mt[2], mt[3]): o for mt, o in zip(metas, outs) if mt[0] == "place-base"}
    for job, mt, o in zip(jobs, metas, outs):
        if mt[0] != "place":
            continue
        _, tpl, nm, d, style = mt
        rep.case(job[0] + "|" + d)
        rep.count("place", style)
        base = place_base[(tpl, nm, d)]
        if (o if o.startswith('{"ok"') else "reject") != (base if base.startswith('{"ok"') else "reject"):
            rep.finding("quoted-place:%s:%s:%s" % (style, d, NAME_PLACES.index(tpl)),
                        "%s: %r -> %s but the bare name gives %s" % (d, job[0], o[:140], base[:140]),
                        {"kind": "place", "sql": job[0], "bare": tpl.format(q=nm), "dialect": d})
    # neutral: all four agree
    groups = {}
    for (job, mt, o) in zip(jobs, metas, outs):
        if mt[0] == "neutral":
            groups.setdefault((mt[1], mt[2]), {})[mt[3]] = (o, mt[4])
    for (sql, ac), res in groups.items():
        rep.case(sql + "|" + str(ac))
        rep.count("neutral", "compared")
        norm = {d: (o if o.startswith('{"ok"') else "reject") for d, (o, _) in res.items()}
        origin = next(iter(res.values()))[1]
        if len(set(norm.values())) > 1:
            odd = [d for d in DIALECTS if norm[d] != norm["common"]]
            rep.count("finding", "neutral-differs")
            rep.finding("neutral-differs:" + "+".join(odd),
                        "%r (all_columns=%r): common -> %s, %s -> %s" % (sql[:140], ac, norm["common"][:120], odd[0], norm[odd[0]][:120]),
                        {"kind": "neutral", "sql": sql, "all_columns": ac})
        else:
            rep.count("neutral_outcome", "tree" if norm["common"] != "reject" else "all-reject")
        if origin.startswith("gen") and len(rep.coverage["samples"]) < 3:
            rep.sample({"neutral": sql, "agree": norm["common"][:100]})
    # quoted: documented behaviour
    for (job, mt, o) in zip(jobs, metas, outs):
        if mt[0] != "quoted":
            continue
        _, c, style, pos, d = mt
        rep.case(job[0] + "|" + d)
        rep.count("quoted", style + ":" + pos)
        def gencol(v):
            return {"create table": {"name": "t9", "columns": [{"name": "a9", "type": {"varchar": 9}}, {"name": "b9", "type": {"varchar": 9}, "value": {"concat": ["a9", v]}}]}}

        ident = {"column": {"from": "t9", "select": {"value": c}}, "table": {"from": c, "select": {"value": "a9"}},
                 "alias": {"from": "t9", "select": {"name": c, "value": "a9"}}, "gencol": gencol(c)}[pos]
        lit = gencol({"literal": c}) if pos == "gencol" else {"from": "t9", "select": {"value": {"literal": c}}}
        if style == "bt":
            want = [C.cdump({"ok": C.canon(ident)})]
        elif style == "dq":
            want = [C.cdump({"ok": C.canon(ident if d in ("common", "sqlserver") else lit)})]
        else:
            if d == "sqlserver":
                want = [C.cdump({"ok": C.canon(ident)})]
            elif d in ("common", "bigquery"):
                want = None          # array constructor / index, or rejected: anything but the identifier reading
            else:
                continue             # parse_mysql: not documented
        if want is None:
            if o == C.cdump({"ok": C.canon(ident)}) and not re.fullmatch(r"[A-Za-z_][A-Za-z0-9_]*", c):
                rep.finding("bracket-is-identifier:" + d, "%s reads %r as the identifier %r" % (d, job[0], c), {"kind": "quoted", "sql": job[0], "dialect": d, "content": c, "style": style, "pos": pos})
            continue
        if o not in want:
            rep.finding("quoted:%s:%s:%s" % (style, d, pos), "%s: %r -> %s, documented: %s" % (d, job[0], o[:140], want[0][:140]),
                        {"kind": "quoted", "sql": job[0], "dialect": d, "content": c, "style": style, "pos": pos})


def search(ctx):
    run(ctx, scale=3)


def replay(ctx, p):
    R = C.real()
    if p["kind"] == "place":
        R = C.real()
        a = R.parse_raw(p["sql"], p["dialect"])
        b = R.parse_raw(p["bare"], p["dialect"])
        print(p["sql"], "->", a[:2])
        print(p["bare"], "->", b[:2])
        return C.cdump(C.canon(a[1]) if a[0] == "ok" else a[1]) != C.cdump(C.canon(b[1]) if b[0] == "ok" else b[1])
    if p["kind"] == "neutral":
        kw = {"all_columns": p["all_columns"]} if p.get("all_columns") else {}
        outs = {d: C.cdump(R.parse(p["sql"], d, **kw)) for d in DIALECTS}
        norm = {d: (o if o.startswith('{"ok"') else "reject") for d, o in outs.items()}
        for d in DIALECTS:
            print(d, norm[d][:200])
        return len(set(norm.values())) > 1
    o = C.cdump(R.parse(p["sql"], p["dialect"]))
    print(o)
    c, pos, style, d = p["content"], p["pos"], p["style"], p["dialect"]
    def gencol(v):
        return {"create table": {"name": "t9", "columns": [{"name": "a9", "type": {"varchar": 9}}, {"name": "b9", "type": {"varchar": 9}, "value": {"concat": ["a9", v]}}]}}

    ident = {"column": {"from": "t9", "select": {"value": c}}, "table": {"from": c, "select": {"value": "a9"}},
             "alias": {"from": "t9", "select": {"name": c, "value": "a9"}}, "gencol": gencol(c)}[pos]
    lit = gencol({"literal": c}) if pos == "gencol" else {"from": "t9", "select": {"value": {"literal": c}}}
    if style == "sq" and d in ("common", "bigquery"):
        return o == C.cdump({"ok": C.canon(ident)})
    want = ident if (style == "bt" or d in ("common", "sqlserver") or style == "sq") else lit
    return o != C.cdump({"ok": C.canon(want)})
