"""C02 — every query clause lands under its own key with the written grouping."""
import itertools
import json

import common as C
import gen_query as Q

ASSUMPTIONS = [
    "the PEG recogniser delivers each clause to its named slot (correspondence + oracle on generated queries; not proved)",
    "expressions inside the generated queries use a well-behaved operator subset; operator grouping itself is C01",
]


def diff_key(got, want):
    """first clause key whose content differs"""
    if isinstance(got, dict) and isinstance(want, dict):
        ks = sorted(set(got) ^ set(want))
        if ks:
            return "keys:" + ",".join(ks)[:60]
        for k in want:
            if C.cdump(C.canon(got[k])) != C.cdump(C.canon(want[k])):
                sub = diff_key(got[k], want[k])
                return k if k not in ("from", "value") or not sub else "%s/%s" % (k, sub)
        return ""
    if isinstance(got, list) and isinstance(want, list):
        if len(got) != len(want):
            return "len"
        for i, (g, w) in enumerate(zip(got, want)):
            if C.cdump(C.canon(g)) != C.cdump(C.canon(w)):
                return diff_key(g, w) or "item"
    return "value"


def run(ctx, n_random=None):
    rep = ctx.rep
    R = C.real()
    g = Q.QueryGen(ctx.rng, ctx.gen["ops"])

    def check(q, origin):
        sql = Q.render(q)
        want = Q.spec(q)
        r = R.parse_raw(sql)
        rep.case(sql)
        rep.count("origin", origin)
        got = {"ok": C.canon(r[1])} if r[0] == "ok" else {"$err": r[1]}
        rep.sample({"sql": sql[:200]})
        if C.cdump(got) != C.cdump({"ok": C.canon(want)}):
            if r[0] == "ok":
                key = "query-differs:" + diff_key(r[1], want)[:60]
            else:
                key = "query-rejected:" + origin
            rep.count("finding", key)
            rep.finding(key, "parse(%r) = %s ; expected %s" % (sql[:200], C.cdump(got)[:300], C.cdump(C.canon(want))[:300]),
                        {"sql": sql, "expected": {"ok": C.canon(want)}})
        return r

    # ---- exhaustive short set-operation chains, every parenthesisation of the operands, with and without a tail
    def simple_select(i):
        return {"distinct": False, "top": None, "items": [("expr", ("raw", "a%d" % i, "a%d" % i), None)],
                "from": [("table", "t%d" % i, None)], "joins": [], "where": None, "groupby": [], "having": None}

    def mk(body, tail):
        ob = [(("raw", "1", 1), None)] if tail in ("order", "both") else []
        lim = 3 if tail in ("limit", "both") else None
        return {"with": [], "body": body, "orderby": ob, "limit": lim, "offset": None}

    lengths = [2, 3] if ctx.quick else [2, 3, 4]
    union_reqs = []
    for n in lengths:
        for ops in itertools.product(Q.SETOPS, repeat=n - 1):
            # every way of parenthesising a contiguous group of operands (as one operand)
            groupings = [None] + [(i, j) for i in range(n) for j in range(i + 1, n) if (j - i + 1) < n]
            for grp in groupings:
                for tail in (["none", "order"] if ctx.quick else ["none", "order", "limit", "both"]):
                    if ctx.quick and n == 3 and len(set(ops)) == len(ops) and ctx.rng.random() < 0.6:
                        continue  # quick tier samples the chains of pairwise different operators
                    operands = [("select", simple_select(i)) for i in range(n)]
                    chain_ops = list(ops)
                    if grp:
                        i, j = grp
                        inner = mk(("chain", operands[i], list(zip(chain_ops[i:j], operands[i + 1:j + 1]))),
                                   ctx.rng.choice(["none", "none", "order", "limit"]))
                        operands = operands[:i] + [("paren", inner)] + operands[j + 1:]
                        chain_ops = chain_ops[:i] + chain_ops[j:]
                    q = mk(("chain", operands[0], list(zip(chain_ops, operands[1:]))), tail)
                    check(q, "setops:%d" % n)
                    union_reqs.append(q)

    # ---- every TOP form (count 0 is falsy in Python; PERCENT / WITH TIES change the entry's shape), alone and as
    #      either operand of a set operation, bare or parenthesised
    for n0 in (0, 7):
        for percent in (False, True):
            for ties in (False, True):
                def top_select(i):
                    s0 = simple_select(i)
                    s0["top"] = (n0, percent, ties)
                    return s0
                check(mk(("chain", ("select", top_select(0)), []), "none"), "top")
                for op in Q.SETOPS[:2]:
                    check(mk(("chain", ("select", top_select(0)), [(op, ("select", simple_select(1)))]), "order"), "top")
                    check(mk(("chain", ("select", simple_select(0)), [(op, ("select", top_select(1)))]), "none"), "top")
                    check(mk(("chain", ("paren", mk(("chain", ("select", top_select(0)), []), "none")), [(op, ("select", top_select(1)))]), "none"), "top")

    # ---- a single parenthesised query with clauses of its own inside and / or behind the parentheses
    for inner_tail in ("none", "order", "limit", "both"):
        for outer_tail in ("none", "order", "limit", "both"):
            for depth in (1, 2):
                inner = mk(("chain", ("select", simple_select(0)), []), inner_tail)
                inner = dict(inner, body=("select", simple_select(0)))
                opd = ("paren", inner)
                if depth == 2:
                    opd = ("paren", mk(("chain", opd, []), "none"))
                q = mk(("chain", opd, []), outer_tail)
                check(q, "paren-tail")
                if depth == 1:
                    union_reqs.append(q)
                # … and a WITH clause written in front of the wholly parenthesised body
                qw = dict(q, **{"with": [("w8", mk(("chain", ("select", simple_select(7)), []), "none"))]})
                qw["with"] = [("w8", dict(qw["with"][0][1], body=("select", simple_select(7))))]
                check(qw, "with-paren")

    # ---- Tie B for to_union_call: the model folds the REAL trees of the operands
    if ctx.driver:
        reqs, metas = [], []
        for q in union_reqs:
            b = q["body"]
            ops_ok = True
            trees = []
            for o in [b[1]] + [o for _, o in b[2]]:
                r = R.parse_raw(Q.r_operand(o) if o[0] == "select" else Q.render(o[1]))
                if r[0] != "ok":
                    ops_ok = False
                    break
                trees.append(r[1])
            if not ops_ok:
                continue
            req = {"op": "union", "first": C.canon(trees[0]),
                   "rest": [[name, C.canon(t)] for ((_, name), _), t in zip(b[2], trees[1:])]}
            if q["orderby"]:
                req["orderby"] = C.canon({"value": 1})
            if q["limit"] is not None:
                req["limit"] = C.canon(q["limit"])
            reqs.append(req)
            metas.append(q)
        bad = 0
        for q, a in zip(metas, ctx.driver.batch(reqs)):
            if "error" in a:
                raise C.InfraError("driver: " + a["error"])
            r = R.parse_raw(Q.render(q))
            real = {"ok": C.canon(r[1])} if r[0] == "ok" else {"$err": r[1]}
            rep.count("tie", "to_union_call")
            if C.cdump(real) != C.cdump({"ok": a["model"]}):
                bad += 1
                if bad <= 5:
                    rep.tie_break("correspondence", "Query.toUnionCall vs to_union_call",
                                  {"sql": Q.render(q), "real": real, "model": a["model"]})
        rep.count("correspondence_mismatches", None, bad)

    # ---- random queries over the whole clause grammar
    n = n_random or (2500 if ctx.quick else 60000)
    for _ in range(n):
        g.n = 0
        q = g.query(subdepth=ctx.rng.choice([0, 1, 1, 2]))
        check(q, "random")


def search(ctx):
    run(ctx, n_random=30000)


def replay(ctx, p):
    R = C.real()
    r = R.parse_raw(p["sql"])
    got = {"ok": C.canon(r[1])} if r[0] == "ok" else {"$err": r[1]}
    print("sql:", p["sql"])
    print("observed:", C.cdump(got))
    print("expected:", C.cdump(p["expected"]))
    return C.cdump(got) != C.cdump(p["expected"])
