"""C20 — window specifications and aggregate modifiers are recorded and rendered exactly."""
import itertools
import json

import common as C

ASSUMPTIONS = [
    "the recogniser hands ROWS/RANGE bounds to _to_bound_call / _to_between_call as modelled (checked by correspondence on every frame form)",
    "offsets in the frame model are naturals; expression offsets (RANGE … interval …) are covered by the oracle only",
]

OFFSETS = [1, 2, 17, 0]


def bounds():
    out = ["current", "up", "uf"]
    for n in OFFSETS:
        out += [["p", n], ["f", n]]
    return out


def btext(b):
    if b == "current":
        return "CURRENT ROW"
    if b == "up":
        return "UNBOUNDED PRECEDING"
    if b == "uf":
        return "UNBOUNDED FOLLOWING"
    return "%d %s" % (b[1], "PRECEDING" if b[0] == "p" else "FOLLOWING")


def bvalue(b):
    if b == "current":
        return 0
    if b in ("up", "uf"):
        return None
    return -b[1] if b[0] == "p" else b[1]


def rank(b):
    if b == "up":
        return (0, 0)
    if b == "uf":
        return (2, 0)
    return (1, bvalue(b))


def frame_spec(f):
    """the demanded {min, max}: PRECEDING negative, FOLLOWING positive, CURRENT ROW zero, UNBOUNDED absent"""
    if f[0] == "single":
        b = f[1]
        if b == "uf" or (isinstance(b, list) and b[0] == "f"):
            lo, hi = 0, bvalue(b)
        else:
            lo, hi = bvalue(b), 0
    else:
        lo, hi = bvalue(f[1]), bvalue(f[2])
    out = {}
    if lo is not None:
        out["min"] = lo
    if hi is not None:
        out["max"] = hi
    return out


def frames():
    bs = bounds()
    for b in bs:
        yield ["single", b]
    for a in bs:
        for b in bs:
            if a != "uf" and b != "up" and rank(a) <= rank(b):
                yield ["between", a, b]


def ftext(f, unit):
    if f[0] == "single":
        return "%s %s" % (unit, btext(f[1]))
    return "%s BETWEEN %s AND %s" % (unit, btext(f[1]), btext(f[2]))


def one(xs):
    return xs[0] if len(xs) == 1 else xs


def run(ctx):
    rep = ctx.rep
    R = C.real()
    rng = ctx.rng
    all_frames = list(frames())

    def check(sql, want, shape, classify=None):
        r = R.parse_raw(sql)
        rep.case(sql)
        rep.count("shape", shape)
        got = {"ok": C.canon(r[1])} if r[0] == "ok" else {"$err": r[1]}
        rep.sample({"sql": sql})
        ok = C.cdump(got) == C.cdump({"ok": C.canon(want)})
        if not ok:
            key = (classify or (lambda: "window-differs:" + shape))()
            rep.count("finding", key)
            rep.finding(key, "parse(%r) = %s ; expected %s" % (sql, C.cdump(got)[:300], C.cdump(C.canon(want))[:300]),
                        {"kind": "parse", "sql": sql, "expected": {"ok": C.canon(want)}})
            return
        # format -> parse
        f = R.format_raw(r[1])
        if f[0] != "ok":
            key = "window-format-raises:%s:%s" % (f[1], shape)
            rep.finding(key, "format(parse(%r)) raised %s: %s" % (sql, f[1], f[2][:80]), {"kind": "format", "sql": sql})
            return
        r2 = R.parse_raw(f[1])
        got2 = {"ok": C.canon(r2[1])} if r2[0] == "ok" else {"$err": r2[1]}
        if C.cdump(got2) != C.cdump(got):
            key = "window-format-differs:" + shape
            if frame_only(want) == {}:
                key = "frame:both-unbounded"
            elif "named" in shape:
                key = "window:window-clause-not-formatted"
            elif "within" in shape:
                key = "window:within-group-written-after-over"
            rep.count("finding", key)
            rep.finding(key, "format(parse(%r)) = %r parses back to %s" % (sql, f[1], C.cdump(got2)[:300]), {"kind": "format", "sql": sql})

    def frame_only(t):
        def find(x):
            if isinstance(x, dict):
                if "over" in x and isinstance(x["over"], dict) and "range" in x["over"]:
                    return x["over"]["range"]
                for v in x.values():
                    r = find(v)
                    if r is not None:
                        return r
            if isinstance(x, list):
                for v in x:
                    r = find(v)
                    if r is not None:
                        return r
            return None
        r = find(t)
        return {"x": 1} if r is None else r

    # ---- Tie B + oracle: every frame form, both units
    reqs = [{"op": "frame", "f": f} for f in all_frames]
    answers = ctx.driver.batch(reqs) if ctx.driver else [None] * len(reqs)
    bad = 0
    for f, a in zip(all_frames, answers):
        for unit in ("ROWS", "RANGE"):
            sql = "SELECT SUM(x) OVER (ORDER BY b %s) FROM t" % ftext(f, unit)
            spec = frame_spec(f)
            over = {"orderby": {"value": "b"}, "range": spec}
            want = {"select": {"value": {"sum": "x"}, "over": over}, "from": "t"}
            r = R.parse_raw(sql)
            if a is not None:
                if "error" in a:
                    raise C.InfraError("driver: " + a["error"])
                real_frame = None
                if r[0] == "ok":
                    try:
                        real_frame = r[1]["select"]["over"].get("range", {})
                    except Exception:
                        real_frame = "?"
                rep.count("tie", "frame")
                if C.cdump(C.canon(real_frame)) != C.cdump(a["model"]):
                    bad += 1
                    if bad <= 5:
                        rep.tie_break("correspondence", "Window.parseFrame vs _to_bound_call/_to_between_call",
                                      {"sql": sql, "real": C.canon(real_frame), "model": a["model"]})
                # the model's formatter against the real one
                if r[0] == "ok" and unit == "ROWS":
                    fr = R.format_raw(r[1])
                    if fr[0] == "ok":
                        want_txt = "OVER (ORDER BY b%s)" % ((" " + a["fmt"]) if a["fmt"] else "")
                        if isinstance(a["fmt"], str) and want_txt not in fr[1]:
                            bad += 1
                            if bad <= 8:
                                rep.tie_break("correspondence", "Window.fmtFrame vs Formatter.value", {"sql": sql, "real": fr[1], "model": a["fmt"]})
            check(sql, want, "frame:%s" % f[0], classify=lambda: "frame-differs:%s" % json.dumps(f))
    rep.count("correspondence_mismatches", None, bad)

    # ---- partition / order lists x frame x modifiers x alias x embedding
    n = 1500 if ctx.quick else 40000
    for i in range(n):
        parts = ["p%d" % j for j in range(rng.choice([0, 0, 1, 2, 3]))]
        orders = [("o%d" % j, rng.choice([None, "ASC", "DESC"])) for j in range(rng.choice([0, 1, 1, 2, 3]))]
        f = rng.choice(all_frames) if rng.random() < 0.6 else None
        distinct = rng.random() < 0.2
        alias = "a1" if rng.random() < 0.3 else None
        in_expr = rng.random() < 0.15
        within = rng.random() < 0.1
        filt = rng.random() < 0.12
        named = rng.random() < 0.08
        fn = "percentile_cont" if within else rng.choice(["sum", "count", "max", "row_number"])
        call_sql = "%s(%s)" % (fn.upper(), "" if fn == "row_number" else (("DISTINCT " if distinct and not within else "") + ("0.5" if within else "x")))
        call_tree = {fn: {}} if fn == "row_number" else ({fn: 0.5} if within else ({"distinct": True, fn: "x"} if distinct else {fn: "x"}))
        item = {"value": call_tree}
        sql = call_sql
        if within:
            sql += " WITHIN GROUP (ORDER BY w1)"
            item["within"] = {"orderby": {"value": "w1"}}
        if filt:
            sql += " FILTER (WHERE y > 1)"
            item["filter"] = {"gt": ["y", 1]}
        over = {}
        if named:
            sql += " OVER win1"
            item["over"] = "win1"
        else:
            inner = []
            if parts:
                inner.append("PARTITION BY " + ", ".join(parts))
                over["partitionby"] = one(parts)
            if orders:
                inner.append("ORDER BY " + ", ".join(o + (" " + d if d else "") for o, d in orders))
                over["orderby"] = one([dict({"value": o}, **({"sort": d.lower()} if d else {})) for o, d in orders])
            if f is not None:
                inner.append(ftext(f, rng.choice(["ROWS", "RANGE"])))
                over["range"] = frame_spec(f)
            sql += " OVER (" + " ".join(inner) + ")"
            item["over"] = over
        if in_expr:
            sql = "1 + " + sql
            item = {"value": {"add": [1, dict({"value": item.pop("value")}, **item)]}}
        if alias:
            sql += " AS " + alias
            item["name"] = alias
        want = {"select": item, "from": "t"}
        full = "SELECT " + sql + " FROM t"
        if named:
            full += " WINDOW win1 AS (PARTITION BY p9)"
            want["window"] = {"name": "win1", "value": {"partitionby": "p9"}}
        shape = "+".join(sorted(k for k, v in dict(distinct=distinct, within=within, filter=filt, named=named, expr=in_expr,
                                                       frame=f is not None).items() if v)) or "plain"

        def cls(shape=shape, filt=filt, within=within, only_frame=(f is not None and not parts and not orders and not named)):
            if filt:
                return "modifier:filter-then-over"
            if only_frame:
                return "window:frame-only-loses-range-key"
            return "window-differs:" + shape
        check(full, want, shape, classify=cls)


    # ---- aggregate modifiers WITHOUT a window (stacked postfix modifiers nest: read them back along the chain)
    def mods_of(item):
        """{'fn': tree, 'within': …, 'filter': …, 'over': …} collected along nested value nodes"""
        out = {}
        cur = item
        while isinstance(cur, dict) and "value" in cur:
            for k in ("within", "filter", "over"):
                if k in cur:
                    if k in out:
                        return None
                    out[k] = cur[k]
            cur = cur["value"]
        out["fn"] = cur
        return out

    for within in (False, True):
        for filt in (False, True):
            for distinct in (False, True):
                for alias in (None, "a1"):
                    for in_expr in (False, True):
                        if not (within or filt):
                            continue
                        fn = "percentile_cont" if within else "sum"
                        sql = "%s(%s)" % (fn.upper(), ("DISTINCT " if distinct and not within else "") + ("0.5" if within else "x"))
                        fn_tree = {fn: 0.5} if within else ({"distinct": True, fn: "x"} if distinct else {fn: "x"})
                        exp = {"fn": fn_tree}
                        if within:
                            sql += " WITHIN GROUP (ORDER BY w1 DESC)"
                            exp["within"] = {"orderby": {"value": "w1", "sort": "desc"}}
                        if filt:
                            sql += " FILTER (WHERE y > 1)"
                            exp["filter"] = {"gt": ["y", 1]}
                        if in_expr:
                            sql = "1 + " + sql
                        if alias:
                            sql += " AS " + alias
                        full = "SELECT " + sql + ", z9 FROM t"
                        shape = "no-over:" + "+".join(k for k, v in (("within", within), ("filter", filt), ("distinct", distinct), ("expr", in_expr), ("alias", alias)) if v)
                        r = R.parse_raw(full)
                        rep.case(full)
                        rep.count("shape", shape)
                        if r[0] != "ok":
                            rep.finding("modifier-rejected:" + shape, "parse(%r) -> %s" % (full, r[1]), {"kind": "parse", "sql": full, "expected": None})
                            continue
                        try:
                            item = r[1]["select"][0]
                            node = item["value"]["add"][1] if in_expr else item
                            got = mods_of(node)
                            if alias and item.get("name") != alias:
                                got = None
                        except Exception:
                            got = None
                        if got is None or C.cdump(C.canon(got)) != C.cdump(C.canon(exp)):
                            rep.finding("modifier-differs:" + shape, "parse(%r) = %s ; modifiers expected %s" % (full, C.cdump(C.canon(r[1]))[:300], C.cdump(C.canon(exp))[:200]),
                                        {"kind": "mods", "sql": full})
                            continue
                        f = R.format_raw(r[1])
                        r2 = R.parse_raw(f[1]) if f[0] == "ok" else ("err", f[1])
                        if r2[0] != "ok" or C.cdump(C.canon(r2[1])) != C.cdump(C.canon(r[1])):
                            rep.finding("modifier-format-differs:" + shape, "format(parse(%r)) = %r parses back to %s" % (full, f[1] if f[0] == "ok" else f, C.cdump(C.canon(r2[1]))[:300] if r2[0] == "ok" else r2[1]),
                                        {"kind": "format", "sql": full})


def search(ctx):
    ctx.quick = False
    run(ctx)


def replay(ctx, p):
    R = C.real()
    r = R.parse_raw(p["sql"])
    got = {"ok": C.canon(r[1])} if r[0] == "ok" else {"$err": r[1]}
    print(p["sql"], "->", C.cdump(got))
    if p["kind"] == "parse":
        return C.cdump(got) != C.cdump(p["expected"])
    if p["kind"] == "mods":
        return True
    f = R.format_raw(r[1])
    print(f)
    if f[0] != "ok":
        return True
    r2 = R.parse_raw(f[1])
    return not (r2[0] == "ok" and C.cdump(C.canon(r2[1])) == C.cdump(got.get("ok")))
