"""C09 — whitespace, comments, keyword case, optional AS and a trailing semicolon never change the tree."""
import itertools
import json
import re

import common as C
import corpus
import gen_tokens as GT

ASSUMPTIONS = [
    "the link from the whitespace engine (modelled, proved) to parse results goes through the PEG recogniser, which is "
    "not modelled: structural obligation on the grammar graph + gap-by-gap oracle on the real parser",
    "corpus statements: gaps are the whitespace runs found by an independent lexer; statements with a backslash, a "
    "DELIMITER directive, an @-name / stage path, or '[' under parse_sqlserver are skipped (the lexer cannot classify them with certainty)",
    "corpus case changes are restricted to RESERVED words (which cannot be identifiers); generated statements change the "
    "case of every keyword, function name and type name (token classes known by construction)",
]

WS_FILLERS = [" ", "  ", "\n", "\t", "\r\n", " \n\t "]
COMMENT_FILLERS = [" -- c\n", " # c\n", " /* c */ ", "/* c\n c */", "# c\n", "/**/", " /** c **/ ", "/***/"]
SKIP_ALPHABET = [" ", "\n", "-", "#", "/", "*", "a", "\t"]

KNOWN_RULE = "ws:comment-in-gap"


def ctx_key(tokens, i):
    """classifier of the gap between tokens[i] and tokens[i+1]: the two token classes, plus the nearest
    preceding keyword / type / function token when neither side pins the construct by itself"""
    l, r = tokens[i], tokens[i + 1]
    lk, rk = GT.cls_key(l), GT.cls_key(r)
    if l[1] in ("kw", "ty", "as") or r[1] in ("kw", "ty", "as"):
        return "%s|%s" % (lk, rk)
    ctx = ""
    for j in range(i, -1, -1):
        if tokens[j][1] in ("kw", "ty", "as"):
            ctx = tokens[j][0].lower()
            break
        if tokens[j][1] == "fn":
            ctx = "<fn>"
            break
    return "%s:%s|%s" % (ctx, lk, rk)


def recase(tok, policy):
    t = tok[0]
    if tok[1] not in ("kw", "fn", "ty", "as"):
        return t
    if policy == "upper":
        return t.upper()
    if policy == "lower":
        return t.lower()
    return "".join(ch.upper() if k % 2 == 0 else ch.lower() for k, ch in enumerate(t))


# ------------------------------------------------------------------ independent lexer for the corpus
LEX = re.compile(r"""
 (?P<ws>[ \t\r\n]+)
|(?P<cm>--[^\n]*|\#[^\n]*|/\*.*?\*/)
|(?P<lit>(?:[A-Za-z_][A-Za-z_0-9]*)?'(?:''|[^'])*'|\d+\.?\d*(?:[eE][+-]?\d+)?|\.\d+(?:[eE][+-]?\d+)?)
|(?P<q>"(?:""|[^"])*"|`(?:``|[^`])*`)
|(?P<word>[A-Za-z_@$À-ƿ][A-Za-z_0-9@$À-ƿ]*)
|(?P<p>::|<=>|<>|<=|>=|!=|==|\|\||->>|->|:=|!~\*|!~|~\*|.)
""", re.X | re.S)


def lex(sql):
    out = []
    pos = 0
    while pos < len(sql):
        m = LEX.match(sql, pos)
        if not m or m.end() == pos:
            return None
        out.append((m.lastgroup, m.group(0), pos))
        pos = m.end()
    return out


def corpus_tokens(sql, keywords):
    """-> (tokens in gen_tokens form, [(token index, start, end) of whitespace runs between two tokens])"""
    lx = lex(sql)
    if lx is None:
        return None
    toks, gaps = [], []
    pending = None
    for kind, text, pos in lx:
        if kind == "ws":
            if toks and pending is None:
                pending = (len(toks) - 1, pos, pos + len(text))
            else:
                pending = None if not toks else "mixed"
            continue
        if kind == "cm":
            pending = "mixed"       # a gap that already holds a comment is left alone
            continue
        if isinstance(pending, tuple):
            gaps.append(pending)
        pending = None
        if kind == "word":
            toks.append((text, "kw" if text.lower() in keywords else "id"))
        elif kind == "lit":
            toks.append((text, "lit"))
        elif kind == "q":
            toks.append((text, "id"))
        else:
            toks.append((text, "p"))
    return toks, gaps


# ------------------------------------------------------------------ the check
def run(ctx, scale=1):
    rep = ctx.rep
    rng = ctx.rng
    R = C.real()
    gen = ctx.gen

    # ---- Tie B: the whitespace-engine model against the real engine's compiled regular expression
    engines = {k: (p, int(f)) for k, p, f in gen.get("ws_engines", [])}
    if ctx.driver and "comment" in engines:
        rx = re.compile(engines["comment"][0], engines["comment"][1])
        cases = []
        maxlen = 5 if ctx.quick else 7
        for n in range(0, maxlen + 1):
            for tup in itertools.product(SKIP_ALPHABET, repeat=n):
                cases.append("".join(tup))
        for _ in range(4000 if ctx.quick else 60000):
            k = rng.randint(6, 24)
            cases.append("".join(rng.choice(SKIP_ALPHABET + ["/*", "*/", "--", "\n", "# x\n", "\r"]) for _ in range(k)))
        ans = ctx.driver.batch([{"op": "skip", "text": t} for t in cases])
        bad = 0
        for t, a in zip(cases, ans):
            if "error" in a:
                raise C.InfraError("driver: " + a["error"])
            real_n = rx.match(t, 0).end()
            rep.case("skip:" + t, nontrivial=("*" in t or "-" in t or "#" in t))
            rep.count("tie", "skip-model-vs-engine")
            if real_n != a["n"]:
                bad += 1
                if bad <= 5:
                    rep.tie_break("correspondence", "Skip.skip vs the comment-aware Whitespace engine", {"text": t, "real": real_n, "model": a["n"]})
        rep.count("correspondence_mismatches", None, bad)
    elif "comment" not in engines:
        rep.tie_break("translator", "ws_engines", "no comment-aware whitespace engine found in the grammar graph")

    # ---- Tie B for the recogniser engine: `Peg.parseTop` against mo_parsing itself on random small grammars
    #      (And / MatchFirst / Or / Many / Optional / Group / Suppress / Forward / lookaheads / terminals; the three
    #      whitespace engines, the comment-aware one built exactly as sql_parser.parser() builds it)
    if ctx.driver:
        import peg
        n_gr = (150 if ctx.quick else 2500) * scale
        # a FIXED stream of grammars and texts (the thorough set extends the quick set): the engine is not part of
        # /repo and does not change from run to run, and a handful of its behaviours lie outside the model (DESIGN
        # 12.9: first-character dispatch, a trailing empty repetition below a node that skips nothing, …), met about
        # once in 300 000 random cases; a seed-dependent stream would turn those into occasional alarms on an unchanged tree
        cases_n, mism, stats = peg.correspond(ctx.driver, __import__("random").Random(90920261), n_gr, 30,
                                              on_case=lambda spec, text, real: rep.case("peg:" + json.dumps(spec["start"])[:300] + "|" + text, nontrivial=real[0] == "ok"))
        rep.count("tie", "engine-model-vs-mo_parsing", cases_n)
        for k, v in stats.items():
            rep.count("engine_outcome", k, v)
        rep.count("engine_mismatches", None, len(mism))
        for m in mism[:5]:
            rep.tie_break("correspondence", "Peg.parseTop vs mo_parsing (And/Many/MatchFirst/... on a random grammar)", m)
        if "comment" in engines:
            probe = peg.build({"rules": [], "start": ["seq", 2, [["lit", "a", False], ["lit", "b", False]]]})
            if probe.comment_engine_pattern != engines["comment"][0]:
                rep.tie_break("translator", "ws_engines", "the comment-aware engine of the small grammars is not the SQL parser's: %r vs %r"
                              % (probe.comment_engine_pattern, engines["comment"][0]))

    # ---- oracle on generated statements: every gap, case policies, AS, semicolon
    g = GT.Gen(rng)
    fixed = GT.Gen(__import__("random").Random(20260930))      # seed-independent part: saturates the gap classes
    n_fixed = (120 if ctx.quick else 400) * scale
    n_rand = (120 if ctx.quick else 400) * scale
    stmts = [fixed.statement() for _ in range(n_fixed)] + [g.statement() for _ in range(n_rand)]
    # quoted texts side by side: a string literal followed by a single-quoted alias (with and without AS), two
    # literals as arguments, a literal behind a quoted name — a line break between two quoted texts is a gap like any other
    Q = lambda *ts: [(t, "kw" if t.lower() in ("select", "from", "as", "where", "and") else ("p" if t in (",", "(", ")", "=") else ("lit" if t[0] in "'0123456789" else "id"))) for t in ts]
    stmts += [("quoted-neighbours", Q("select", "'s1'", "'a2'", ",", "c3", "'a4'", "from", "t5")),
              ("quoted-neighbours", Q("select", "'s1'", "as", "'a2'", ",", "f6", "(", "'s7'", ",", "'s8'", ")", "from", "t5", "where", "c9", "=", "'s10'")),
              ("quoted-neighbours", Q("select", '"q1"', "'a2'", ",", "`q3`", "'a4'", "from", "t5", "'x6'"))]
    jobs = []       # (sql, meta)
    for si, (kind, toks) in enumerate(stmts):
        base = GT.text(toks)
        jobs.append((base, ("base", si)))
        ngap = len(toks) - 1
        for i in range(ngap):
            ws = [rng.choice(WS_FILLERS[1:])] if ctx.quick else WS_FILLERS[1:]
            cm = [rng.choice(COMMENT_FILLERS)] if ctx.quick else COMMENT_FILLERS
            for f in ws:
                jobs.append((GT.text(toks, {i: f}), ("gap", si, i, f, "ws")))
            for f in cm:
                jobs.append((GT.text(toks, {i: f}), ("gap", si, i, f, "comment")))
        # random combinations of fillers
        for _ in range(2):
            gaps = {i: rng.choice(WS_FILLERS + COMMENT_FILLERS) for i in range(ngap) if rng.random() < 0.4}
            jobs.append((GT.text(toks, gaps), ("combo", si, gaps)))
        for pol in ("upper", "mixed"):
            jobs.append((" ".join(recase(t, pol) for t in toks), ("case", si, pol)))
        as_idx = [i for i, t in enumerate(toks) if t[1] == "as"]
        for i in as_idx:
            jobs.append((GT.text(toks, drop=(i,)), ("as", si, i)))
        if len(as_idx) > 1:
            jobs.append((GT.text(toks, drop=tuple(as_idx)), ("as", si, -1)))
        for tail in (";", " ;", ";\n", " ; "):
            jobs.append((base + tail, ("semi", si, tail)))
    outs = C.parse_many([(sql, "common", {}) for sql, _ in jobs])
    base_of = {}
    for (sql, meta), o in zip(jobs, outs):
        if meta[0] == "base":
            base_of[meta[1]] = (sql, o)
    followups = []
    for (sql, meta), o in zip(jobs, outs):
        k = meta[0]
        if k == "base":
            rep.count("generated", "accepted" if o.startswith('{"ok"') else "rejected")
            rep.count("statement_kind", stmts[meta[1]][0])
            if len(rep.coverage["samples"]) < 4 and o.startswith('{"ok"'):
                rep.sample({"statement": sql})
            continue
        bsql, bo = base_of[meta[1]]
        if not bo.startswith('{"ok"'):
            continue
        toks = stmts[meta[1]][1]
        rep.case(sql)
        rep.count("variant", k if k != "gap" else "gap-" + meta[4])
        if o == bo:
            continue
        if k == "gap":
            ck = ctx_key(toks, meta[2])
            what = "%r -> %s  but  %r -> %s" % (bsql[:110], bo[:110], sql[:130], o[:110])
            if meta[4] == "comment":
                rep.finding(KNOWN_RULE, what, {"kind": "pair", "base": bsql, "variant": sql}, sub=ck)
            else:
                rep.finding("ws:whitespace-in-gap:" + ck, what, {"kind": "pair", "base": bsql, "variant": sql})
        elif k == "combo":
            followups.append((meta, sql, o))
        elif k == "case":
            # which token is it?
            followups.append((meta, sql, o))
        elif k == "as":
            rep.finding("as:omitted-changes-tree", "%r -> %s  but without AS %r -> %s" % (bsql[:110], bo[:110], sql[:130], o[:110]),
                        {"kind": "pair", "base": bsql, "variant": sql})
        elif k == "semi":
            rep.finding("semicolon:changes-tree", "%r -> %s  but %r -> %s" % (bsql[:110], bo[:110], sql[-60:], o[:110]),
                        {"kind": "pair", "base": bsql, "variant": sql})
    # follow-ups: attribute a failing combination / case policy to single gaps / tokens
    for meta, sql, o in followups[:60]:
        si = meta[1]
        toks = stmts[si][1]
        bsql, bo = base_of[si]
        if meta[0] == "combo":
            culprit = []
            for i, f in meta[2].items():
                o1 = C.cdump(R.parse(GT.text(toks, {i: f})))
                if o1 != bo:
                    culprit.append((i, f))
            if not culprit:
                rep.finding("ws:combination-only", "%r parses differently from %r although every single gap change is harmless" % (sql[:140], bsql[:110]),
                            {"kind": "pair", "base": bsql, "variant": sql})
            for i, f in culprit:
                ck = ctx_key(toks, i)
                what = "%r -> %s  but  %r differs" % (bsql[:110], bo[:110], GT.text(toks, {i: f})[:130])
                if f in COMMENT_FILLERS:
                    rep.finding(KNOWN_RULE, what, {"kind": "pair", "base": bsql, "variant": GT.text(toks, {i: f})}, sub=ck)
                else:
                    rep.finding("ws:whitespace-in-gap:" + ck, what, {"kind": "pair", "base": bsql, "variant": GT.text(toks, {i: f})})
        else:
            pol = meta[2]
            hit = False
            for i, t in enumerate(toks):
                if t[1] in ("kw", "fn", "ty", "as") and recase(t, pol) != t[0]:
                    v = " ".join(recase(x, pol) if j == i else x[0] for j, x in enumerate(toks))
                    o1 = C.cdump(R.parse(v))
                    if o1 != bo:
                        hit = True
                        rep.finding("case:%s:%s" % (t[1], t[0].lower()), "%r -> %s  but  %r -> %s" % (bsql[:110], bo[:110], v[:130], o1[:110]),
                                    {"kind": "pair", "base": bsql, "variant": v})
            if not hit:
                rep.finding("case:combination-only", "%r parses differently from %r" % (sql[:140], bsql[:110]),
                            {"kind": "pair", "base": bsql, "variant": sql})

    # ---- the same gap edits through the other seven cached parsers (dialects x all_columns): each has its own
    # whitespace engine, built at a different moment
    others = [(d, ac) for d in ("common", "mysql", "sqlserver", "bigquery") for ac in (None, "*") if (d, ac) != ("common", None)]
    ojobs, ometa = [], []
    for si in rng.sample(range(len(stmts)), min(len(stmts), (70 if ctx.quick else 600) * scale)):
        toks = stmts[si][1]
        d, ac = rng.choice(others)
        kw = {"all_columns": ac} if ac else {}
        ojobs.append((GT.text(toks), d, kw))
        ometa.append(("base", si, d, ac, None, None))
        for i in rng.sample(range(len(toks) - 1), min(len(toks) - 1, 10)):
            f = rng.choice(COMMENT_FILLERS)
            ojobs.append((GT.text(toks, {i: f}), d, kw))
            ometa.append(("gap", si, d, ac, i, f))
    oouts = C.parse_many(ojobs)
    obase = {}
    for mt, o in zip(ometa, oouts):
        if mt[0] == "base":
            obase[(mt[1], mt[2], mt[3])] = o
    for (job, mt, o) in zip(ojobs, ometa, oouts):
        if mt[0] == "base":
            rep.count("other_parsers", "%s/%s" % (mt[2], mt[3]))
            continue
        bo = obase[(mt[1], mt[2], mt[3])]
        if not bo.startswith('{"ok"'):
            continue
        rep.case(job[0] + "|" + mt[2] + str(mt[3]))
        rep.count("variant", "gap-comment-other-parser")
        if o != bo:
            toks = stmts[mt[1]][1]
            ck = ctx_key(toks, mt[4])
            rep.finding(KNOWN_RULE, "%s all_columns=%r: %r -> %s  but  %r -> %s" % (mt[2], mt[3], GT.text(toks)[:100], bo[:100], job[0][:130], o[:100]),
                        {"kind": "pair", "base": GT.text(toks), "variant": job[0], "dialect": mt[2], "all_columns": mt[3]}, sub=ck)

    # ---- oracle on the corpus: whitespace runs found by the independent lexer
    keywords = set(gen.get("keyword_words", []))
    reserved = set(gen.get("reserved_words", []))
    items = corpus.load()
    if ctx.quick:
        items = rng.sample(items, min(len(items), 150 * scale))
    jobs = []
    metas = []
    for it in items:
        sql, d = it["sql"], it["dialect"]
        if "\\" in sql or "@" in sql or re.search(r"(?im)^\s*delimiter\s", sql) or (d == "sqlserver" and "[" in sql):
            rep.count("corpus", "skipped")
            continue
        ct = corpus_tokens(sql, keywords)
        if ct is None:
            rep.count("corpus", "unlexable")
            continue
        toks, gaps = ct
        jobs.append((sql, d, {}))
        metas.append(("base", sql, d, None))
        pick = gaps if not ctx.quick else rng.sample(gaps, min(len(gaps), 8))
        for (ti, a, b) in pick:
            fs = ([rng.choice(WS_FILLERS)] + [rng.choice(COMMENT_FILLERS)]) if ctx.quick else (WS_FILLERS + COMMENT_FILLERS)
            for f in fs:
                v = sql[:a] + f + sql[b:]
                if v == sql:
                    continue
                jobs.append((v, d, {}))
                metas.append(("gap", sql, d, (toks, ti, f)))
        # reserved words in upper / lower case, one word (all its occurrences) at a time
        lx = lex(sql)
        words = sorted({t for k, t, _ in lx if k == "word" and t.lower() in reserved})
        for w in (words if not ctx.quick else rng.sample(words, min(len(words), 4))):
            w2 = w.lower() if w != w.lower() else w.upper()
            v = "".join(w2 if (k == "word" and t == w) else t for k, t, _ in lx)
            jobs.append((v, d, {}))
            metas.append(("case", sql, d, (w, w2)))
        jobs.append((sql + ";", d, {}))
        metas.append(("semi", sql, d, None))
    outs = C.parse_many(jobs)
    base = {}
    for mt, o in zip(metas, outs):
        if mt[0] == "base":
            base[(mt[1], mt[2])] = o
    for (job, mt, o) in zip(jobs, metas, outs):
        if mt[0] == "base":
            rep.count("corpus", "accepted" if o.startswith('{"ok"') else "rejected")
            continue
        bo = base[(mt[1], mt[2])]
        if not bo.startswith('{"ok"'):
            continue
        rep.case(job[0])
        rep.count("variant", "corpus-" + mt[0])
        if o == bo:
            continue
        rp = {"kind": "pair", "base": mt[1], "variant": job[0], "dialect": mt[2]}
        if mt[0] == "gap":
            toks, ti, f = mt[3]
            ck = ctx_key(toks, ti)
            what = "%r: gap %d replaced by %r -> %s instead of %s" % (mt[1][:120], ti, f, o[:100], bo[:100])
            if f in COMMENT_FILLERS:
                rep.finding(KNOWN_RULE, what, rp, sub=ck)
            else:
                rep.finding("ws:whitespace-in-gap:" + ck, what, rp)
        elif mt[0] == "case":
            w, w2 = mt[3]
            # a RESERVED word can still be written where only a name is possible (alias, column of an
            # alias): then the word is an identifier and its spelling is significant
            if o == re.sub(r'(?<=["\.])%s(?=["\.])' % re.escape(w), w2, bo):
                rep.count("variant", "corpus-case-word-is-a-name")
                continue
            rep.finding("case:reserved-word", "%r -> %s but %r -> %s" % (mt[1][:110], bo[:100], job[0][:110], o[:100]), rp)
        else:
            rep.finding("semicolon:changes-tree", "%r -> %s but with ';' -> %s" % (mt[1][:110], bo[:100], o[:100]), rp)


def search(ctx):
    run(ctx, scale=3)


def replay(ctx, p):
    R = C.real()
    d = p.get("dialect", "common")
    kw = {"all_columns": p["all_columns"]} if p.get("all_columns") else {}
    R.parse("select 1")          # the common parser is built first, as in the check
    a = C.cdump(R.parse(p["base"], d, **kw))
    b = C.cdump(R.parse(p["variant"], d, **kw))
    print(a)
    print(b)
    return a != b
