"""C13 — a script parses to the list of its statements' trees."""
import itertools
import json

import common as C

ASSUMPTIONS = [
    "whitespace alphabet of the parse_delimiters model is ASCII (space, \\t, \\n, \\r, \\x0b, \\x0c)",
    "a DELIMITER directive whose delimiter is empty after strip() is outside the model",
    "semicolons between statements are separated by the grammar (many_command), which is exercised end-to-end, not modelled",
]

STMTS = [
    "select 1", "select a from t", "select 'a;b' from t", 'select "x;y" from t', "select a /* ; */ from t",
    "select a -- ;\n from t", "insert into t values (1)", "delete from t where a = ';'", "select `a;b` from t",
    "update t set a = 1", "select a # ; c\n from t", "select f(a, 'it''s;') from t", "select a /**/ from t", "/**/ select 1 /* last */",
    # one statement of every kind the grammar has (a routine, a block with inner semicolons, DDL, session statements):
    # each must keep its own place in the list whatever stands next to it
    "create procedure p() select 1", "create function f(a int) returns int return a + 1", "create table t (a int)",
    "create view v as select 1", "drop table t", "begin select 1; select 2; end", "with w as (select 1) select * from w",
    "select 1 union select 2", "explain select 1", "set @a = 1", "truncate table t", "declare x int", "create index i on t (a)",
    "if a then select 1; end if", "use db", "commit", "alter table t add column b int",
    "create procedure q() begin select 1; select 2; end", "merge into t using s on t.a = s.a when matched then delete",
]
SEPS = [";", ";;", "; \n", " ;\n", ";\n;\n", "; /**/ ", " /**/; ", "; /* c */ ", ";/**/\n/* d */", " -- c\n; # d\n",
        # an empty statement that holds nothing but a comment: two separators with a comment between them
        "; /* x */ ;", ";\n-- note\n;", "; # c\n ;\n", " ; /**/ ; /* y */ ; "]
DELIMS = ["$$", "//", "|", "@@", "GO", "$$$"]
WORDS = ['delimiter', 'DELIMITER', 'Delimiter', ' delimiter ', '$$', '//', ';', 'select 1', 'select 2', '\n', '\n\n', ' ',
         '  ', "'a;b'", '$$\n', '$$ \n', '// \n\n', 'x', 'delimiterx', 'xdelimiter', ';;', '\t', '\r\n']
ALPH = [' ', '\n', '\t', ';', '$', '/', 'a', 'b', "'", 'd', 'D', 'x', '\r']


def unwrap(ts):
    if not ts:
        return None
    if len(ts) == 1:
        return ts[0]
    return ts


def run(ctx):
    rep = ctx.rep
    R = C.real()
    m = R.m
    rng = ctx.rng

    # ---- Tie B: parse_delimiters, model vs real
    if ctx.driver:
        n = 8000 if ctx.quick else 150000
        cases = []
        for _ in range(n):
            k = rng.randint(0, 10)
            cases.append("".join(rng.choice(WORDS) if rng.random() < 0.8 else rng.choice(ALPH) for _ in range(k)))
        # plus scripts made of real statements
        for _ in range(n // 8):
            d = rng.choice(DELIMS)
            parts = ["delimiter " + d + "\n"] + [rng.choice(STMTS) + d + rng.choice(["\n", " \n", "\n\n", ""]) for _ in range(rng.randint(0, 4))]
            if rng.random() < 0.5:
                parts += ["delimiter ;\n", rng.choice(STMTS) + ";"]
            cases.append("".join(parts))
        ans = ctx.driver.batch([{"op": "script", "text": t} for t in cases])
        bad = 0
        for t, a in zip(cases, ans):
            if "error" in a:
                raise C.InfraError("driver: " + a["error"])
            if any(mm.group(1).strip() == "" for mm in m.delimiter_pattern.finditer(t)):
                rep.count("tie", "skipped-empty-delimiter")
                continue
            real = list(m.parse_delimiters(t))
            model = [x[1] for x in a["pieces"]]
            rep.case("pd:" + t, nontrivial="elimiter" in t.lower())
            rep.count("tie", "parse_delimiters")
            if real != model:
                bad += 1
                if bad <= 5:
                    rep.tie_break("correspondence", "Script.pieces vs parse_delimiters", {"text": t, "real": real, "model": model})
        rep.count("correspondence_mismatches", None, bad)

    # ---- Tie B: the accumulation loop of _parse, driven by a stub parser that returns canned outputs
    if ctx.driver:
        import mo_sql_parsing.utils  # noqa
        m.parse("select 1")

        class StubSeq:
            def __init__(self, outs):
                self.outs = list(outs)
                self.i = 0

            def parse_string(self, line, parse_all=True):
                o = self.outs[self.i]
                self.i += 1
                return o

        pool_out = [None, {}, [], {"a": 1}, {"b": {"c": 2}}, [{"a": 1}, {"b": 2}], [{"x": 1}, {"y": 2}, {"z": 3}], "s", 0, [{"q": 1}]]
        reqs, metas = [], []
        for _ in range(1500 if ctx.quick else 20000):
            k = rng.randint(0, 5)
            outs = [rng.choice(pool_out) for _ in range(k)]
            reqs.append({"op": "accumulate", "outs": [C.canon(o) for o in outs]})
            metas.append(outs)
        bad = 0
        for outs, a in zip(metas, ctx.driver.batch(reqs)):
            if "error" in a:
                raise C.InfraError("driver: " + a["error"])
            # a script whose pre-pass yields exactly len(outs) chunks: a directive, then one chunk per line
            k = len(outs)
            if k == 0:
                sql = ""
            else:
                sql = "delimiter $$\n" + "x$$\n" * (k - 1)
                sql = sql[:-3] if k > 1 else sql  # no trailing delimiter: no empty last chunk
            chunks = list(m.parse_delimiters(sql))
            if len(chunks) != k:
                raise C.InfraError("chunk construction broke: %r -> %r" % (sql, chunks))
            import copy
            try:
                real = {"ok": C.canon(m._parse(StubSeq(copy.deepcopy(outs)), sql, m.SQL_NULL, m.simple_op, None))}
            except Exception as e:
                real = {"$err": type(e).__name__}
            # scrub is applied to each output by the real loop; the canned outputs are already scrubbed values
            rep.case("acc:" + json.dumps(outs), nontrivial=k >= 2)
            rep.count("tie", "accumulate")
            if C.cdump(real) != C.cdump({"ok": a["model"]}):
                bad += 1
                if bad <= 5:
                    rep.tie_break("correspondence", "Script.accumulate vs _parse loop", {"outs": outs, "real": real, "model": a["model"]})
        rep.count("accumulate_mismatches", None, bad)

    # ---- oracle: parse(script) == list of the statements' own trees
    single = {}
    usable = []
    for s in STMTS:
        r = R.parse_raw(s)
        if r[0] != "ok":
            # every statement of the pool is valid SQL that the pinned tree accepts: a one-statement script that is no
            # longer accepted is a script that does not parse to the list of its statements' trees
            rep.finding("script-differs:single-statement-rejected", "parse(%r) is rejected (%s)" % (s, r[1]), {"script": s, "expected": "accepted"})
            continue
        single[s] = r[1]
        usable.append(s)
    STMTS_ = usable

    def check(script, expected, shape, meta):
        r = R.parse_raw(script)
        rep.case("script:" + script)
        rep.count("shape", shape)
        got = {"ok": C.canon(r[1])} if r[0] == "ok" else {"$err": r[1]}
        want = {"ok": C.canon(expected)}
        rep.sample({"script": script[:120], "n": meta})
        if C.cdump(got) != C.cdump(want):
            key = "script-differs:" + shape
            rep.count("finding", key)
            rep.finding(key, "parse(%r) = %s ; expected %s" % (script[:160], C.cdump(got)[:200], C.cdump(want)[:200]),
                        {"script": script, "expected": want})

    max_n = 3 if ctx.quick else 4
    for n in range(0, max_n + 1):
        combos = list(itertools.product(range(len(STMTS_)), repeat=n))
        rng.shuffle(combos)
        for combo in combos[: (400 if ctx.quick else 6000)]:
            stmts = [STMTS_[i] for i in combo]
            sep = rng.choice(SEPS)
            lead = rng.choice(["", "", ";", " ;\n", "\n"])
            trail = rng.choice(["", ";", ";;", " ;\n", "\n", " -- end\n", " /**/", "; /* last */", " /**/ ; /* end */"])
            script = lead + sep.join(stmts) + trail
            check(script, unwrap([single[s] for s in stmts]), "semicolons:%d" % n, n)
    # 5-6 statements, sampled
    for _ in range(100 if ctx.quick else 3000):
        n = rng.choice([5, 6])
        stmts = [rng.choice(STMTS_) for _ in range(n)]
        script = rng.choice(SEPS).join(stmts) + rng.choice(["", ";"])
        check(script, unwrap([single[s] for s in stmts]), "semicolons:%d" % n, n)
    # DELIMITER blocks
    for _ in range(400 if ctx.quick else 8000):
        d = rng.choice(DELIMS)
        before = [rng.choice(STMTS_) for _ in range(rng.choice([0, 0, 1, 2]))]
        inside = [rng.choice(STMTS_) for _ in range(rng.choice([0, 1, 2, 3]))]
        after = [rng.choice(STMTS_) for _ in range(rng.choice([0, 1, 2]))]
        script = "".join(s + ";\n" for s in before)
        script += rng.choice(["DELIMITER ", "delimiter ", "  Delimiter  "]) + d + "\n"
        expected = [single[s] for s in before] + [{"delimiter": d}]
        for s in inside:
            # a chunk under a custom delimiter may itself hold several ;-separated statements
            group = [s] + [rng.choice(STMTS_) for _ in range(rng.choice([0, 0, 1, 2]))]
            script += rng.choice(["; ", ";\n"]).join(group) + d + rng.choice(["\n", " \n", "\n\n"])
            expected += [single[x] for x in group]
        if d == "GO" and rng.random() < 0.3:
            pass
        if after or rng.random() < 0.3:
            script += "DELIMITER ;\n" + "".join(s + ";\n" for s in after)
            expected += [{"delimiter": ";"}] + [single[s] for s in after]
        check(script, unwrap(expected), "delimiter-block:%s" % ("with-before" if before else "first"), len(expected))
    # a directive that (re)states the default delimiter, followed by ordinary ;-separated statements
    for _ in range(100 if ctx.quick else 2000):
        stmts = [rng.choice(STMTS_) for _ in range(rng.choice([1, 2, 3]))]
        script = "DELIMITER ;\n" + "; ".join(stmts) + rng.choice(["", ";"])
        check(script, unwrap([{"delimiter": ";"}] + [single[s] for s in stmts]), "delimiter-semicolon-first", len(stmts))
    # targeted: the delimiter inside a lexeme (documented weakness of the textual split)
    for key, script, expected in [
        ("delim:in-literal", "DELIMITER $$\nselect '$$\n' from t$$\n", [{"delimiter": "$$"}, {"select": {"value": {"literal": "$$\n"}}, "from": "t"}]),
        ("delim:directive-in-literal", "select 'a\ndelimiter //\nb' from t", {"select": {"value": {"literal": "a\ndelimiter //\nb"}}, "from": "t"}),
        ("delim:in-comment", "DELIMITER $$\nselect a /* $$\n */ from t$$\n", [{"delimiter": "$$"}, {"select": {"value": "a"}, "from": "t"}]),
    ]:
        r = R.parse_raw(script)
        rep.case("targeted:" + script)
        got = {"ok": C.canon(r[1])} if r[0] == "ok" else {"$err": r[1]}
        if C.cdump(got) != C.cdump({"ok": C.canon(expected)}):
            rep.finding(key, "parse(%r) = %s" % (script, C.cdump(got)[:160]), {"script": script, "expected": {"ok": C.canon(expected)}})


def search(ctx):
    ctx.quick = False
    run(ctx)


def replay(ctx, p):
    R = C.real()
    r = R.parse_raw(p["script"])
    got = {"ok": C.canon(r[1])} if r[0] == "ok" else {"$err": r[1]}
    print("script:", repr(p["script"]))
    print("observed:", C.cdump(got))
    print("expected:", C.cdump(p["expected"]))
    if p["expected"] == "accepted":
        return r[0] != "ok"
    return C.cdump(got) != C.cdump(p["expected"])
