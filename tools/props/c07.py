"""C07 — identifiers survive every quoting style, and format quotes whatever needs it."""
import itertools
import json

import common as C

ASSUMPTIONS = [
    "names in trees are mo_dots paths: a dot inside one segment is written doubled ('a..b'), '\\b' stands for a leading/trailing dot",
]

MARK = "zq9marker"
SMALL = ['"', "`", "[", "]", "'", "\\", "\n", ".", " ", "a", "B", "1", "-", "@", "$", "é", "и", "_"]
TEMPLATES = {
    "column": "SELECT {q} FROM t9",
    "table": "SELECT a9 FROM {q}",
    "column_alias": "SELECT a9 AS {q} FROM t9",
    "table_alias": "SELECT a9 FROM t9 AS {q}",
    "qualifier": "SELECT {q}.c9 FROM t9",
    "argument": "SELECT f9({q}) FROM t9",
    "orderby": "SELECT a9 FROM t9 ORDER BY {q}",
    # what follows a bare word decides whether it is read as a name
    "column_then_alias": "SELECT {q} AS x9 FROM t9",
    "column_in_expression": "SELECT {q} + 1 FROM t9",
    "column_then_comma": "SELECT {q}, b9 FROM t9",
    "table_then_alias": "SELECT a9 FROM {q} AS x9",
    "join_target": "SELECT a9 FROM t9 JOIN {q} ON a9 = b9",
    "where_operand": "SELECT a9 FROM t9 WHERE {q} = 1",
}
STYLES = {
    "ansi": (lambda s: '"' + s.replace('"', '""') + '"', ["common", "sqlserver"]),
    "backtick": (lambda s: "`" + s.replace("`", "``") + "`", ["common", "mysql", "sqlserver", "bigquery"]),
    "square": (lambda s: "[" + s.replace("]", "]]") + "]", ["sqlserver"]),
}


def subst(tree, old, new):
    if isinstance(tree, dict):
        return {k: subst(v, old, new) for k, v in tree.items()}
    if isinstance(tree, list):
        return [subst(v, old, new) for v in tree]
    if isinstance(tree, str) and old in tree:
        return tree.replace(old, new)
    return tree


def text_key(s):
    if s == "":
        return "ident:empty"
    if s == "*":
        return "ident:star-name"
    if "\\" in s:
        return "ident:backslash"
    if "\n" in s:
        return "ident:newline"
    if "\r" in s:
        return "ident:carriage-return"
    if "\0" in s:
        return "ident:nul"
    return "ident:other"


def gen_texts(ctx):
    rng = ctx.rng
    out = [""]
    for n in (1, 2, 3):
        prods = list(itertools.product(SMALL, repeat=n))
        cap = 1500 if ctx.quick else 6000
        if len(prods) > cap:
            prods = rng.sample(prods, cap)
        out += ["".join(p) for p in prods]
    for _ in range(1500 if ctx.quick else 30000):
        out.append("".join(rng.choice(SMALL) for _ in range(rng.choice([4, 5, 6, 8]))))
    out += ["select", "Order", "my column", "a.b", ".a", "a.", "..", "a..b", "*", "1st", "x-y", "@v", "a$", "ñandú", "имя"]
    return out


def run(ctx):
    rep = ctx.rep
    R = C.real()
    m = R.m
    rng = ctx.rng
    from mo_dots import literal_field
    from mo_sql_parsing import utils as U

    texts = gen_texts(ctx)

    # ---------------- Tie B: decoders and literal_field
    if ctx.driver:
        bad = 0
        for what, fn, mk in [("decodeAnsiIdent", U.double_column, STYLES["ansi"][0]),
                             ("decodeBacktickIdent", U.backtick_column, STYLES["backtick"][0]),
                             ("decodeSquareIdent", U.square_column, STYLES["square"][0])]:
            toks = [mk(s) for s in texts]
            for t, a in zip(toks, ctx.driver.batch([{"op": "lex", "what": what, "text": t} for t in toks])):
                try:
                    real = {"ok": fn([t])}
                except Exception:
                    real = {"err": True}
                rep.count("tie", what)
                if a != real:
                    bad += 1
                    if bad <= 6:
                        rep.tie_break("correspondence", "Lex.%s vs utils" % what, {"token": t, "real": real, "model": a})
        for s, a in zip(texts, ctx.driver.batch([{"op": "lex", "what": "literalField", "text": s} for s in texts])):
            rep.count("tie", "literalField")
            if a != {"ok": literal_field(s)}:
                bad += 1
                if bad <= 9:
                    rep.tie_break("correspondence", "Lex.literalField vs mo_dots.literal_field", {"s": s, "model": a})
        rep.count("correspondence_mismatches", None, bad)

    # ---------------- oracle A: every quoting style gives the same name, in every position
    base = {}
    for pos, tpl in TEMPLATES.items():
        for d in ("common", "mysql", "sqlserver", "bigquery"):
            r = R.parse_raw(tpl.format(q=MARK), d)
            if r[0] == "ok":
                base[(pos, d)] = r[1]
    for s in texts:
        want_name = literal_field(s)
        tried = [("column", "ansi", "common")]
        for _ in range(2 if ctx.quick else 6):
            style = rng.choice(list(STYLES))
            tried.append((rng.choice(list(TEMPLATES)), style, rng.choice(STYLES[style][1])))
        for pos, style, d in tried:
            if (pos, d) not in base:
                continue
            sql = TEMPLATES[pos].format(q=STYLES[style][0](s))
            r = R.parse_raw(sql, d)
            rep.case("q:%s|%s|%s|%s" % (pos, style, d, s), nontrivial=len(s) >= 2)
            rep.count("position", pos)
            rep.count("style", style)
            want = subst(base[(pos, d)], MARK, want_name)
            got = {"ok": C.canon(r[1])} if r[0] == "ok" else {"$err": r[1]}
            if C.cdump(got) != C.cdump({"ok": C.canon(want)}):
                key = text_key(s)
                if key == "ident:other":
                    key = "ident:other:%s:%s" % (style, pos)
                rep.count("finding", key)
                rep.finding(key, "%s(%r) = %s ; the name is %r" % (d, sql[:100], C.cdump(got)[:160], s),
                            {"kind": "parse", "sql": sql, "dialect": d, "expected": {"ok": C.canon(want)}})

    # ---------------- oracle B: format quotes whatever needs it (both ansi_quotes settings)
    names = [literal_field(s) for s in texts if s] + list(ctx.gen["keyword_words"])
    names += ["a.b", "t1.c1", "s.t.c"]
    # a reserved word glued to a character that ends a keyword for the lexer but may be a name character for the
    # formatter's idea of a bare name (@, $, accented letters, digits, _): must be quoted, or read back as one name
    glued = []
    for w in ["not", "null", "true", "from", "select", "distinct", "union", "lateral", "case", "in", "is", "order"]:
        for tail in ["@home", "ícia", "$x", "é", "Āb", "ƿ", "9", "_x", "@", "ñ1"]:
            glued.append(w + tail)
    names += glued
    tbase = {pos: base[(pos, "common")] for pos in TEMPLATES if (pos, "common") in base}
    for n in names:
        positions = list(tbase) if (n in ctx.gen["keyword_words"] or n in glued) else [rng.choice(list(tbase)) for _ in range(2)]
        for pos in positions:
            for aq in (True, False):
                if not (n in ctx.gen["keyword_words"] or n in glued) and rng.random() < 0.5:
                    continue
                tree = subst(tbase[pos], MARK, n)
                f = R.format_raw(tree, ansi_quotes=aq)
                rep.case("f:%s|%s|%s" % (pos, aq, n), nontrivial=True)
                rep.count("format_position", pos)
                if f[0] != "ok":
                    rep.finding("ident:format-raises:%s" % f[1], "format(%s) raised %s" % (json.dumps(tree)[:100], f[1]),
                                {"kind": "format", "tree": tree, "ansi_quotes": aq})
                    continue
                # ansi_quotes=False is the style for readers that take a double-quoted text for a string literal
                r = R.parse_raw(f[1], "common" if aq else "mysql")
                got = {"ok": C.canon(r[1])} if r[0] == "ok" else {"$err": r[1]}
                rep.sample({"name": n, "position": pos, "format": f[1]})
                if C.cdump(got) != C.cdump({"ok": C.canon(tree)}):
                    if n in ctx.gen["keyword_words"]:
                        key = "ident:bare-keyword:%s:%s" % (n, pos)
                    else:
                        key = "fmt-" + text_key(n.replace("..", ".").replace("\b", "."))
                        if key == "fmt-ident:other":
                            key = "fmt-ident:other:%s" % pos
                    rep.count("finding", key)
                    rep.finding(key, "format(%s, ansi_quotes=%s) = %r parses back to %s" % (json.dumps(tree)[:120], aq, f[1][:100], C.cdump(got)[:160]),
                                {"kind": "format", "tree": tree, "ansi_quotes": aq})


def search(ctx):
    ctx.quick = False
    run(ctx)


def replay(ctx, p):
    R = C.real()
    if p["kind"] == "parse":
        r = R.parse_raw(p["sql"], p["dialect"])
        got = {"ok": C.canon(r[1])} if r[0] == "ok" else {"$err": r[1]}
        print(p["sql"], "->", C.cdump(got))
        return C.cdump(got) != C.cdump(p["expected"])
    R.format_raw(p["tree"], ansi_quotes=not p["ansi_quotes"])      # the other style first, as may happen in one process
    f = R.format_raw(p["tree"], ansi_quotes=p["ansi_quotes"])
    r = R.parse_raw(f[1], "common" if p["ansi_quotes"] else "mysql") if f[0] == "ok" else ("err", f[1])
    print(f, "->", r)
    return not (r[0] == "ok" and C.cdump(C.canon(r[1])) == C.cdump(C.canon(p["tree"])))
