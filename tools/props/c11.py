"""C11 — null=X is exactly 'replace every NULL node by X', whatever else is configured."""
import copy
import re
import json

import common as C
import pool
import scrubtie
from props.c08 import custom_op

ASSUMPTIONS = ["a {'null': {}} node in the default result is a NULL node (no function is called `null`)"]

XS = [("none", None), ("zero", 0), ("empty", ""), ("text", "NULL"), ("list", []), ("nulldict", {"null": {}}),
      ("nested", {"a": {"b": [1, 2]}})]


def subst(tree, x):
    if isinstance(tree, dict):
        if tree == {"null": {}}:
            return copy.deepcopy(x)
        return {k: subst(v, x) for k, v in tree.items()}
    if isinstance(tree, list):
        return [subst(v, x) for v in tree]
    return tree


def has_leak(t):
    if isinstance(t, dict):
        return any(has_leak(v) for v in t.values())
    if isinstance(t, list):
        return any(has_leak(v) for v in t)
    return not (t is None or isinstance(t, (str, int, float, bool)))


def inject_null(sql, rng):
    """replace one identifier-like atom of a generated statement by NULL (atoms are c<n>, <n>, 's<n>')"""
    import re
    atoms = list(re.finditer(r"\bc\d+\b|\b1\d\d\d\b|'s\d+'", sql))
    if not atoms:
        return None
    m = rng.choice(atoms)
    return sql[: m.start()] + "NULL" + sql[m.end():]


def run(ctx):
    rep = ctx.rep
    R = C.real()
    m = R.m
    if ctx.driver:
        scrubtie.run_correspondence(ctx, 2000 if ctx.quick else 30000)
    stmts = pool.statements(ctx, n_gen=300 if ctx.quick else 4000)
    stmts = pool.scripts() + stmts
    more = []
    for st in stmts:
        if st["origin"] == "gen-expr":
            for _ in range(2):
                s2 = inject_null(st["sql"], ctx.rng)
                if s2:
                    more.append({"sql": s2, "dialect": "common", "origin": "gen-null-injected"})
    stmts = stmts + more
    calls = {"simple": None, "normal": m.normal_op, "custom": custom_op}
    for st in stmts:
        if "null" not in st["sql"].lower() and ctx.rng.random() < 0.7:
            continue  # statements without NULL are only sampled
        for rnd in range(2 if ctx.quick else 6):
            dialect = st["dialect"] if rnd == 0 else ctx.rng.choice(["common", "mysql", "sqlserver", "bigquery"])
            mode = "simple" if rnd == 0 else ctx.rng.choice(list(calls))
            ac = None if rnd == 0 else ctx.rng.choice([None, "*"])
            xname, x = ctx.rng.choice(XS)
            # "whatever else is configured": the rename map too (fmap= for parse, is_null= for the dialect entry points)
            extra = {}
            if rnd > 0 and ctx.rng.random() < 0.5:
                fnames = sorted(set(w.lower() for w in re.findall(r"([A-Za-z_][A-Za-z_0-9]*)\s*\(", st["sql"])))[:6]
                fm = {n: n + "_r" for n in fnames + ["missing", "exists", "not", "neg", "isnull", "decode"]}
                extra = {("fmap" if dialect == "common" else "is_null"): fm}
            base = R.parse_raw(st["sql"], dialect, calls=calls[mode], all_columns=ac, **extra)
            got = R.parse_raw(st["sql"], dialect, calls=calls[mode], all_columns=ac, null=copy.deepcopy(x), **extra)
            rep.case("%s|%s|%s|%s|%s" % (st["sql"], dialect, mode, ac, xname), nontrivial="null" in st["sql"].lower())
            rep.count("origin", st["origin"])
            rep.count("x", xname)
            rep.count("calls", mode)
            if base[0] != "ok" or got[0] != "ok":
                rep.count("outcome", "rejected" if base[0] != "ok" and got[0] != "ok" else "differs-in-acceptance")
                if (base[0] == "ok") != (got[0] == "ok"):
                    rep.finding("acceptance-depends-on-null", "%r accepted with one null= and rejected with another" % st["sql"][:120],
                                {"sql": st["sql"], "dialect": dialect, "calls": mode, "all_columns": ac, "x": xname})
                continue
            rep.count("outcome", "ok")
            want = subst(base[1], x)
            rep.sample({"sql": st["sql"][:100], "null": xname, "calls": mode})
            leak = has_leak(base[1]) or has_leak(got[1])
            if C.cdump(C.canon(got[1])) != C.cdump(C.canon(want)) or leak:
                if leak and mode != "simple":
                    key = "%s:sole-null-arg" % ("normal_op" if mode == "normal" else "custom-calls")
                elif leak:
                    key = "leak:simple"
                else:
                    key = "subst-differs:%s" % mode
                rep.count("finding", key)
                rep.finding(key, "parse(%r, null=%s, calls=%s) = %s ; expected %s" % (
                    st["sql"][:120], xname, mode, C.cdump(C.canon(got[1]))[:200], C.cdump(C.canon(want))[:200]),
                    {"sql": st["sql"], "dialect": dialect, "calls": mode, "all_columns": ac, "x": xname, "extra": extra})


def search(ctx):
    ctx.quick = False
    run(ctx)


def replay(ctx, p):
    R = C.real()
    m = R.m
    calls = {"simple": None, "normal": m.normal_op, "custom": custom_op}
    x = dict(XS)[p["x"]]
    extra = p.get("extra") or {}
    base = R.parse_raw(p["sql"], p["dialect"], calls=calls[p["calls"]], all_columns=p["all_columns"], **extra)
    got = R.parse_raw(p["sql"], p["dialect"], calls=calls[p["calls"]], all_columns=p["all_columns"], null=copy.deepcopy(x), **extra)
    print(base)
    print(got)
    if base[0] != "ok" or got[0] != "ok":
        return (base[0] == "ok") != (got[0] == "ok")
    return has_leak(got[1]) or C.cdump(C.canon(got[1])) != C.cdump(C.canon(subst(base[1], x)))
