"""C12 — calls= and fmap= change how applications are written, never what is written."""
import copy
import json

import common as C
import pool
import scrubtie

ASSUMPTIONS = ["fmap is applied to the operation name of every application node; names of literal / structural keys are not operations"]


def to_simple(t):
    if isinstance(t, dict):
        if "op" in t and set(t) <= {"op", "args", "kwargs"} and isinstance(t["op"], str):
            kw = {k: to_simple(v) for k, v in t.get("kwargs", {}).items()}
            raw_args = t.get("args", [])
            if not isinstance(raw_args, list):
                raw_args = [raw_args]         # a damaged normal form (reported by normal_shape_ok): do not crash on it
            args = [to_simple(a) for a in raw_args] if "args" in t else None
            out = dict(kw)
            if args is None:
                out[t["op"]] = {}
            elif len(args) == 1:
                out[t["op"]] = args[0]
            else:
                out[t["op"]] = args
            return out
        return {k: to_simple(v) for k, v in t.items()}
    if isinstance(t, list):
        return [to_simple(v) for v in t]
    return t


def normal_shape_ok(t, probs, path=()):
    if isinstance(t, dict):
        if "op" in t and set(t) <= {"op", "args", "kwargs"}:
            if "args" in t and not isinstance(t["args"], list):
                probs.append(("args-not-a-list", path))
            if "kwargs" in t and (not isinstance(t["kwargs"], dict) or not t["kwargs"]):
                probs.append(("kwargs-empty-or-not-dict", path))
        for k, v in t.items():
            normal_shape_ok(v, probs, path + (k,))
    elif isinstance(t, list):
        for i, v in enumerate(t):
            normal_shape_ok(v, probs, path + (i,))


def op_names(t, acc):
    """operation names of a statement = the "op" fields of its normal form (every application node)"""
    if isinstance(t, dict):
        if "op" in t and set(t) <= {"op", "args", "kwargs"} and isinstance(t["op"], str):
            acc.add(t["op"])
        for v in t.values():
            op_names(v, acc)
    elif isinstance(t, list):
        for v in t:
            op_names(v, acc)
    return acc


def rename(t, fm):
    """normal-form tree with operation f renamed to g (simultaneously)"""
    if isinstance(t, dict):
        if "op" in t and set(t) <= {"op", "args", "kwargs"} and isinstance(t["op"], str):
            out = {k: rename(v, fm) for k, v in t.items()}
            out["op"] = fm.get(t["op"], t["op"])
            return out
        return {k: rename(v, fm) for k, v in t.items()}
    if isinstance(t, list):
        return [rename(v, fm) for v in t]
    return t


def rename_keys(t, fm):
    if isinstance(t, dict):
        return {fm.get(k, k): rename_keys(v, fm) for k, v in t.items()}
    if isinstance(t, list):
        return [rename_keys(v, fm) for v in t]
    return t


def run(ctx):
    rep = ctx.rep
    R = C.real()
    m = R.m
    if ctx.driver:
        scrubtie.run_correspondence(ctx, 2000 if ctx.quick else 30000)
    stmts = pool.statements(ctx, n_gen=400 if ctx.quick else 5000)
    stmts = pool.scripts() + stmts
    shared_subject_battery(ctx, R)
    for st in stmts:
        for rnd in range(1 if ctx.quick else 3):
            dialect = st["dialect"]
            ac = None if rnd == 0 else ctx.rng.choice([None, "*"])
            nkw = {} if rnd == 0 or ctx.rng.random() < 0.5 else {"null": None}
            base = R.parse_raw(st["sql"], dialect, all_columns=ac, **nkw)
            if base[0] != "ok":
                continue
            rep.count("origin", st["origin"])
            # ---- calls=normal_op
            nrm = R.parse_raw(st["sql"], dialect, all_columns=ac, calls=m.normal_op, **nkw)
            rep.case("normal|%s|%s|%s" % (st["sql"], ac, bool(nkw)))
            if nrm[0] != "ok":
                rep.finding("normal_op:acceptance", "%r accepted by default and rejected with calls=normal_op (%s)" % (st["sql"][:120], nrm[1]),
                            {"sql": st["sql"], "dialect": dialect, "all_columns": ac, "null_none": bool(nkw), "what": "normal"})
            else:
                probs = []
                normal_shape_ok(nrm[1], probs)
                back = to_simple(nrm[1])
                if probs:
                    key = "normal-shape:%s" % probs[0][0]
                    if "range" in probs[0][1] and "over" in probs[0][1]:
                        # a call inside a window frame offset: windows.py simplifies the offset inside the parse action and
                        # the result is simplified again with the rest of the statement (one-element `args` unwrapped)
                        key += ":frame-offset"
                    rep.finding(key, "parse(%r, calls=normal_op): %s at %s" % (st["sql"][:120], probs[0][0], list(probs[0][1])),
                                {"sql": st["sql"], "dialect": dialect, "all_columns": ac, "null_none": bool(nkw), "what": "normal"})
                elif C.cdump(C.canon(back)) != C.cdump(C.canon(base[1])):
                    leak = "$obj" in C.cdump(C.canon(nrm[1]))
                    key = "normal_op:sole-null-arg" if leak else "normal-to-simple-differs"
                    rep.count("finding", key)
                    rep.finding(key, "to_simple(parse(%r, calls=normal_op)) = %s ; parse = %s" % (
                        st["sql"][:120], C.cdump(C.canon(back))[:200], C.cdump(C.canon(base[1]))[:200]),
                        {"sql": st["sql"], "dialect": dialect, "all_columns": ac, "null_none": bool(nkw), "what": "normal"})
            # ---- fmap
            if nrm[0] != "ok":
                continue
            names = sorted(op_names(nrm[1], set()))
            if not names:
                continue
            fms = []
            k = ctx.rng.choice([1, 1, 2])
            chosen = ctx.rng.sample(names, min(k, len(names)))
            if len(chosen) == 2 and ctx.rng.random() < 0.5:
                fms.append({chosen[0]: chosen[1], chosen[1]: chosen[0]})  # swap
            else:
                fms.append({c: c + "_renamed" for c in chosen})
            if "null" in st["sql"].lower() and st["origin"] != "corpus":
                fms += [{n: n + "_renamed"} for n in names]
            if dialect != "common":
                continue  # only parse() takes fmap
            for fm in fms:
                check_fmap(ctx, R, st, dialect, ac, nkw, nrm, fm)


# statements in which the library puts ONE node under several parents (the subject of a simple CASE is compared with
# every WHEN value): a rename must be applied to what is written, once per written occurrence, however the map looks
SHARED_SUBJECT = [
    "select case a + b when 1 then 'x' when 2 then 'y' when 3 then 'z' end from t",
    "select case f(a) when 1 then 'x' when g(2) then 'y' else 'w' end from t",
    "select case a * b when c * d then 1 when e then 2 end as k, a * b from t where case f(x) when 1 then true when 2 then false end",
    "select case when a + b = 1 then 'x' when a + b = 2 then 'y' end from t",
    "select case a || b when 'p' then 1 when 'q' then 2 when 'r' then 3 when 's' then 4 end from t order by case f(a) when 1 then 2 when 3 then 4 end",
    "select f(a), f(a), f(f(a)) from t where f(a) = f(a)",
    "select case -a when 1 then 2 when 3 then 4 end, case not a when true then 1 when false then 2 end from t",
]


def shared_subject_battery(ctx, R):
    m = R.m
    for sql in SHARED_SUBJECT:
        st = {"sql": sql, "dialect": "common", "origin": "shared-subject"}
        for nkw in ({}, {"null": None}):
            nrm = R.parse_raw(sql, "common", calls=m.normal_op, **nkw)
            if nrm[0] != "ok":
                continue
            names = sorted(op_names(nrm[1], set()))
            fms = []
            for i, a in enumerate(names):
                fms.append({a: a + "_renamed"})
                for b in names[i + 1:]:
                    fms.append({a: b, b: a})  # swap
                    fms.append({a: b, b: "third"})  # chain
                    fms.append({b: a, a: "third"})
            if len(names) >= 3:
                fms.append({names[k]: names[(k + 1) % len(names)] for k in range(len(names))})  # rotation
            for fm in fms:
                check_fmap(ctx, R, st, "common", None, nkw, nrm, fm)


def check_fmap(ctx, R, st, dialect, ac, nkw, nrm, fm):
    rep = ctx.rep
    got = R.parse_raw(st["sql"], dialect, all_columns=ac, fmap=fm, **nkw)
    rep.case("fmap|%s|%s" % (st["sql"], json.dumps(fm, sort_keys=True)))
    rep.count("fmap_size", len(fm))
    if got[0] != "ok":
        rep.finding("fmap:acceptance", "%r rejected with fmap=%s (%s)" % (st["sql"][:120], fm, got[1]),
                    {"sql": st["sql"], "dialect": dialect, "all_columns": ac, "null_none": bool(nkw), "what": "fmap", "fmap": fm})
        return
    shape = []
    normal_shape_ok(nrm[1], shape)
    if "$obj" in C.cdump(C.canon(nrm[1])) or shape:
        # the normal form itself is damaged (known findings normal_op:sole-null-arg, normal-shape:…:frame-offset): fall
        # back to renaming the keys of the default tree that are operation names of this statement
        base = R.parse_raw(st["sql"], dialect, all_columns=ac, **nkw)
        want = rename_keys(base[1], fm)
    else:
        want = to_simple(rename(nrm[1], fm))
    rep.sample({"sql": st["sql"][:100], "fmap": fm})
    if C.cdump(C.canon(got[1])) != C.cdump(C.canon(want)):
        key = "fmap-differs:" + ",".join(sorted(fm))[:80]
        if "$obj" in C.cdump(C.canon(got[1])):
            key = "fmap:sole-null-arg"
        rep.count("finding", key)
        rep.finding(key, "parse(%r, fmap=%s) = %s ; expected %s" % (
            st["sql"][:120], fm, C.cdump(C.canon(got[1]))[:200], C.cdump(C.canon(want))[:200]),
            {"sql": st["sql"], "dialect": dialect, "all_columns": ac, "null_none": bool(nkw), "what": "fmap", "fmap": fm})


def search(ctx):
    ctx.quick = False
    run(ctx)


def replay(ctx, p):
    R = C.real()
    m = R.m
    nkw = {"null": None} if p.get("null_none") else {}
    base = R.parse_raw(p["sql"], p["dialect"], all_columns=p["all_columns"], **nkw)
    print("default:", base)
    if p["what"] == "normal":
        nrm = R.parse_raw(p["sql"], p["dialect"], all_columns=p["all_columns"], calls=m.normal_op, **nkw)
        print("normal:", nrm)
        if base[0] != "ok" or nrm[0] != "ok":
            return base[0] != nrm[0]
        probs = []
        normal_shape_ok(nrm[1], probs)
        return bool(probs) or C.cdump(C.canon(to_simple(nrm[1]))) != C.cdump(C.canon(base[1]))
    got = R.parse_raw(p["sql"], p["dialect"], all_columns=p["all_columns"], fmap=p["fmap"], **nkw)
    print("fmap:", got)
    if base[0] != "ok" or got[0] != "ok":
        return base[0] != got[0]
    nrm = R.parse_raw(p["sql"], p["dialect"], all_columns=p["all_columns"], calls=m.normal_op, **nkw)
    return C.cdump(C.canon(got[1])) != C.cdump(C.canon(to_simple(rename(nrm[1], p["fmap"]))))
