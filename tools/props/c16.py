"""C16 — concurrent calls from several threads behave as if run one at a time."""
import json
import os
import subprocess

import common as C
from props import c15

ASSUMPTIONS = [
    "the theorem is about the lock protocol read from the source; CPython's scheduler, the parser build inside the lock, "
    "mo_parsing's own global whitespace stack and format's keyword probe (which runs outside parse_locker) are exercised "
    "by the soak only",
    "every soak runs in a fresh interpreter with sys.setswitchinterval(1e-6); the expected outcome of a call is that "
    "call alone in a fresh interpreter; a soak that does not finish within its deadline is reported as a deadlock",
]


def run_threads(progs, warm, deadline=240):
    req = {"threads": progs, "warm": warm, "switch": 1e-6}
    try:
        p = subprocess.run([C.PY, "-W", "ignore", c15.WORKER], input=json.dumps(req).encode(), capture_output=True, timeout=deadline,
                           env=dict(os.environ, VERIF_REPO=C.REPO))
    except subprocess.TimeoutExpired:
        return None
    if p.returncode != 0:
        raise C.InfraError("thread worker failed: " + p.stderr.decode("utf8", "replace")[-800:])
    return json.loads(p.stdout.decode("utf8"))


def run(ctx, scale=1):
    rep = ctx.rep
    rng = ctx.rng
    A = c15.alphabet() + [pc for name, pc in c15.probes() if not name.startswith("operators:") and name != "process-settings"]
    # drop the deliberately slow / huge ones: none; reference = each distinct call alone in a fresh interpreter
    keys = [json.dumps(c, sort_keys=True) for c in A]
    uniq = {}
    for k, c in zip(keys, A):
        uniq.setdefault(k, c)
    ks = list(uniq)
    ref = c15.pmap(lambda k: C.cdump(c15.run_history([uniq[k]])[0]), ks)
    expected = dict(zip(ks, ref))
    calls = [uniq[k] for k in ks]
    entry = {}
    for c in calls:
        entry.setdefault(c["fn"], []).append(c)

    soaks = []
    # every ordered pair of entry points as (victim, intruder), neighbouring calls differing in options
    fns = list(entry)
    pairs = [(a, b) for a in fns for b in fns]
    if ctx.quick:
        pairs = rng.sample(pairs, min(len(pairs), 8 * scale))
    for a, b in pairs:
        n = 30 if ctx.quick else 120
        soaks.append(("pair:%s/%s" % (a, b), [[rng.choice(entry[a]) for _ in range(n)], [rng.choice(entry[b]) for _ in range(n)]], rng.random() < 0.5))
    for _ in range((8 if ctx.quick else 60) * scale):
        nt = rng.choice([2, 3, 4, 8, 16])
        n = max(6, (160 if ctx.quick else 600) // nt)
        soaks.append(("mixed:%d" % nt, [[rng.choice(calls) for _ in range(n)] for _ in range(nt)], rng.random() < 0.5))
    # cold start: many threads ask for parsers that do not exist yet
    for _ in range((3 if ctx.quick else 20) * scale):
        nt = rng.choice([4, 8, 16])
        soaks.append(("cold:%d" % nt, [[rng.choice(calls) for _ in range(4)] for _ in range(nt)], False))

    # first use of every parser (cold start) while another thread formats trees with bare names: the keyword probe of
    # format runs the shared grammar, a parser build pushes the engine's global whitespace stack
    fmt_calls = [c for c in calls if c["fn"] == "format"] or [{"fn": "format", "tree": {"select": {"value": "a"}, "from": "order"}}]
    builds = [c15.call(fn, "select 1", **({"all_columns": ac} if ac else {})) for fn in c15.FNS for ac in (None, "*")]
    for c in builds:
        k = json.dumps(c, sort_keys=True)
        if k not in expected:
            expected[k] = C.cdump(c15.run_history([c])[0])
    for rep_i in range((3 if ctx.quick else 20) * scale):
        order = list(builds)
        rng.shuffle(order)
        soaks.append(("cold-build-vs-format", [[rng.choice(fmt_calls) for _ in range(60)], order] + ([[rng.choice(fmt_calls) for _ in range(60)]] if rep_i % 2 else []), False))

    results = c15.pmap(lambda s: run_threads(s[1], s[2]), soaks, n=6)
    for (name, progs, warm), outs in zip(soaks, results):
        rep.count("soak", name.split(":")[0] + (":warm" if warm else ":cold"))
        rep.case(name + json.dumps(progs, sort_keys=True)[:2000])
        if outs is None:
            rep.finding("deadlock", "%s: %d threads did not finish within the deadline" % (name, len(progs)),
                        {"kind": "soak", "threads": progs, "warm": warm})
            continue
        for ti, (prog, tout) in enumerate(zip(progs, outs)):
            for ci, (c, o) in enumerate(zip(prog, tout)):
                rep.count("calls_checked")
                k = json.dumps(c, sort_keys=True)
                got = C.cdump(o)
                if got != expected[k]:
                    what = "%s: thread %d call %d %s returned %s, alone it returns %s" % (name, ti, ci, k[:140], got[:140], expected[k][:140])
                    rep.finding("interference:" + c["fn"], what, {"kind": "soak", "threads": progs, "warm": warm, "thread": ti, "call": ci})
    rep.sample({"threads": 2, "example_call": calls[0], "alone": json.loads(expected[ks[0]])})


def search(ctx):
    run(ctx, scale=3)


def replay(ctx, p):
    bad = False
    for attempt in range(5):
        outs = run_threads(p["threads"], p.get("warm", False))
        if outs is None:
            print("deadline exceeded")
            return True
        for prog, tout in zip(p["threads"], outs):
            for c, o in zip(prog, tout):
                alone = C.cdump(c15.run_history([c])[0])
                if C.cdump(o) != alone:
                    print(json.dumps(c)[:200], C.cdump(o)[:200], alone[:200])
                    bad = True
        if bad:
            break
    return bad
