"""C05 — an accepted statement loses no identifier, number or string."""
import json
import re

import common as C
import gen_query as Q
import pool

ASSUMPTIONS = [
    "atoms are located by an independent tokenizer (quoted strings, quoted identifiers, numbers, bare words that are not "
    "keyword words of the grammar graph); a fresh atom counts as present if it occurs in any key or value of the tree, "
    "case-insensitively, as a number with either sign, or inside a dotted path",
]

TOKEN = re.compile(
    r"""(?P<comment>--[^\n]*|\#[^\n]*|/\*.*?\*/)
      |(?P<str>'(?:''|[^'])*')
      |(?P<qid>"(?:""|[^"])*"|`(?:``|[^`])*`)
      |(?P<num>(?<![A-Za-z_0-9.$@])\d+(?:\.\d+)?(?![A-Za-z_0-9.]))
      |(?P<word>[A-Za-z_][A-Za-z0-9_]*)
      |(?P<other>\S)""",
    re.S | re.X,
)


def tokens(sql):
    out = []
    for m in TOKEN.finditer(sql):
        kind = m.lastgroup
        if kind == "comment":
            continue
        out.append((kind, m.start(), m.end(), m.group(0)))
    return out


def contains(tree, kind, fresh):
    """is the fresh atom anywhere in the tree?"""
    low = fresh.lower() if isinstance(fresh, str) else None

    def walk(x):
        if isinstance(x, dict):
            return any((low is not None and isinstance(k, str) and low in k.lower()) or walk(v) for k, v in x.items())
        if isinstance(x, list):
            return any(walk(v) for v in x)
        if isinstance(x, bool):
            return False
        if isinstance(x, (int, float)):
            return kind == "num" and (x == fresh or x == -fresh)
        if isinstance(x, str):
            if kind == "num":
                return str(fresh) in x
            return low in x.lower()
        return False

    return walk(tree)


SETOP_RE = re.compile(r"\b(union|intersect|except|minus)\b", re.I)


def has_operator_token_as_operand(t):
    """make_tree took an operator token for an operand ('a + ~ b' -> {"add": ["a", "~"]})"""
    if isinstance(t, dict):
        for k, v in t.items():
            kids = v if isinstance(v, list) else [v]
            if any(isinstance(x, str) and x in ("~", "not", "-", "+") for x in kids):
                return True
            if has_operator_token_as_operand(v):
                return True
    elif isinstance(t, list):
        return any(has_operator_token_as_operand(v) for v in t)
    return False


_GAP = r"(?:\s|/\*.*?\*/|--[^\n]*\n|\#[^\n]*\n)+"        # white space and comments between two tokens
FETCH_INTO_RE = re.compile(r"\bfetch" + _GAP + r"[\w.`\"]+" + _GAP + r"into" + _GAP + r"([^;]*)", re.I | re.S)


def root_cause(sql, tree, span=None):
    if span is not None:
        # `FETCH cursor INTO a, b`: the grammar does not name the target list, every target is forgotten
        for m in FETCH_INTO_RE.finditer(sql):
            if m.start(1) <= span[0] and span[1] <= m.end(1):
                return "dropped:fetch-into-targets"
    if has_operator_token_as_operand(tree):
        return "dropped:prefix-operator-right-of-tighter-operator"
    if re.search(r"\bfilter\s*\(.*\)\s*over\b", sql, re.I | re.S):
        return "dropped:filter-then-over"
    if re.search(r"::\s*\w+(?:\s*\([\d\s,]*\))?\s*\.\s*\w", sql):
        # the same engine behaviour as filter-then-over: a tighter suffix operator (.field) written behind a looser one (::type)
        return "dropped:cast-then-accessor"
    if SETOP_RE.search(sql) and re.search(r"\b(fetch|for\s+update|for\s+share)\b", sql, re.I):
        return "dropped:setop-fetch-or-locking"
    return None


def run(ctx, scale=1):
    rep = ctx.rep
    R = C.real()
    if ctx.driver:
        # Tie B for `scrub_loses_no_content`: the scrub model against the real _parse + scrub on generated raw trees
        import scrubtie
        scrubtie.run_correspondence(ctx, (1500 if ctx.quick else 20000) * scale)
    kw = set(ctx.gen["keyword_words"])
    stmts = pool.statements(ctx, n_gen=(500 if ctx.quick else 8000) * scale)
    g = Q.QueryGen(ctx.rng, ctx.gen["ops"])
    for _ in range((300 if ctx.quick else 6000) * scale):
        g.n = 0
        stmts.append({"sql": Q.render(g.query(subdepth=ctx.rng.choice([0, 1]))), "dialect": "common", "origin": "gen-query"})
    # expressions with the full operator zoo (prefix operators right of tighter ones etc.)
    stmts += pool.expr_statements(ctx, (300 if ctx.quick else 5000) * scale, depth=(2, 3))
    stmts += [{"sql": s, "dialect": "common", "origin": "targeted"} for s in [
        "select a1 + ~ b2 from t3", "select a1 = not b2 from t3", "select sum(x1) filter (where c2 > 3) over (partition by p4 order by o5) from t6",
        # a WITH clause inside parentheses, at the top and below
        "(with w1 as (select 5 as k2) select k2 from w1)", "((with w1 as (select 5 as k2) select k2 from w1))", "(with w1 as (select 5 as k2) select k2 from w1) order by k2",
        "select a1 from t2 where b3 in (with w4 as (select 6 as k5) select k5 from w4)", "with w1 as (select 5 as k2) (select k2 from w1)",
        # suffix operators behind one another, tighter behind looser and the reverse
        "select a1::int.b2 from t3", "select f1(a2)::varchar(7).b3 + 4 from t5", "select (a1::int).b2, a3.b4::int, f5(a6).b7::text, (a8).b9.c10 from t3",
        "select a1:b2.c3::int, f4(x5):y6 from t7", "select sum(x1) over (order by o2) filter (where y3 > 4) from t5",
        # aggregate modifiers in every order the grammar accepts
        "select percentile_cont(0.5) within group (order by x1) filter (where y2 > 3) from t4",
        "select percentile_cont(0.25) within group (order by x1 desc) over (partition by p5) from t4",
        "select sum(x1) over (partition by p5 order by o6) filter (where y2 > 3) from t4",
        "select a1 from t4 group by a1 having percentile_cont(0.5) within group (order by x2) filter (where y3 > 4) > 7",
        "select count(distinct x1) filter (where y2 > 3), array_agg(x4 order by z6) filter (where y5 > 8) from t7",
        "select a1 from t2 union select b3 from u4 fetch first 5 rows only", "select a1 from t2 union select b3 from u4 for update of z9",
        "select a1 between b2 and c3 from t4", "select a1 from t2 where x3 in (select y4 from u5) and z6 like 's7'",
        "insert into t1 (c2, c3) values (4, 's5'), (6, 's7')", "insert into t1 (col2) values (4), (6)", "insert into t1 (col2) values ('s4'), ('s6'), ('s8')",
        "replace into t1 (col2) values (4), (6)", "insert into t1 (col2) values (4)", "with w1 as (select 5 as five2) insert into target3 (total4) values (10), (20)", "update t1 set c2 = 3, c4 = 's5' where c6 = 7",
        "create table t1 (c2 int not null default 3, c4 varchar(10) default 's5', primary key (c2))",
        # comment markers inside literals, quoted names and line comments are content, not comments
        "select a1 from t2 where p3 = '/*' and q4 = 31 and r5 = '*/'", "select '--', b2, '#', c3 from t4 where d5 = '/* x */' or e6 = 7",
        "select a1 -- /* not a block\n , b2 /* real */ , c3 from t4", "select `a/*b`, c2, `d*/e` from t3", "select a1 # /* x\n , b2 from t3 /* y */ where c4 = 5",
        "select 'a;b', c2, 'd;e' from t3; select f4 from g5", "select a1, '*/', b2, '/*', c3 from t4", "select \"x/*y\", b2, \"z*/w\" from t3",
    ]]
    # a query with its own ORDER BY / LIMIT / OFFSET / FETCH inside parentheses that wrap it directly (the tail belongs
    # to the parenthesised query, not to an enclosing set operation): as a statement, doubled in FROM / IN, as the
    # source of INSERT / CREATE TABLE AS, behind a CTE
    tails = ["order by b2 limit 3", "order by b2 desc", "limit 7 offset 2", "order by b2, c3 limit 4 offset 5", "fetch first 6 rows only", "order by b2 offset 9"]
    wrapped = []
    for i, tl in enumerate(tails):
        q = "select a1 from t9 where d4 = %d %s" % (40 + i, tl)
        wrapped += ["(%s)" % q, "((%s))" % q, "select x5 from ((%s)) y6" % q, "select x5 from t7 where z8 in ((%s))" % q,
                    "insert into n5 (%s)" % q, "create table n5 as (%s)" % q, "with w6 as (select 1 as x7) (%s)" % q,
                    "(%s) union all select e5 from u6" % q, "select e5 from u6 union (%s)" % q, "(%s) order by f7" % q]
    stmts += [{"sql": q, "dialect": "common", "origin": "wrapped-tail"} for q in wrapped]
    # the same statements with comments between tokens (several per statement: an identifier must not get lost
    # between two comments either)
    from props import c09
    COMMENTS = ["/* x */", "/** h **/", "/***/", "/****/", "-- y\n", "# z\n", "/* a\n * b\n **/", "/*****/"]
    commented = []
    for st in ctx.rng.sample(stmts, min(len(stmts), (250 if ctx.quick else 4000) * scale)):
        lx = c09.lex(st["sql"])
        if not lx or "\\" in st["sql"] or "@" in st["sql"]:
            continue
        gaps = [k for k, (kind, text, pos) in enumerate(lx) if kind == "ws" and 0 < k < len(lx) - 1
                and lx[k - 1][0] != "cm" and lx[k + 1][0] != "cm"]
        if len(gaps) < 2:
            continue
        pick = set(ctx.rng.sample(gaps, min(len(gaps), ctx.rng.choice([2, 2, 3]))))
        out = []
        for k, (kind, text, pos) in enumerate(lx):
            out.append((" " + ctx.rng.choice(COMMENTS) + " ") if k in pick else text)
        commented.append({"sql": "".join(out), "dialect": st["dialect"], "origin": "commented"})
    stmts += commented
    n_sub = 0
    for st in stmts:
        sql = st["sql"]
        base = R.parse_raw(sql, st["dialect"])
        if base[0] != "ok" or base[1] is None:
            continue
        toks = tokens(sql)
        cands = [(i, t) for i, t in enumerate(toks) if t[0] in ("str", "qid", "num") or (t[0] == "word" and t[3].lower() not in kw)]
        if not cands:
            continue
        picks = cands if len(cands) <= (6 if ctx.quick else 40) else ctx.rng.sample(cands, 6 if ctx.quick else 40)
        for i, (kind, a, b, text) in picks:
            n_sub += 1
            if kind == "num":
                fresh_v = 70000 + (n_sub % 20000) * 3 + 1
                fresh_text = str(fresh_v) + (".5" if "." in text else "")
                fresh_v = float(fresh_text) if "." in text else fresh_v
                k2 = "num"
            elif kind == "str":
                fresh_v = "zqs%dq" % n_sub
                fresh_text = "'" + fresh_v + "'"
                k2 = "str"
            elif kind == "qid":
                fresh_v = "zqi%dq" % n_sub
                fresh_text = text[0] + fresh_v + text[-1]
                k2 = "ident"
            else:
                fresh_v = "zqw%dq" % n_sub
                fresh_text = fresh_v
                k2 = "ident"
            new_sql = sql[:a] + fresh_text + sql[b:]
            r = R.parse_raw(new_sql, st["dialect"])
            rep.case(new_sql)
            rep.count("origin", st["origin"])
            rep.count("atom", k2)
            if r[0] != "ok":
                rep.count("outcome", "rejected-after-substitution")
                continue
            rep.count("outcome", "accepted")
            rep.sample({"sql": new_sql[:160], "fresh": fresh_text})
            if not contains(r[1], "num" if k2 == "num" else k2, fresh_v):
                prev = [t[3].upper() for t in toks[max(0, i - 3):i]]
                ctxt = next((p for p in reversed(prev) if p.lower() in kw or not p[0].isalnum()), prev[-1] if prev else "START")
                key = root_cause(new_sql, r[1], (a, a + len(fresh_text)))
                if key is None and st.get("e") is not None and ctx.driver:
                    # does the Lean model of make_tree predict that this written expression leaves tokens behind?
                    ans = ctx.driver.batch([{"op": "expr", "e": st["e"]}])[0]
                    if ans.get("drops"):
                        key = "dropped:prefix-operator-right-of-tighter-operator"
                key = key or "dropped:%s:after:%s" % (k2, ctxt[:12])
                rep.count("finding", key)
                rep.finding(key, "parse(%r) is accepted but %s is not in the tree %s" % (new_sql[:200], fresh_text, C.cdump(C.canon(r[1]))[:240]),
                            {"sql": new_sql, "dialect": st["dialect"], "fresh": fresh_v if not isinstance(fresh_v, float) else fresh_v, "kind": k2})


def search(ctx):
    run(ctx, scale=3)


def replay(ctx, p):
    R = C.real()
    r = R.parse_raw(p["sql"], p["dialect"])
    print(p["sql"], "->", r)
    if r[0] != "ok":
        return False
    return not contains(r[1], "num" if p["kind"] == "num" else p["kind"], p["fresh"])
