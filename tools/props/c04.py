"""C04 — format preserves meaning for every well-formed tree, not only parser output."""
import json
import re

import common as C
import gen_tree as GT

ASSUMPTIONS = [
    "trees are in simplified normal form (flattened operators never nest directly; no negated numeric literal)",
    "the theorem covers the renderers built by Operator(...); the hand-written renderers (_not, _missing, _between, _in, "
    "_regexp, _binary_not, _case, _cast, function calls) are covered by the exhaustive depth-2 oracle and random deeper trees",
]

# hand-written renderers that never parenthesise themselves, whatever `prec` they are called with
INNER_IGNORES_PREC = {"regexp", "not_regexp", "not", "binary_not", "missing", "exists", "between", "not_between"}
# hand-written renderers that dispatch their operands with a fixed (too loose) precedence
OUTER_HANDWRITTEN = {"not", "binary_not", "regexp", "not_regexp", "between", "not_between", "missing", "exists",
                     "in", "nin", "neg", "cast", "case", "concat", "fn", "collate"}


def rule_of(triple):
    """finding key for a failing depth-2 tree: one key per renderer rule, the affected (outer, slot) /
    (slot, inner) pairs are listed under "covers" in known_findings.json so that a NEW pair is still reported"""
    o, s, i = triple
    if i in INNER_IGNORES_PREC:
        return "fmt-rule:inner-ignores-prec:%s" % i, "%s,%d" % (o, s)
    if o in OUTER_HANDWRITTEN:
        return "fmt-rule:outer-fixed-prec:%s" % o, "%d,%s" % (s, i)
    if i in ("in", "nin"):
        return "fmt-rule:inner-in-family:%s" % i, "%s,%d" % (o, s)
    return "fmt-triple:%s,%d,%s" % triple, None


def raise_key(obs):
    m = re.match(r"format raised (\w+): (.*)", obs)
    if not m:
        return None
    return "fmt-raises:%s:%s" % (m.group(1), re.sub(r"'\w+'", "T", m.group(2))[:60])


# JSON operator name -> key of the parser's operator table (hand-written renderers)
HAND_KEY = {"not": "not", "binary_not": "u~", "between": "between", "not_between": "not between", "in": "in", "collate": "collate",
            "nin": "not in", "missing": "is", "exists": "is not", "regexp": "regexp", "not_regexp": "not regexp"}
ATOMIC = {"fn", "concat", "neg", "cast", "case"}  # written in function / keyword syntax: operands are enclosed


def level_table(gen):
    lv = {o["key"]: o["level"] for o in gen["ops"]}
    out = {}
    for o in gen["fmt_ops"]:
        if o.get("key") in lv:
            out[o["name"]] = lv[o["key"]]
    for name, key in HAND_KEY.items():
        if key in lv:
            out[name] = lv[key]
    return out


def parser_keeps(levels, outer, slot, inner):
    """would the parser keep `inner`, written WITHOUT parentheses, as operand `slot` of `outer`?"""
    if outer in ATOMIC or inner in ATOMIC:
        return True
    if outer in ("in", "nin") and slot == 1:
        return True
    if outer not in levels or inner not in levels:
        return True
    lo, li = levels[outer], levels[inner]
    if slot == 0:
        return li <= lo
    return li < lo


def norm_sql(s):
    return re.sub(r"\s+", "", s).upper()


EMBED = ["select", "where", "on", "having", "arg"]


def embed(kind, t):
    if kind == "select":
        return {"select": {"value": t}}, lambda r: r["select"]["value"]
    if kind == "where":
        return {"select": {"value": "x"}, "from": "t", "where": t}, lambda r: r["where"]
    if kind == "on":
        return ({"select": {"value": "x"}, "from": ["t", {"join": "u", "on": t}]},
                lambda r: r["from"][1]["on"])
    if kind == "having":
        return ({"select": {"value": "x"}, "from": "t", "groupby": {"value": "g"}, "having": t},
                lambda r: r["having"])
    return {"select": {"value": {"f99": [t, "z"]}}}, lambda r: r["select"]["value"]["f99"][0]


def roundtrip(R, kind, t):
    """-> (ok, observed description)"""
    q, get = embed(kind, t)
    f = R.format_raw(q)
    if f[0] != "ok":
        return False, "format raised %s: %s" % (f[1], f[2][:80]), None
    r = R.parse_raw(f[1])
    if r[0] != "ok":
        return False, "%r does not parse (%s)" % (f[1], r[1]), f[1]
    try:
        back = get(r[1])
    except Exception:
        return False, "%r parses to a different shape: %s" % (f[1], C.cdump(C.canon(r[1]))[:200]), f[1]
    if C.cdump(C.canon(back)) != C.cdump(C.canon(t)):
        return False, "%r parses back to %s" % (f[1], C.cdump(C.canon(back))[:200]), f[1]
    return True, "", f[1]


def kids_of(g, t):
    r = g.root(t)
    v = next(iter(t.values()))
    if r == "case":
        return [("case", 0, v[0]["when"]), ("case", 1, v[0]["then"]), ("case", 2, v[1])]
    if r in ("cast", "collate"):
        return [(r, 0, v[0])]
    if isinstance(v, list):
        return [(r, i, k) for i, k in enumerate(v)]
    return [(r, 0, v)]


def replace_at(g, t, path, new):
    if not path:
        return new
    t = json.loads(json.dumps(t))
    r = g.root(t)
    k = next(iter(t))
    v = t[k]
    i = path[0]
    if r == "case":
        if i == 0:
            v[0]["when"] = replace_at(g, v[0]["when"], path[1:], new)
        elif i == 1:
            v[0]["then"] = replace_at(g, v[0]["then"], path[1:], new)
        else:
            v[1] = replace_at(g, v[1], path[1:], new)
    elif r in ("cast", "collate"):
        v[0] = replace_at(g, v[0], path[1:], new)
    elif isinstance(v, list):
        v[i] = replace_at(g, v[i], path[1:], new)
    else:
        t[k] = replace_at(g, v, path[1:], new)
    return t


def op_paths(g, t, pre=()):
    out = []
    if g.root(t) is None:
        return out
    for r, i, k in kids_of(g, t):
        if g.root(k) is not None:
            out.append(pre + (i,))
            out += op_paths(g, k, pre + (i,))
    return out


def shrink(R, g, t, kind):
    """smallest failing tree: hoist failing subtrees, replace operator subtrees by an atom while it still fails"""
    def fails(x):
        return not roundtrip(R, kind, x)[0]

    changed = True
    while changed:
        changed = False
        for r, i, k in kids_of(g, t):
            if g.root(k) is not None and fails(k):
                t = k
                changed = True
                break
        if changed:
            continue
        for p in sorted(op_paths(g, t), key=len):
            t2 = replace_at(g, t, list(p), "z9")
            if fails(t2):
                t = t2
                changed = True
                break
    return t


LOOSE_INNER = INNER_IGNORES_PREC | {"in", "nin"}


def deep_key(g, m):
    """classify a minimal deep failure by its culprit: the deepest operand whose renderer never parenthesises
    itself (or belongs to the IN family), together with the slot it sits in.  Depth-2 measurement cannot see these:
    `a BETWEEN NOT b AND c` happens to parse back alone, but not as an operand of a third operator."""
    best = None

    def walk(t, depth):
        nonlocal best
        if g.root(t) is None:
            return
        for r, i, k in kids_of(g, t):
            kr = g.root(k)
            if kr is not None:
                if kr in LOOSE_INNER and (best is None or depth >= best[0]):
                    best = (depth, r, i, kr)
                walk(k, depth + 1)

    walk(m, 0)
    if best is None:
        return None
    _, parent, slot, inner = best
    if inner in INNER_IGNORES_PREC:
        return "fmt-rule:inner-ignores-prec:%s" % inner, "deep:%s,%d" % (parent, slot)
    return "fmt-rule:inner-in-family:%s" % inner, "deep:%s,%d" % (parent, slot)


def run(ctx, budget=None):
    rep = ctx.rep
    R = C.real()
    g = GT.TreeGen(ctx.rng, ctx.gen["fmt_ops"])
    fmt_names = set(g.fmt)
    known_edges = set()

    # ---- Tie A twin: rows of the regenerated table that break the soundness obligation must be exactly
    # the failures measured on the real formatter+parser
    table_bad = set()
    if ctx.driver:
        tb = ctx.driver.batch([{"op": "fmtTable"}])[0]
        table_bad = {tuple(x) for x in tb["bad"]}
    rep.coverage["table_rows_needing_known_entry"] = sorted("%s,%d,%s" % t for t in table_bad)

    # ---- exhaustive depth 2
    d2 = list(g.depth2())
    measured_bad = set()
    risky = set()
    levels = level_table(ctx.gen)
    reqs, req_meta = [], []
    for triple, t in d2:
        rep.count("outer", triple[0])
        okk, obs, sql = roundtrip(R, "select", t)
        rep.case("d2:" + C.cdump(C.canon(t)))
        rep.count("origin", "depth2")
        if sql:
            rep.sample({"tree": t, "format": sql})
        # does the formatter write the inner operator bare?  (measured on the real output)
        latent = False
        if okk and sql:
            v = next(iter(t.values()))
            kids = [v[0]["when"], v[0]["then"], v[1]] if triple[0] == "case" else (v if isinstance(v, list) else [v])
            if triple[0] in ("cast", "collate"):
                kids = [v[0]]
            inner_tree = kids[triple[1]] if triple[1] < len(kids) else None
            fi = R.format_raw({"select": {"value": inner_tree}}) if inner_tree is not None else ("err",)
            if fi[0] == "ok":
                inner_sql = fi[1][len("SELECT "):]
                bare = ("(" + inner_sql + ")") not in sql
                if bare and not parser_keeps(levels, *triple):
                    latent = True
        if not okk or latent:
            (measured_bad if not okk else risky).add(triple)
            key, sub = rule_of(triple)
            if not okk and raise_key(obs):
                key, sub = raise_key(obs), None
            rep.count("finding", key)
            what = obs if not okk else ("written bare although the parser binds it looser: breaks as soon as a looser operator surrounds it (%r)" % sql)
            rep.finding(key, "format(%s): %s" % (json.dumps(t), what), {"tree": t, "observed": what, "embedding": "select"}, sub=sub)
        else:
            # other embeddings only matter when the plain one is fine
            for kind in EMBED[1:]:
                ok2, obs2, _ = roundtrip(R, kind, t)
                rep.case("d2:%s:%s" % (kind, C.cdump(C.canon(t))), nontrivial=False)
                if not ok2:
                    key = "fmt-embed:%s:%s,%d,%s" % ((kind,) + triple)
                    rep.finding(key, "format(%s) in %s: %s" % (json.dumps(t), kind, obs2),
                                {"tree": t, "observed": obs2, "embedding": kind})
        tt = GT.to_T(t, fmt_names)
        if tt is not None and ctx.driver:
            reqs.append({"op": "fmt", "t": tt})
            req_meta.append((triple, t))
    known_edges = set(measured_bad) | risky
    rep.coverage["latent_triples"] = len(risky)

    # ---- correspondence of the Operator model: text and parse of the formatter's output
    if ctx.driver:
        answers = ctx.driver.batch(reqs)
        bad = 0
        for (triple, t), ans in zip(req_meta, answers):
            if "error" in ans:
                raise C.InfraError("driver: " + ans["error"])
            f = R.format_raw({"select": {"value": t}})
            real_sql = f[1][len("SELECT "):] if f[0] == "ok" and f[1].startswith("SELECT ") else str(f)
            if norm_sql(real_sql) != norm_sql(ans["sql"]):
                bad += 1
                if bad <= 5:
                    rep.tie_break("correspondence", "fmtE vs format", {"tree": t, "real": real_sql, "model": ans["sql"]})
            # the table says compatible  <=>  measured round trip succeeds
            if ans["ok"] != (triple not in measured_bad):
                bad += 1
                if bad <= 5:
                    rep.tie_break("correspondence", "okTop(fmtE) vs measured round trip",
                                  {"tree": t, "model_ok": ans["ok"], "measured_ok": triple not in measured_bad})
        rep.count("correspondence_mismatches", None, bad)
        # every table row without a known entry that the obligation rejects must be a measured failure (and vice versa)
        for tr in table_bad:
            if tr not in measured_bad:
                rep.tie_break("table", "soundTable row not confirmed by the implementation", {"triple": tr})

    # ---- Tie B for the model of the WHOLE vocabulary (Operator + hand-written renderers, measured table):
    # same text as the real formatter, and "precedence-compatible" (what the theorem promises) means it round-trips
    if ctx.driver and ctx.gen.get("all_ops"):
        names = {o["name"]: o["kind"] for o in ctx.gen["all_ops"]}
        trees = [t for _, t in g.depth2()]
        for _ in range(1500 if ctx.quick else 30000):
            g.n = 0
            t = g.random(ctx.rng.choice([2, 3, 4, 5]))
            if g.root(t) is not None:
                trees.append(t)
        reqs2, keep = [], []
        for t in trees:
            t2 = GT.to_T2(t, names)
            if t2 is not None:
                reqs2.append({"op": "fmt2", "t": t2})
                keep.append(t)
        ans2 = ctx.driver.batch(reqs2)
        bad2 = 0
        for t, a in zip(keep, ans2):
            if "error" in a:
                raise C.InfraError("driver: " + a["error"])
            f = R.format_raw({"select": {"value": t}})
            real_sql = f[1][len("SELECT "):] if f[0] == "ok" and f[1].startswith("SELECT ") else str(f)
            rep.count("tie", "fmt2-text")
            if norm_sql(real_sql) != norm_sql(a["sql"]):
                bad2 += 1
                if bad2 <= 5:
                    rep.tie_break("correspondence", "Fmt2.fmt vs format (whole vocabulary)", {"tree": t, "real": real_sql, "model": a["sql"]})
                continue
            if a["admissible"] and not a["ok"] and getattr(ctx, "build_ok", True):
                # (only meaningful while the table obligations hold: with a broken obligation the theorem promises nothing)
                raise C.InfraError("model: admissible tree whose output is not compatible (contradicts the theorem): " + json.dumps(t))
            if a["ok"]:
                okk, obs, _ = roundtrip(R, "select", t)
                rep.count("tie", "fmt2-compatible-roundtrips")
                if not okk and not raise_key(obs):
                    bad2 += 1
                    if bad2 <= 5:
                        rep.tie_break("correspondence", "model says compatible, the real round trip fails", {"tree": t, "observed": obs})
        rep.count("correspondence_mismatches_fmt2", None, bad2)

    # ---- random deeper trees (must avoid the measured-bad edges: those are reported above, once each)
    n = budget or (3000 if ctx.quick else 60000)
    tried = 0
    for i in range(n):
        g.n = 0
        t = g.random(ctx.rng.choice([2, 3, 3, 4, 5]))
        if g.root(t) is None:
            continue
        es = g.edges(t)
        if any(e in known_edges for e in es):
            rep.count("origin", "random-skipped-known-edge")
            continue
        tried += 1
        kind = ctx.rng.choice(EMBED)
        okk, obs, sql = roundtrip(R, kind, t)
        rep.case("r:" + C.cdump(C.canon(t)))
        rep.count("origin", "random")
        rep.count("embedding", kind)
        if not okk:
            rk = raise_key(obs)
            if rk:
                rep.finding(rk, "format(%s) in %s: %s" % (json.dumps(t)[:300], kind, obs), {"tree": t, "observed": obs, "embedding": kind})
                continue
            m = shrink(R, g, t, kind)
            _, obs_m, _ = roundtrip(R, kind, m)
            dk = deep_key(g, m)
            what = "format(%s) in %s: %s" % (json.dumps(m)[:300], kind, obs_m)
            if dk:
                rep.finding(dk[0], what, {"tree": m, "observed": obs_m, "embedding": kind}, sub=dk[1])
            else:
                key = "fmt-deep:" + ",".join(sorted({"%s>%s" % (o, i2) for o, s_, i2 in g.edges(m)}))[:120]
                rep.finding(key, what, {"tree": m, "observed": obs_m, "embedding": kind})


def search(ctx):
    run(ctx, budget=30000)


def replay(ctx, payload):
    R = C.real()
    okk, obs, sql = roundtrip(R, payload.get("embedding", "select"), payload["tree"])
    print("tree:", json.dumps(payload["tree"]))
    print("format:", sql)
    print("result:", "round trip ok" if okk else obs)
    return not okk
