"""C14 — malformed input is rejected with ParseException, never answered or crashed on."""
import re

import common as C
import corpus
import gen_tokens as GT
from props import c09

ASSUMPTIONS = [
    "termination of the real engine is watched (10 s alarm per input), not proved",
    "certainly-ill-formed edits are those that unbalance brackets or quotes (theorems in Props/C14: such a token list is "
    "outside every bracket-balanced language), remove the single-token last operand of a binary operator, or remove a "
    "mandatory partner keyword; partner keywords whose removal leaves another valid spelling (NOT, OUTER) are not used",
    "the recogniser (PEG graph) is not modelled: rejection is decided on the real parser",
]

DIALECTS = ["common", "mysql", "sqlserver", "bigquery"]
NOT_CERTAIN_PARTNERS = {"not", "outer"}
FUZZ_TOKENS = ["(", ")", ",", "'", '"', "`", "[", "]", "select", "from", "where", "and", "or", "not", "between", "in", "is", "null",
               "as", "+", "-", "*", "/", "||", "=", ";", "order", "by", "case", "when", "end", "1e400", "'a\\'", "-inf", "0x", "1.", ".", "::",
               "/*", "*/", "--", "over", "(", ")", "join", "on", "union", "\\", "\x00", "é", "$$", "@", "#", "{", "}", "%", "!", "?"]


def crash_key(msg):
    acts = re.findall(r"parse action ([\w<>]+) should not raise", msg or "")
    kinds = re.findall(r"ERROR: (\w+(?:Error|Exception|Exit|Interrupt))\b", msg or "")
    return (acts[-1] if acts else "?") + ":" + (kinds[-1] if kinds else "?")


def classify(out, n):
    """out = Real.parse_raw result; -> None if the outcome is one the property allows for arbitrary text"""
    if out[0] == "ok":
        return None
    cls, loc = out[1], out[2]
    if cls == "ParseException":
        if isinstance(loc, int) and 0 <= loc <= n:
            return None
        return "loc-out-of-range"
    if cls == "Timeout":
        return "timeout"
    if cls == "Except":
        return "crash:" + crash_key(out[3])
    return "crash:" + cls


def _pw(item):
    sql, d = item
    r = C.real().parse_raw(sql, d)
    if r[0] == "err" and r[1] == "Timeout":
        r = C.real().parse_raw(sql, d, timeout=180)      # a loaded machine is not non-termination
    if r[0] == "ok":
        return ("ok", C.cdump(C.canon(r[1]))[:200], None, None)
    return r


def run_many(items):
    items = list(items)
    if len(items) < 64:
        return [_pw(i) for i in items]
    C.parse_many([])        # make sure helpers are importable
    import multiprocessing as mp
    import os
    n = int(os.environ.get("VERIF_PROCS", "0") or 0) or max(2, min(12, (os.cpu_count() or 4) - 2))
    with mp.get_context("fork").Pool(n) as pool:
        return pool.map(_pw, items, chunksize=max(1, min(200, len(items) // 64)))


def ill_formed_edits(toks):
    """-> [(kind, ctx-key, text)] edits that make the statement certainly ill-formed"""
    out = []
    for i, t in enumerate(toks):
        tag = t[2] if len(t) > 2 else ""
        if tag.startswith("open:") or tag.startswith("close:"):
            # context: the token before an opening bracket / the token before the matching opening bracket
            j = i
            if tag.startswith("close:"):
                want = "open:" + tag.split(":")[1]
                j = next(k for k, x in enumerate(toks) if len(x) > 2 and x[2] == want)
            ctx = GT.cls_key(toks[j - 1]) if j > 0 else "^"
            out.append(("del-" + tag.split(":")[0], ctx, GT.text(toks, drop=(i,))))
        if tag == "partner" and t[0].lower() not in NOT_CERTAIN_PARTNERS:
            prev = GT.cls_key(toks[i - 1]) if i else "^"
            out.append(("del-partner", "%s|%s" % (prev, t[0].lower()), GT.text(toks, drop=(i,))))
        if tag == "lastop":
            op = toks[i - 1][0].lower()
            nxt = GT.cls_key(toks[i + 1]) if i + 1 < len(toks) else "$"
            out.append(("del-last-operand", "%s|%s" % (op, nxt), GT.text(toks, drop=(i,))))
        if t[1] == "lit" and t[0].endswith("'") and len(t[0]) >= 2:
            v = list(toks)
            v[i] = (t[0][:-1], "lit")
            out.append(("del-closing-quote", "", GT.text(v)))
    # truncation at a token boundary inside an open bracket
    depth = 0
    for i, t in enumerate(toks):
        tag = t[2] if len(t) > 2 else ""
        if tag.startswith("open:"):
            depth += 1
        elif tag.startswith("close:"):
            depth -= 1
        if depth > 0 and i + 1 < len(toks):
            out.append(("truncate-in-bracket", "", GT.text(toks[: i + 1])))
    base = GT.text(toks)
    out.append(("extra-close", "", base + " )"))
    out.append(("extra-open", "", base + " ("))
    out.append(("extra-quote", "", base + " '"))
    return out


# statements of kinds the token generator does not write (option lists, DDL, DML, CASE / CAST, frames, WITH): written by
# hand, tokenised by the independent lexer of C09, every round bracket tagged with its partner
HAND_WRITTEN = [
    "explain (analyze, verbose) select * from temp", "explain (format json, costs off) select a from t where b = 1", "describe (analyze) select 1",
    "explain analyze select * from temp where a in (1, 2)",
    "create table t (a int not null, b varchar(10) default 'x', primary key (a))", "insert into t (a, b) values (1, 'x'), (2, 'y')",
    "update t set a = (b + 1) * 2 where c in (select d from u)", "delete from t where exists (select 1 from u where u.a = t.a)",
    "select case when (a > 1) then f(b, (c)) else cast(d as decimal(10, 2)) end from t",
    "select sum(a) over (partition by b order by c rows between 1 preceding and current row) from t",
    "with w (x, y) as (select 1, 2) select x from w where y in ((select 3))", "select count(distinct a), coalesce(b, (c)) from (select a, b, c from t) s group by (b)",
    "select * from a join (b join c on p = q) on r = s", "select a from t where b between (1) and (2) and c like concat('x', (d))",
    "select a from t pivot ((x) for y in (1, 2)) p", "select a from t pivot (sum(x) s, (count(z)) for y in ('u', 'v')) p", "select a from t unpivot ((x) for y in (b, c)) p",
]


def hand_written_tokens(sql):
    lx = c09.lex(sql)
    toks, stack, n = [], [], 0
    for kind, text, _ in lx or []:
        if kind in ("ws", "cm"):
            continue
        k = "lit" if kind == "lit" else ("id" if kind in ("q", "word") else "p")
        if text == "(":
            n += 1
            stack.append(n)
            toks.append((text, k, "open:h%d" % n))
        elif text == ")" and stack:
            toks.append((text, k, "close:h%d" % stack.pop()))
        else:
            toks.append((text, k))
    return toks


def mutate(rng, toks):
    v = [t[0] for t in toks]
    for _ in range(rng.choice([1, 1, 2, 3])):
        k = rng.randint(0, 4)
        i = rng.randrange(len(v)) if v else 0
        if k == 0 and v:
            del v[i]
        elif k == 1:
            v.insert(i, rng.choice(FUZZ_TOKENS))
        elif k == 2 and v:
            v.insert(i, v[i])
        elif k == 3 and v:
            j = rng.randrange(len(v))
            v[i:i] = v[j: j + rng.randint(1, 4)]
        elif v:
            v[i] = rng.choice(FUZZ_TOKENS)
    s = " ".join(v)
    if rng.random() < 0.3 and s:
        # byte-level
        i = rng.randrange(len(s))
        s = rng.choice([s[:i] + s[i + 1:], s[:i] + rng.choice("'\"`()[]\\;\x00") + s[i:], s[:i]])
    return s


def nested(rng, depth):
    k = rng.randint(0, 4)
    if k == 0:
        return "select " + "(" * depth + "a" + ")" * depth
    if k == 1:
        return "select " + "f(" * depth + "a" + ")" * depth
    if k == 2:
        return "select " + "(" * depth + "a" + ")" * (depth - 1)
    if k == 3:
        s = "select a from t"
        for _ in range(min(depth, 12)):
            s = "select a from (" + s + ") q"
        return s
    return "select " + "case when a then " * min(depth, 10) + "b" + " end" * min(depth, 10)


# inputs on which a parse action is known to raise something that is not a ParseException (always run, so
# that each known class is observed — or seen to be repaired — on every run)
DEGENERATE_LEXEMES = ['""', '``', '[]', "''", '" "', '` `', '[ ]', '"', '`', '[', "'", "''''", '""""']

CRASH_PROBES = [
    ("common", "select 'a\\'"), ("common", "select 'a\x00b'"), ("mysql", 'select "a\\"'), ("common", 'select "a\\" from t'),
    ("common", "select `a\\` from t"), ("sqlserver", "select [a\\] from t"), ("common", "select 'a' 'b\\'"),
    ("common", "select -inf"), ("common", "select sum(x) over (order by y range between x preceding and y following) from t"),
    ("common", "select r'a\\'"), ("bigquery", 'select r"a\\"'),
]


# the words `keywords.RESERVED` refuses as names on the pinned source: a reserved word left dangling where an
# alias could follow must be rejected (written out here: a word that silently stops being reserved must not
# disappear from the probe set)
RESERVED_CORE = ["and", "as", "asc", "begin", "between", "by", "case", "collate", "constraint", "create", "cross", "desc", "distinct",
                 "else", "end", "except", "false", "fetch", "for", "foreign", "from", "full", "group", "having", "in", "inner",
                 "intersect", "into", "is", "join", "lateral", "left", "like", "limit", "minus", "natural", "nocase", "not", "null",
                 "offset", "on", "or", "order", "outer", "over", "partition", "pivot", "primary", "qualify", "references", "right",
                 "rlike", "select", "set", "straight_join", "tablesample", "then", "true", "union", "unique", "unnest", "unpivot",
                 "using", "when", "where", "window", "with", "within"]
DANGLING_TEMPLATES = ["select a {w}", "select a {w} from t", "select a from t {w}", "select a, b {w} from t", "select f(a) {w}"]

# DELIMITER directives with odd arguments (and what byte-level mutation makes of them): must come back, whatever they are
DELIMITER_PROBES = ["select 1;\nDELIMITER  \nselect 2;", "DELIMITER \t\nselect 1", "delimiter \r\nselect 1;", "DELIMITER\nselect 1",
                    "DELIMITER ;\nselect 1;", "delimiter $$\nselect 1 $$\n", "delimiter $$ \n\n", "DELIMITER  ;  \nselect 1 ;\n",
                    "select 1\ndelimiter", "delimiter \\\nselect 1 \\\n", "DELIMITER \x0b\nselect 1", "delimiter  \n \n select 1"]


def run(ctx, scale=1):
    rep = ctx.rep
    rng = ctx.rng
    gen = ctx.gen
    for sql in DELIMITER_PROBES:
        for d in DIALECTS[:2]:
            o = _pw((sql, d))
            rep.count("delimiter_probe", "tree" if o[0] == "ok" else o[1])
            bad = classify(o, len(sql))
            if bad:
                rep.finding(bad, "%s: %r -> %s" % (d, sql, o[1]), {"kind": "arbitrary", "sql": sql, "dialect": d})
    words = sorted(set(RESERVED_CORE))
    for w in words:
        for tpl in DANGLING_TEMPLATES:
            sql = tpl.format(w=w)
            o = _pw((sql, "common"))
            rep.count("dangling_reserved", "tree" if o[0] == "ok" else o[1])
            rep.case("dangling:" + sql)
            if o[0] == "ok":
                rep.finding("answered:dangling-reserved-word", "%r is answered with %s" % (sql, o[1][:120]),
                            {"kind": "ill-formed", "sql": sql, "dialect": "common"}, sub="%s|%s" % (w, DANGLING_TEMPLATES.index(tpl)))
            else:
                bad = classify(o, len(sql))
                if bad:
                    rep.finding(bad, "%r -> %s" % (sql, o[1]), {"kind": "arbitrary", "sql": sql, "dialect": "common"})
    # degenerate lexemes (empty quoted names / strings, lone quotes and brackets) in every position a name can take,
    # well-formed and cut off: a tree or a ParseException, nothing else
    degenerate = []
    for q in DEGENERATE_LEXEMES:
        for tpl in ("select {q} from t", "select {q}", "select a.{q} from t", "select {q}.a from t", "select a as {q} from t", "select a from {q}",
                    "select a from t where {q} = 1", "select f({q}) from t", "select {q} from t where", "select {q}, (a from t", "insert into {q} values (1)",
                    "create table {q} (a int)", "create table t ({q} int)", "select a from t order by {q}", "select {q} {q} from {q}"):
            degenerate.append(tpl.format(q=q))
    for sql in degenerate:
        for d in DIALECTS:
            o = _pw((sql, d))
            rep.count("degenerate_lexeme", "tree" if o[0] == "ok" else o[1])
            rep.case("degenerate:%s|%s" % (d, sql))
            bad = classify(o, len(sql))
            if bad:
                rep.finding(bad, "%s: %r -> %s %s" % (d, sql, o[1], (o[3] or "")[:100].replace("\n", " ")), {"kind": "arbitrary", "sql": sql, "dialect": d})
    for d, sql in CRASH_PROBES:
        o = _pw((sql, d))
        rep.count("crash_probe", "tree" if o[0] == "ok" else o[1])
        bad = classify(o, len(sql))
        if bad:
            rep.finding(bad, "%s: %r -> %s %s" % (d, sql, o[1], (o[3] or "")[:100].replace("\n", " ")), {"kind": "arbitrary", "sql": sql, "dialect": d})

    # ---- Tie A: every parse action in the graph is one the analysis knows about (Props/C14.actions_classified)
    # ---- certain-ill-formed edits on generated statements
    # The statements that receive the ill-formed edits come from a FIXED stream (the thorough set extends the
    # quick set), so that the classes of "answered" inputs recorded as known findings are complete for
    # exactly what is run; VERIF_SEED drives the mutation fuzzing and which dialects see which edit.
    import random as _random
    g = GT.Gen(_random.Random(14014))
    n = (250 if ctx.quick else 800) * (1 if scale == 1 else 2)
    items, metas = [], []
    stream = [g.statement() for _ in range(n)] + [("hand-written", hand_written_tokens(q)) for q in HAND_WRITTEN]
    for si, (kind, toks) in enumerate(stream):
        base = GT.text(toks)
        items.append((base, "common"))
        metas.append(("base", si, kind, base))
        for ek, ck, text in ill_formed_edits(toks):
            ds = sorted({"common", DIALECTS[si % 4]}) if ctx.quick else DIALECTS
            for d in ds:
                items.append((text, d))
                metas.append(("edit", si, ek, ck, base))
        for _ in range(3 if ctx.quick else 6):
            items.append((mutate(rng, toks), rng.choice(DIALECTS)))
            metas.append(("fuzz", si))
    for _ in range((40 if ctx.quick else 400) * scale):
        items.append((nested(rng, rng.randint(2, 25)), rng.choice(DIALECTS)))
        metas.append(("fuzz", -1))
    # corpus: random mutations at the token level of the independent lexer
    cps = corpus.load()
    for it in (rng.sample(cps, min(len(cps), 150 * scale)) if ctx.quick else cps):
        lx = c09.lex(it["sql"])
        if not lx:
            continue
        toks = [(t, "x") for k, t, _ in lx if k != "ws"]
        if not toks:
            continue
        for _ in range(3 if ctx.quick else 10):
            items.append((mutate(rng, toks), rng.choice(DIALECTS)))
            metas.append(("fuzz", -2))
    outs = run_many(items)
    accepted = {}
    for mt, o in zip(metas, outs):
        if mt[0] == "base":
            accepted[mt[1]] = o[0] == "ok"
            rep.count("generated", "accepted" if o[0] == "ok" else "rejected")
    for (sql, d), mt, o in zip(items, metas, outs):
        if mt[0] == "base":
            continue
        rep.case(sql + "|" + d)
        bad = classify(o, len(sql))
        if mt[0] == "fuzz":
            rep.count("fuzz", "tree" if o[0] == "ok" else o[1])
            if bad:
                rep.finding(bad, "%s: %r -> %s %s" % (d, sql[:160], o[1], (o[3] or "")[:100].replace("\n", " ")),
                            {"kind": "arbitrary", "sql": sql, "dialect": d})
            continue
        if not accepted.get(mt[1]):
            continue
        _, si, ek, ck, base = mt
        rep.count("edit", ek)
        rep.count("edit_outcome", "tree" if o[0] == "ok" else o[1])
        if len(rep.coverage["samples"]) < 5 and o[0] != "ok":
            rep.sample({"well-formed": base, "edit": ek, "ill-formed": sql, "outcome": o[1], "loc": o[2]})
        if o[0] == "ok":
            key = "answered:%s" % ek
            rep.finding(key, "%s: %r (from %r by %s) is answered with %s" % (d, sql[:150], base[:100], ek, o[1][:120]),
                        {"kind": "ill-formed", "sql": sql, "dialect": d}, sub=ck or None)
        elif bad:
            rep.finding(bad, "%s: %r -> %s %s" % (d, sql[:160], o[1], (o[3] or "")[:100].replace("\n", " ")),
                        {"kind": "arbitrary", "sql": sql, "dialect": d})


def search(ctx):
    run(ctx, scale=3)


def replay(ctx, p):
    R = C.real()
    o = R.parse_raw(p["sql"], p.get("dialect", "common"))
    print(o[:3])
    if p.get("kind") == "ill-formed":
        return not (o[0] == "err" and classify(o, len(p["sql"])) is None)
    return classify(o, len(p["sql"])) is not None
