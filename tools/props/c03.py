"""C03 — parse -> format -> parse is the identity on the formatter-supported fragment."""
import json
import re

import common as C
import gen_query as Q
import pool
from props import c04

ASSUMPTIONS = [
    "fragment = SELECT queries (incl. set operations, CTEs, window functions), INSERT and DELETE; other statement kinds of the "
    "corpus are outside the formatter's documented support and are skipped",
]

FLAT_NAMES = {"add", "mul", "and", "or", "concat", "binary_and", "binary_or"}
SETOPS = {"union", "union_all", "intersect", "except", "minus"}
CLAUSES = {"select", "select_distinct", "from", "where", "groupby", "having", "orderby", "limit", "offset", "with", "top"} | SETOPS
JOINS = {"join", "inner join", "left join", "right join", "full join", "left outer join", "right outer join",
         "full outer join", "cross join"}
ITEM = {"value", "name", "over", "filter", "within", "sort", "all_columns"}
OVER = {"partitionby", "orderby", "range"}
DML = {"insert", "columns", "values", "query", "delete", "where"}
STRUCTURAL = CLAUSES | JOINS | {"on", "using"} | ITEM | OVER | DML | {"min", "max"}


def in_fragment(tree, top=True):
    """the formatter-supported fragment: the query forms of C02, window functions, INSERT and DELETE.
    A dict that carries any clause-level key may carry ONLY keys of the fragment."""
    if isinstance(tree, dict):
        ks = set(tree)
        if top and not (ks & (CLAUSES | {"insert", "delete"})):
            return False
        if ks & (CLAUSES | JOINS | DML | {"over", "within", "filter", "all_columns", "partitionby", "value"}):
            if not ks <= STRUCTURAL:
                return False
        if "insert" in ks and not ks <= {"insert", "columns", "values", "query"}:
            return False
        if "delete" in ks and not ks <= {"delete", "where"}:
            return False
        if "top" in ks and not isinstance(tree["top"], int):
            return False
        return all(in_fragment(v, False) for v in tree.values())
    if isinstance(tree, list):
        return all(in_fragment(v, False) for v in tree)
    return True


_NO_RENDERER = None


def ops_without_renderer(gen):
    """operator names without a `_name` renderer whose function-call spelling does not parse back to the operator
    (measured once on the real format / parse)"""
    global _NO_RENDERER
    if _NO_RENDERER is None:
        R = C.real()
        have = {m[1:] for m in gen.get("fmt_methods", [])}
        out = set()
        for o in gen.get("ops", []):
            n = o["name"]
            if n in have or n == "cast":
                continue
            t = {"select": {"value": {n: "a9" if o["kind"] in ("pre", "suf") else ["a9", "b9"]}}}
            f = R.format_raw(t)
            r = R.parse_raw(f[1]) if f[0] == "ok" else ("err",)
            if r[0] != "ok" or first_diff(t, r[1]) is not None:
                out.add(n)
        _NO_RENDERER = out
    return _NO_RENDERER


def names_in(t, acc=None):
    acc = set() if acc is None else acc
    if isinstance(t, dict):
        for k, v in t.items():
            acc.add(k)
            names_in(v, acc)
    elif isinstance(t, list):
        for v in t:
            names_in(v, acc)
    return acc


def known_c04_edges():
    """(outer, slot, inner) triples the formatter is already known to get wrong (C04's findings)"""
    edges = set()
    for f in C.load_known()["findings"]:
        if f["property"] != "C04":
            continue
        k = f["key"]
        if k.startswith("fmt-triple:"):
            o, s, i = k[len("fmt-triple:"):].split(",")
            edges.add((o, int(s), i))
        elif k.startswith("fmt-rule:inner-ignores-prec:"):
            i = k.split(":")[-1]
            for sub in f.get("covers", []):
                o, s = sub.rsplit(",", 1)
                edges.add((o, int(s), i))
        elif k.startswith("fmt-rule:outer-fixed-prec:") or k.startswith("fmt-rule:inner-in-family:"):
            tail = k.split(":")[-1]
            for sub in f.get("covers", []):
                a, b = sub.split(",", 1)
                if k.startswith("fmt-rule:outer-fixed-prec:"):
                    edges.add((tail, int(a), b))
                else:
                    edges.add((a, int(b), tail))
    return edges


def tree_edges(t, acc):
    """operator-under-operator edges anywhere in a statement tree"""
    if isinstance(t, dict):
        if len(t) == 1:
            k, v = next(iter(t.items()))
            kids = v if isinstance(v, list) else [v]
            for i, c in enumerate(kids):
                if isinstance(c, dict) and len(c) == 1:
                    ck = next(iter(c))
                    if ck not in ("literal", "null"):
                        acc.add((k, min(i, 1) if k in FLAT_NAMES else i, ck))
        for v in t.values():
            tree_edges(v, acc)
    elif isinstance(t, list):
        for v in t:
            tree_edges(v, acc)
    return acc


def first_diff(a, b, path=()):
    if type(a) is not type(b):
        return path
    if isinstance(a, dict):
        if set(a) != set(b):
            return path + ("keys:" + ",".join(sorted(set(a) ^ set(b))),)
        for k in a:
            d = first_diff(a[k], b[k], path + (k,))
            if d is not None:
                return d
        return None
    if isinstance(a, list):
        if len(a) != len(b):
            return path + ("len",)
        for i, (x, y) in enumerate(zip(a, b)):
            d = first_diff(x, y, path + ("[]",))
            if d is not None:
                return d
        return None
    return None if (a == b and type(a) is type(b)) else path


def classify_diff(comps):
    """root cause = where the reparsed tree differs, not how deep in the statement"""
    last = comps[-1] if comps else ""
    prev = comps[-2] if len(comps) > 1 else ""
    names = set(last[5:].split(",")) if last.startswith("keys:") else set()
    if names and names <= {"eq", "missing", "neq", "exists", "eq!", "ne!"} and (names & {"eq", "neq", "eq!", "ne!"}):
        return "null-comparison-refolded"          # {"eq": [x, NULL-node]} is written `x = NULL`, which folds to missing
    if "collate" in comps:
        return "collate:operand-is-not-a-name"       # `x COLLATE (expr)`: the formatter prints the operand's Python repr
    if (names & SETOPS) or (last == "len" and prev in SETOPS) or (names and names <= {"from", "orderby", "limit", "offset", "select", "where", "groupby", "having", "select_distinct"} | SETOPS and prev in SETOPS | {""} and (names & {"orderby", "limit", "offset", "from"})):
        return "setop:nesting-or-tail"
    if last == "len" and prev == "from":
        return "from:source-list-differs"
    if last == "keys:on":
        return "join:falsy-on-dropped"
    if len(names) == 2:
        a, b = sorted(names)
        if a.lower() == b.lower():
            return "alias:column-list-name-uppercased"   # `AS s(a)` is written `AS S(a)`
    return "differs:" + "/".join(comps[-2:])[:70]


def prefix_battery():
    """prefix operators stacked on each other, on parenthesised numbers / negative numbers / expressions, and as the
    right operand of a binary operator: the texts where a renderer for a prefix operator can run two signs together
    (`--a` is a comment), fold a sign into a number (`-(1)` is not `-1`) or lose its parentheses"""
    P = ["-", "+", "~", "not "]
    out = []
    for p in P:
        for q in P:
            out.append("select %s %sa from t" % (p, q))
            out.append("select %s(%sa) from t" % (p, q))
            out.append("select b, %s(%s(a + b)) * 2 as c, d from t where e = 1" % (p, q))
        for x in ["1", "1.5e-7", "-1", "a + b", "f(a)", "(a)", "a * b", "- (a + b)"]:
            out.append("select %s(%s) from t" % (p, x))
            out.append("select %s(%s) * 2 from t" % (p, x))
    for b in ["-", "+", "*", "||"]:
        for x in ["-b", "(-b)", "-1", "(-1)", "- -b", "~b", "(~b)"]:
            out.append("select a %s %s from t" % (b, x))
    return out


def source_list_battery():
    """the list after FROM in its shapes: comma lists, every join word, ON / USING, aliases, sub-queries, a comma behind a
    join, and parenthesised groups of joined sources (nested, aliased members, at either end)"""
    kinds = ["join", "inner join", "left join", "left outer join", "right join", "right outer join", "full join", "full outer join", "cross join"]
    out = ["select * from a", "select * from a, b", "select * from a, b, c x", "select * from a, b join c on x = y, d", "select * from (a join b on p = q)",
           "select * from a join (select 1 as k) z on z.k = a.k", "select * from a x join b as y on x.p = y.q, (select 2) w",
           "select * from a join b using (k)", "select * from a join b using (k1, k2) join c using (k3)",
           "select * from a join (b join c on p = q) on r = s", "select * from a join (b join (c cross join d) on p = q) on r = s",
           "select * from a left join (b x join c y on x.p = y.q, d) on r = s join e using (k)", "select * from a, (b join c on p = q), d",
           "select * from a join (b, c) on r = s", "select * from (a join b on p = q) join (c join d on t = u) on v = w",
           "select * from a cross join (b left join c using (k))", "delete from t where x in (select k from a join (b join c on p = q) on r = s)",
           "select * from a join (b join c on p = q) on r = s where a.k > 1 order by 1"]
    for k in kinds:
        cond = "" if k == "cross join" else " on p = q"
        out.append("select * from a %s b%s" % (k, cond))
        out.append("select * from a %s (b %s c%s)%s" % (k, k, cond, cond))
        out.append("select * from a x %s b y%s %s c z%s" % (k, cond, k, cond))
    return out


def collate_non_name(t):
    """a COLLATE whose second operand is not a plain name (the formatter prints that operand's Python repr)"""
    if isinstance(t, dict):
        c = t.get("collate")
        if isinstance(c, list) and len(c) == 2 and not isinstance(c[1], str):
            return True
        return any(collate_non_name(v) for v in t.values())
    if isinstance(t, list):
        return any(collate_non_name(v) for v in t)
    return False


def is_query(t):
    return isinstance(t, dict) and bool(set(t) & ({"select", "select_distinct", "from"} | SETOPS))


def setop_nesting(t, under=None):
    """a set operation with an operand that is itself a set operation or carries ORDER BY / LIMIT / OFFSET of its own,
    or a set operation / tail wrapper directly under WITH: shapes the formatter writes without the parentheses"""
    if isinstance(t, dict):
        for k, v in t.items():
            if k in SETOPS and isinstance(v, list):
                for o in v:
                    if isinstance(o, dict) and (set(o) & SETOPS or set(o) & {"orderby", "limit", "offset", "fetch"} or (set(o) == {"from"} | (set(o) & {"orderby", "limit", "offset"}))):
                        return True
        if "with" in t and ((set(t) & SETOPS) or ("select" not in t and "select_distinct" not in t and "from" in t)):
            return True
        if "from" in t and "select" not in t and "select_distinct" not in t and isinstance(t["from"], dict) and is_query(t["from"]) and not (set(t["from"]) & SETOPS):
            pass
        return any(setop_nesting(v) for v in t.values())
    if isinstance(t, list):
        return any(setop_nesting(v) for v in t)
    return False


def culprit(R, t):
    """the smallest expression node of `t` whose own round trip (as a select item) is rejected, named by its operator and
    the operators of its operands; None if every expression node survives on its own (a clause-level cause)"""
    best = None

    def nodes(x, depth=0):
        if isinstance(x, dict):
            for v in x.values():
                yield from nodes(v, depth + 1)
            if not is_query(x) and not (set(x) & {"value", "name", "literal"}) and len(x) >= 1:
                yield depth, x
        elif isinstance(x, list):
            for v in x:
                yield from nodes(v, depth + 1)

    for depth, n in sorted(nodes(t), key=lambda p: -p[0])[:60]:
        tree = {"select": {"value": n}}
        f = R.format_raw(tree)
        if f[0] != "ok":
            continue
        r2 = R.parse_raw(f[1])
        if r2[0] != "ok":
            ops = sorted(k for k in n if k not in ("kwargs",))
            inner = sorted({k for v in n.values() for o in (v if isinstance(v, list) else [v]) if isinstance(o, dict) for k in o})
            best = "%s(%s)" % ("+".join(ops)[:40], ",".join(inner)[:50])
            break
    return best


# ------------------------------------------------------------------ Tie B for MoSql.Sources (the list after FROM)
JOIN_KINDS = ["join", "inner join", "left join", "left outer join", "right join", "right outer join", "full join", "full outer join", "cross join"]
SRC_TOKEN = re.compile(r"\(|\)|,|(?P<j>%s)\b|ON p(?P<on>\d+) = q(?P=on)\b|USING u(?P<us>\d+)\b|(?P<n>[a-z]\w*(?: AS [a-z]\w*)?)" % "|".join(
    k.upper().replace(" ", r"\ ") for k in sorted(JOIN_KINDS, key=len, reverse=True)))


def gen_items(rng, depth, normal, top=True):
    """-> (model items, real tree list); `normal`: only shapes the parser itself produces (at the top plain sources before
    the first join; a group starts with one plain source, every comma inside brackets is read as a cross join)"""
    n = rng.choice([1, 1, 2, 2, 3, 4]) if not (depth == 0 and not normal and rng.random() < 0.1) else 0
    items, tree, joined = [], [], False

    def src():
        if depth > 0 and rng.random() < 0.3:
            mi, ti = gen_items(rng, depth - 1, normal, top=False)
            if normal and len(ti) < 2:
                return src()
            return ["group", mi], ti
        name = rng.choice("abcdefgh") + str(rng.randint(1, 9))
        if rng.random() < 0.25:
            al = rng.choice("xyz") + str(rng.randint(1, 9))
            return ["tbl", "%s AS %s" % (name, al)], {"value": name, "name": al}
        return ["tbl", name], name

    for i in range(n):
        plain = (i == 0) if normal else (rng.random() < 0.45)
        if normal and top and i > 0 and not joined and rng.random() < 0.4:
            plain = True
        ms, ts = src()
        if plain:
            items.append(["plain", ms])
            tree.append(ts)
        else:
            joined = True
            kind = rng.choice(JOIN_KINDS)
            c = rng.random()
            k = rng.randint(1, 99)
            node = {kind: ts}
            if kind == "cross join" or c < 0.25:
                cond = ["none"]
            elif c < 0.75:
                cond = ["on", k]
                node["on"] = {"eq": ["p%d" % k, "q%d" % k]}
            else:
                cond = ["using", k]
                node["using"] = "u%d" % k
            items.append(["join", kind.upper(), ms, cond])
            tree.append(node)
    return items, tree


def sources_correspondence(ctx, n):
    """the model's token list against the text the real formatter writes after FROM, on generated lists of sources;
    on parser-shaped lists also: the text parses back to the list"""
    rep = ctx.rep
    R = C.real()
    cases = []
    for i in range(n):
        normal = i % 2 == 0
        items, tree = gen_items(ctx.rng, ctx.rng.choice([0, 1, 2, 3]), normal)
        if not tree:
            continue
        cases.append((normal, items, tree))
    answers = ctx.driver.batch([{"op": "sources", "items": it} for _, it, _ in cases])
    bad = 0
    for (normal, items, tree), ans in zip(cases, answers):
        if "error" in ans:
            raise C.InfraError("driver: " + ans["error"])
        rep.count("sources", "normal" if normal else "any")
        rep.case("sources:" + json.dumps(items))
        frm = tree[0] if len(tree) == 1 and not isinstance(tree[0], list) else tree
        f = R.format_raw({"select": {"all_columns": {}}, "from": frm})
        if f[0] != "ok" or not f[1].startswith("SELECT * FROM "):
            real = {"$err": f[1][:120]}
        else:
            text = f[1][len("SELECT * FROM "):]
            toks, pos, ok = [], 0, True
            while pos < len(text):
                if text[pos] == " ":
                    pos += 1
                    continue
                m = SRC_TOKEN.match(text, pos)
                if not m:
                    ok = False
                    break
                if m.group("j"):
                    toks.append("j:" + m.group("j"))
                elif m.group("on"):
                    toks.append("on:" + m.group("on"))
                elif m.group("us"):
                    toks.append("using:" + m.group("us"))
                elif m.group("n"):
                    toks.append("n:" + m.group("n"))
                else:
                    toks.append(m.group(0))
                pos = m.end()
            real = toks if ok else {"$untokenised": text[pos:pos + 40]}
        if real != ans["tokens"] or not ans["separated"] or not ans["balanced"]:
            bad += 1
            if bad <= 5:
                rep.tie_break("correspondence", "Sources.fmt vs Formatter.from_", {"items": items, "tree": frm, "real": real, "model": ans})
            continue
        if normal and not (len(tree) == 1 and isinstance(tree[0], list)):   # a lone group at the top is read without its brackets
            back = R.parse_raw(f[1])
            if back[0] != "ok" or back[1].get("from") != frm:
                rep.count("finding", "from:source-list-differs")
                rep.finding("from:source-list-differs:generated", "format(%s) = %r parses back to %s" % (json.dumps(frm)[:200], f[1][:200], json.dumps(back[1].get("from"))[:200] if back[0] == "ok" else back[1]),
                            {"sql": f[1], "dialect": "common", "tree": {"select": {"all_columns": {}}, "from": frm}})
    rep.count("sources_correspondence_mismatches", None, bad)


def run(ctx, scale=1):
    rep = ctx.rep
    R = C.real()
    if ctx.driver:
        sources_correspondence(ctx, (600 if ctx.quick else 8000) * scale)
    bad_edges = known_c04_edges()
    stmts = pool.statements(ctx, n_gen=(800 if ctx.quick else 12000) * scale)
    stmts += [{"sql": q, "dialect": "common", "origin": "prefix-battery"} for q in prefix_battery()]
    stmts += [{"sql": q, "dialect": "common", "origin": "source-list-battery"} for q in source_list_battery()]
    g = Q.QueryGen(ctx.rng, ctx.gen["ops"])
    for _ in range((800 if ctx.quick else 15000) * scale):
        g.n = 0
        stmts.append({"sql": Q.render(g.query(subdepth=ctx.rng.choice([0, 1, 2]))), "dialect": "common", "origin": "gen-query"})
    for st in stmts:
        r = R.parse_raw(st["sql"], st["dialect"])
        if r[0] != "ok" or not in_fragment(r[1]):
            rep.count("skipped", "rejected" if r[0] != "ok" else "outside-fragment")
            continue
        t = r[1]
        rep.case(st["sql"])
        rep.count("origin", st["origin"])
        f = R.format_raw(t)
        key = None
        what = None
        if f[0] != "ok":
            key = "format-raises:%s:%s" % (f[1], re.sub(r"'[^']*'", "T", f[2])[:50])
            what = "format(parse(%r)) raised %s: %s" % (st["sql"][:160], f[1], f[2][:100])
        else:
            r2 = R.parse_raw(f[1])
            rep.sample({"sql": st["sql"][:120], "format": f[1][:120]})
            if r2[0] != "ok":
                import hashlib
                if st["origin"] == "corpus":
                    key = "reparse-rejected:" + hashlib.sha1(st["sql"].encode()).hexdigest()[:8]
                elif collate_non_name(t):
                    key = "collate:operand-is-not-a-name"
                elif setop_nesting(t):
                    key = "setop:nesting-or-tail"
                else:
                    # a generated statement: name the smallest expression that does not survive on its own
                    key = "reparse-rejected:%s:%s" % (st["origin"], culprit(R, t) or "clause-level")
                what = "format(parse(%r)) = %r does not parse (%s)" % (st["sql"][:160], f[1][:200], r2[1])
            else:
                d = first_diff(t, r2[1])
                if d is not None:
                    key = classify_diff([str(x) for x in d if x != "[]"])
                    what = "format(parse(%r)) = %r parses back differently at %s" % (st["sql"][:160], f[1][:200], list(d))
                else:
                    f2 = R.format_raw(r2[1])
                    if f2[0] != "ok" or f2[1] != f[1]:
                        key = "not-a-fixpoint"
                        what = "format(parse(%r)) is not a fixed point of format∘parse" % f[1][:160]
        if key is None:
            continue
        # an operator the parser knows only as infix / keyword syntax but for which the formatter has no renderer is
        # written in function-call syntax (NOT_SIMILAR_TO(a, b), JSON_GET_TEXT(a, b), AT_TIME_ZONE(a, b) …): it comes
        # back as a function call or not at all.  One finding per operator name.
        if not key.startswith("format-raises"):
            missing = sorted(ops_without_renderer(ctx.gen) & names_in(t))
            if missing:
                key = "expr:no-renderer:" + missing[0]
        # expression-level causes already listed under C04 are attributed to their formatter rule
        es = tree_edges(t, set()) & bad_edges
        if es and not key.startswith("format-raises"):
            o, s, i = sorted(es)[0]
            key = "expr:formatter-parenthesis-rule-listed-under-C04"
        rep.count("finding", key)
        rep.finding(key, what, {"sql": st["sql"], "dialect": st["dialect"]})


    quoting_styles(ctx, stmts)


QUOTED_NAMES = [
    "select `unit price`, `a b`.`c d` from `my table` as `x y` where `unit price` > 1",
    "select `order`, `select` from `from` as `group`", "select t.`first name` as `full name` from people t order by `first name`",
    "insert into `my t` (`a b`, `c`) values (1, 2), (3, 4)", "update `my t` set `a b` = 1 where `c d` = 2",
    "select `a``b`, `x\"y` from t", "select count(`a b`) over (partition by `c d` order by `e f`) from `g h`",
    "create table `my t` (`a b` int, `c d` varchar(10))", "delete from `my t` where `a b` in (1, 2)",
]


def quoting_styles(ctx, stmts):
    """the identity must hold under BOTH identifier quoting styles format offers, also when the two are used in the
    same process in either order: format(t) is read back by parse, format(t, ansi_quotes=False) by parse_mysql
    (for which a double-quoted text would be a string literal)"""
    rep = ctx.rep
    R = C.real()
    rng = ctx.rng
    cand = [{"sql": s, "dialect": "common", "origin": "quoted-names"} for s in QUOTED_NAMES]
    pool_ = [st for st in stmts if st["dialect"] == "common" and '"' not in st["sql"] and "[" not in st["sql"] and "@" not in st["sql"]]
    cand += rng.sample(pool_, min(len(pool_), 150 if ctx.quick else 3000))
    for st in cand:
        r = R.parse_raw(st["sql"])
        rm = R.parse_raw(st["sql"], "mysql")
        if r[0] != "ok" or not in_fragment(r[1]) or rm[0] != "ok" or first_diff(r[1], rm[1]) is not None:
            rep.count("quoting", "skipped")
            continue
        t = r[1]
        # the plain round trip must hold first (its failures are reported by the main loop)
        f0 = R.format_raw(t)
        if f0[0] != "ok":
            continue
        r0 = R.parse_raw(f0[1])
        if r0[0] != "ok" or first_diff(t, r0[1]) is not None:
            rep.count("quoting", "skipped-plain-roundtrip-fails")
            continue
        order = [True, False] if rng.random() < 0.5 else [False, True]
        for ansi in order + order[:1]:
            f = R.format_raw(t, ansi_quotes=ansi)
            rep.case("%s|%s" % (ansi, st["sql"]))
            rep.count("quoting", "ansi" if ansi else "backtick")
            if f[0] != "ok":
                rep.finding("quoting:format-raises", "format(parse(%r), ansi_quotes=%s) raised %s" % (st["sql"][:140], ansi, f[1]),
                            {"sql": st["sql"], "dialect": "common", "kind": "quoting", "order": order})
                continue
            r2 = R.parse_raw(f[1], "common" if ansi else "mysql")
            if r2[0] != "ok" or first_diff(t, r2[1]) is not None:
                rep.finding("quoting:%s-style-roundtrip" % ("ansi" if ansi else "backtick"),
                            "format(parse(%r), ansi_quotes=%s) = %r is read back as %s" % (st["sql"][:120], ansi, f[1][:160], (C.cdump(C.canon(r2[1]))[:160] if r2[0] == "ok" else r2[1])),
                            {"sql": st["sql"], "dialect": "common", "kind": "quoting", "order": order})


def search(ctx):
    run(ctx, scale=4)


def replay(ctx, p):
    R = C.real()
    if p.get("kind") == "quoting":
        t = R.parse_raw(p["sql"])[1]
        bad = False
        for ansi in p["order"] + p["order"][:1]:
            f = R.format_raw(t, ansi_quotes=ansi)
            r2 = R.parse_raw(f[1], "common" if ansi else "mysql") if f[0] == "ok" else ("err",)
            print(ansi, f[1] if f[0] == "ok" else f)
            if r2[0] != "ok" or first_diff(t, r2[1]) is not None:
                bad = True
        return bad
    r = R.parse_raw(p["sql"], p["dialect"])
    print(r)
    if r[0] != "ok":
        return False
    f = R.format_raw(r[1])
    print(f)
    if f[0] != "ok":
        return True
    r2 = R.parse_raw(f[1])
    print(r2)
    return not (r2[0] == "ok" and first_diff(r[1], r2[1]) is None)
