"""C15 — a call's result depends only on its arguments, not on what was called before."""
import itertools
import json
import os
import subprocess
from concurrent.futures import ThreadPoolExecutor

import common as C
import precprobe

ASSUMPTIONS = [
    "the matcher is abstract in the model: that a parser built for (dialect, all_columns) does not depend on which other "
    "parsers exist (grammar objects shared between the eight parsers) is an assumption of the theorem, exercised by the "
    "creation-order histories",
    "every history runs in a fresh interpreter; the expected outcome of a probe is that probe alone in a fresh interpreter",
    "the one-shot double-quote warning (stderr) is not part of a call's result",
]

FNS = ["parse", "parse_mysql", "parse_sqlserver", "parse_bigquery"]
WORKER = os.path.join(C.VERIF, "tools", "histworker.py")


def call(fn, sql, **kw):
    return {"fn": fn, "sql": sql, "kw": kw}


# ---- calls that may precede (the history alphabet)
def alphabet():
    A = []
    for fn in FNS:
        A.append(call(fn, "select a, sum(b) from t where c is null"))
        A.append(call(fn, "select * from t", all_columns="*"))
        A.append(call(fn, "select f(null, x) from t", null={"$none": 1}, calls="normal_op"))
        A.append(call(fn, "select g(null) from t", null={"N": {"$i": "0"}}, calls="custom"))
        A.append(call(fn, "select from where"))                       # rejected
        A.append(call(fn, "select 'a\\'"))                            # a parse action raises
        A.append(call(fn, "select sum(x) over (order by y range between x preceding and y following) from t"))
        A.append(call(fn, 'select "q" from t; select 2'))
        A.append(call(fn, "create table t (a varchar(5) default 'x', b int not null)"))
    A.append(call("parse", "select sum(a), f(null) from t", fmap={"sum": "total", "f": "g"}))
    # calls that install options and then do NOT return normally
    A.append(call("parse", "select sum(a) from", fmap={"sum": "total", "f": "g", "missing": "is_null"}))
    A.append(call("parse", "select 1; select sum(a) from", fmap={"sum": "total", "f": "g"}))
    A.append(call("parse", "select 'a\\', sum(a)", fmap={"sum": "total"}, calls="normal_op", null={"$none": 1}))
    for fn in FNS[1:]:
        A.append(call(fn, "select sum(a) from", is_null={"sum": "total", "f": "g", "missing": "is_null"}))
    for fn in FNS:
        A.append(call(fn, "select f(null) from", calls="normal_op", null={"Z": {"$i": "9"}}))
        A.append(call(fn, "select f(null) frum t", calls="custom", all_columns="*"))
    # one call, several blocks (DELIMITER): the options of the call must hold for every block of it
    for fn in FNS:
        A.append(call(fn, "delimiter $$\nselect f(null) $$\nselect sum(a), g(null, 1) from t $$\nselect h(2) $$\n", calls="normal_op", null={"D": {"$i": "4"}}))
        A.append(call(fn, "select k(1);\ndelimiter //\nselect sum(b) from u //\nselect f(null), sum(c) from v //\ndelimiter ;\nselect g(null)", calls="custom"))
    A.append(call("parse", "delimiter //\nselect sum(a) from t //\nselect sum(b), f(null) from u //\nselect sum(c) from w //\n", fmap={"sum": "total", "f": "g"}))
    # deeply bracketed input, accepted and rejected (a call that raises half-way must leave nothing behind)
    for fn in FNS[:2]:
        A.append(call(fn, "select " + "(" * 40 + "a" + ")" * 39))
        A.append(call(fn, "select " + "(" * 30 + "a + 1" + ")" * 30 + " from t where x in (" * 6 + "select 1" + ")" * 5))
    A.append(call("parse", "select -inf"))
    A.append(call("parse", "select a from t", fmap={"select": "pick"}, calls="normal_op", null={"$i": "7"}))
    A.append({"fn": "format", "tree": {"select": {"value": {"add": ["a", {"$i": "1"}]}}, "from": "order"}})
    A.append({"fn": "format", "tree": {"select": {"value": "a"}, "from": "t"}, "kw": {"ansi_quotes": False}})
    A.append({"fn": "format", "tree": {"nonsense": {"$i": "1"}}})
    # the same names under both quoting styles (a per-name memo must not outlive the call's options)
    A.append({"fn": "format", "tree": QTREE})
    A.append({"fn": "format", "tree": QTREE, "kw": {"ansi_quotes": False}})
    return A


QTREE = {"select": [{"value": "order"}, {"value": "t.a", "name": "my col"}], "from": {"value": "group", "name": "t"}, "where": {"eq": ["select", {"$i": "1"}]}}


# ---- probes: sensitive to every piece of leaked state
def probes():
    P = []
    for fn in FNS:
        P.append(("default:" + fn, call(fn, "select f(null), sum(x), a is null from t")))
        P.append(("dq:" + fn, call(fn, 'select "a" from "t"')))
        P.append(("ddl-dq:" + fn, call(fn, 'create table t (a varchar(5) default "x")')))
        # quoted text INSIDE a column type (generated-column expression, ENUM list, STRUCT member default)
        P.append(("ddl-type-dq:" + fn, call(fn, 'create table t (a varchar(9), b varchar(9) as (concat(a, "x")), c enum("x", "y"), d struct<e int default "z">, f as ([a] + 1))')))
        P.append(("ddl-gen-dq:" + fn, call(fn, 'create table t (a varchar(9), b varchar(9) as (concat(a, "x")))')))
        P.append(("ddl-enum-dq:" + fn, call(fn, 'create table t (c enum("x", "y"))')))
        P.append(("star:" + fn, call(fn, "select * from t")))
        P.append(("star-old:" + fn, call(fn, "select * from t", all_columns="*")))
        P.append(("bracket:" + fn, call(fn, "select [a] from t")))
        P.append(("normal:" + fn, call(fn, "select f(null, 1) from t", calls="normal_op")))
        P.append(("reject:" + fn, call(fn, "select a from t where")))
        # a call inside a window frame offset is simplified DURING matching (windows.py), not after it
        P.append(("frame-call:" + fn, call(fn, "select sum(x) over (order by d range between date_sub(d, 7) preceding and current row) from t")))
        # the whole operator table (every ordered pair of levels unparenthesised): a parser whose operator order
        # depends on which parsers were built before shows here
        P.append(("operators:" + fn, call(fn, ";\n".join(precprobe.statements()))))
    P.append(("null-x:parse", call("parse", "select null, f(null) from t", null={"X": {"$i": "1"}})))
    P.append(("fmap:parse", call("parse", "select sum(a) from t", fmap={"sum": "plus"})))
    P.append(("format", {"fn": "format", "tree": {"select": {"value": {"mul": [{"add": ["a", "b"]}, "c"]}}, "from": "select"}}))
    P.append(("script:parse", call("parse", "select 1; select f(null)")))
    P.append(("format-names", {"fn": "format", "tree": QTREE}))
    P.append(("process-settings", {"fn": "env"}))
    P.append(("format-names-backtick", {"fn": "format", "tree": QTREE, "kw": {"ansi_quotes": False}}))
    return P


def run_history(calls, timeout=300):
    p = subprocess.run([C.PY, "-W", "ignore", WORKER], input=json.dumps({"calls": calls}).encode(), capture_output=True, timeout=timeout,
                       env=dict(os.environ, VERIF_REPO=C.REPO))
    if p.returncode != 0:
        raise C.InfraError("history worker failed: " + p.stderr.decode("utf8", "replace")[-800:])
    return json.loads(p.stdout.decode("utf8"))


def pmap(f, xs, n=12):
    with ThreadPoolExecutor(max_workers=n) as ex:
        return list(ex.map(f, xs))


def run(ctx, scale=1):
    rep = ctx.rep
    rng = ctx.rng
    A = alphabet()
    P = probes()
    # expected: each probe alone in a fresh interpreter
    exp = pmap(lambda pc: C.cdump(run_history([pc[1]])[0]), P)
    expected = {name: e for (name, _), e in zip(P, exp)}
    for (name, c), e in zip(P, exp):
        rep.sample({"probe": name, "fresh": json.loads(e)}, limit=3)
    # determinism of the reference itself
    again = pmap(lambda pc: C.cdump(run_history([pc[1]])[0]), P[:6])
    for (name, _), e in zip(P[:6], again):
        if e != expected[name]:
            raise C.InfraError("probe %s is not deterministic across fresh interpreters" % name)

    histories = []
    # creation orders of the eight cached parsers: every ordered pair, then all probes
    keys = [(fn, ac) for fn in FNS for ac in (None, "*")]

    def mk(k):
        return call(k[0], "select 1", **({"all_columns": k[1]} if k[1] else {}))

    pairs = [(a, b) for a in keys for b in keys if a != b]
    if ctx.quick:
        pairs = rng.sample(pairs, 14 * scale if 14 * scale < len(pairs) else len(pairs))
    for a, b in pairs:
        histories.append(("creation-order", [mk(a), mk(b)]))
    # all sequences of length <= 2 (quick: sampled) / <= 3 (thorough: sampled) over the alphabet
    seq2 = list(itertools.product(range(len(A)), repeat=2))
    pick2 = rng.sample(seq2, (60 if ctx.quick else 500) * scale)
    for i, j in pick2:
        histories.append(("len2", [A[i], A[j]]))
    for i in range(len(A)):
        histories.append(("len1", [A[i]]))
    for _ in range((10 if ctx.quick else 1000) * scale):
        histories.append(("len3", [rng.choice(A) for _ in range(3)]))
    for _ in range((8 if ctx.quick else 60) * scale):
        histories.append(("long", [rng.choice(A) for _ in range(rng.choice([50, 120, 400] if not ctx.quick else [40, 80]))]))

    def one(h):
        kind, calls = h
        # the (long) operator-table probes follow the histories that build parsers in a particular order and the
        # single calls; the other histories get the short probes
        order = [i for i in range(len(P)) if kind in ("creation-order", "len1") or not P[i][0].startswith("operators:")]
        import hashlib
        import random
        r = random.Random(int(hashlib.sha1(json.dumps(calls, sort_keys=True).encode()).hexdigest()[:8], 16))
        r.shuffle(order)
        outs = run_history(calls + [P[i][1] for i in order])
        return [(P[i][0], C.cdump(o)) for i, o in zip(order, outs[len(calls):])], order

    # ---- structure: the grammar graph a (dialect, all_columns) parser is built as must not depend on which parsers
    #      were built before it (the theorem's assumption about the abstract matcher).  Compared as multisets of node
    #      signatures: alone in a fresh interpreter / after each other parser / after all the others.
    def sig_call(k):
        return {"fn": "graphsig", "entry": k[0], "all_columns": k[1]}

    fresh_sig = dict(zip(keys, pmap(lambda k: run_history([sig_call(k)])[0].get("ok"), keys)))
    # … and a parser already built must not change when another one is built after it (history a, b — then a's graph)
    orders = [([a], b) for a, b in pairs] + [([x for x in keys if x != b], b) for b in keys] + [([a, b], a) for a, b in pairs]
    sigs = pmap(lambda ob: run_history([mk(a) for a in ob[0]] + [sig_call(ob[1])])[-1].get("ok"), orders)
    for (before, b), sg in zip(orders, sigs):
        rep.count("graph_signature", "after-%d" % len(before))
        rep.case("graphsig:" + json.dumps([before, b]))
        if sg == fresh_sig[b] or sg is None or fresh_sig[b] is None:
            if sg is None or fresh_sig[b] is None:
                raise C.InfraError("graph signature not available for %r" % (b,))
            continue
        added = sorted(k for k in sg if sg.get(k, 0) > fresh_sig[b].get(k, 0))
        removed = sorted(k for k in fresh_sig[b] if fresh_sig[b].get(k, 0) > sg.get(k, 0))
        # a failing input: the new terminals tried as operators / keywords in a few places
        words = []
        for sgn in added:
            parts = sgn.split("|")
            if len(parts) > 2 and parts[2] and parts[2] not in words:
                words.append(parts[2])
        found = None
        searched = getattr(run, "_searched", 0)
        run._searched = searched + 1
        for w in (words[:4] if searched < 2 else []):
            for tpl in ("select a {w} b from t", "select a from t where a {w} 1", "select {w} a from t", "select a from t {w}", "select a {w} from t", "{w} select 1"):
                pc = call(b[0], tpl.format(w=w), **({"all_columns": b[1]} if b[1] else {}))
                alone = C.cdump(run_history([pc])[0])
                after = C.cdump(run_history([mk(a) for a in before] + [pc])[-1])
                if alone != after:
                    found = (pc, alone, after)
                    break
            if found:
                break
        if found:
            pc, alone, after = found
            rep.finding("history-dependent:grammar", "after building %s, %s returns %s instead of %s" % (
                json.dumps(before), json.dumps(pc, sort_keys=True)[:160], after[:160], alone[:160]),
                {"kind": "history-call", "history": [mk(a) for a in before], "call": pc}, sub=b[0])
        else:
            rep.tie_break("structure", "grammar graph of %s depends on creation order" % (b,),
                          {"built_before": before, "added_nodes": added[:20], "removed_nodes": removed[:20]})

    results = pmap(one, histories)
    for (kind, calls), (res, order) in zip(histories, results):
        rep.count("history", kind)
        rep.case(json.dumps(calls, sort_keys=True))
        for name, got in res:
            rep.count("probe_evaluations")
            if got != expected[name]:
                # which probe, and what kind of call preceded
                last = calls[-1]
                what = "after %d call(s) ending with %s, probe %s returned %s instead of %s" % (
                    len(calls), json.dumps(last, sort_keys=True)[:160], name, got[:160], expected[name][:160])
                rep.finding("history-dependent:" + name.split(":")[0], what,
                            {"kind": "history", "history": calls, "probe_order": [P[i][0] for i in order], "probe": name},
                            sub=name)


def search(ctx):
    run(ctx, scale=3)


def replay(ctx, p):
    if p.get("kind") == "history-call":
        after = run_history(p["history"] + [p["call"]])[-1]
        alone = run_history([p["call"]])[0]
        print(C.cdump(after))
        print(C.cdump(alone))
        return C.cdump(after) != C.cdump(alone)
    P = dict(probes())
    order = p.get("probe_order") or [p["probe"]]
    outs = run_history(p["history"] + [P[n] for n in order])
    got = dict(zip(order, outs[len(p["history"]):]))
    fresh = run_history([P[p["probe"]]])[0]
    print(C.cdump(got[p["probe"]]))
    print(C.cdump(fresh))
    return C.cdump(got[p["probe"]]) != C.cdump(fresh)
