#!/venv/bin/python
"""Tie A — the translator.

Imports /repo's *current* working tree in a fresh process and regenerates
`lean/MoSql/Gen/*.lean` (plus `build/gen.json` for the harness).  Nothing in /repo is
modified: `mo_parsing.infix_notation` is wrapped before `mo_sql_parsing` is imported so that
the operator table actually handed to the precedence parser is recorded.

Generated files are only rewritten when their content changes (so `lake build` is a no-op
on an unchanged tree).
"""
import ast
import importlib
import inspect
import json
import os
import re
import sys

VERIF = os.path.dirname(os.path.dirname(os.path.abspath(__file__)))
REPO = os.environ.get("VERIF_REPO", "/repo")
sys.path.insert(0, REPO)
sys.path.insert(1, os.path.join(VERIF, "tools"))
os.environ.setdefault("MO_SQL_PARSING_VERIF", "1")

import ref  # noqa: E402
import extract_effects  # noqa: E402


def lean_str(s):
    out = ['"']
    for ch in s:
        if ch == '"':
            out.append('\\"')
        elif ch == "\\":
            out.append("\\\\")
        elif ch == "\n":
            out.append("\\n")
        elif ch == "\t":
            out.append("\\t")
        elif ch == "\r":
            out.append("\\r")
        elif ord(ch) < 32 or ord(ch) == 127:
            out.append("\\x%02x" % ord(ch))
        else:
            out.append(ch)
    out.append('"')
    return "".join(out)


def write_if_changed(path, text):
    os.makedirs(os.path.dirname(path), exist_ok=True)
    try:
        with open(path) as f:
            if f.read() == text:
                return False
    except FileNotFoundError:
        pass
    tmp = path + ".tmp%d" % os.getpid()
    with open(tmp, "w") as f:
        f.write(text)
    os.replace(tmp, path)
    return True


class Extraction:
    def __init__(self):
        self.problems = []  # things that make the tie unusable (reported by the checks)
        self.data = {}

    def problem(self, where, what):
        self.problems.append({"where": where, "what": what})


def record_infix():
    import mo_parsing
    import mo_parsing.infix as mi

    rec = []
    orig = mi.infix_notation

    def wrap(base, spec, *a, **k):
        rec.append((base, list(spec)))
        return orig(base, spec, *a, **k)

    mi.infix_notation = wrap
    mo_parsing.infix_notation = wrap
    return rec


def extract_levels(X, rec):
    """the spec list passed to infix_notation for `expression`"""
    from mo_parsing import RIGHT_ASSOC
    import mo_sql_parsing.utils as U

    cands = [(b, s) for b, s in rec if len(s) > 5]
    if not cands:
        X.problem("levels", "no infix_notation call with an operator table was recorded")
        return
    # every parser build records the same table shape; use the first (common_parser, all_columns=None)
    base, spec = cands[0]
    ids = {}
    levels = []
    elements = []
    acts = {"to_json_operator": 0, "to_offset": 1, "to_window_mod": 2}
    for i, od in enumerate(spec):
        op, arity, assoc = od[0], od[1], od[2]
        action = od[3] if len(od) > 3 else None
        aname = getattr(action, "__name__", str(action))
        parts = op if isinstance(op, tuple) else (op,)
        for o in parts:
            ids.setdefault(id(o), len(ids))
        if arity == 1:
            kind = "pre" if assoc is RIGHT_ASSOC else "suf"
        elif arity == 2:
            kind = "bin"
            if assoc is RIGHT_ASSOC:
                X.problem("levels", "binary level %d is right-associative: not covered by the model" % i)
        else:
            kind = "tern"
        if aname not in acts:
            X.problem("levels", "level %d has unmodelled parse action %s" % (i, aname))
        from mo_parsing.enhancement import Suppress

        for o in parts:
            if isinstance(o, Suppress):
                X.problem("levels", "level %d operator is suppressed: not covered by the model" % i)
        levels.append({
            "index": i,
            "kind": kind,
            "id0": ids[id(parts[0])],
            "id1": ids[id(parts[1])] if len(parts) > 1 else 0,
            "act": acts.get(aname, 99),
            "action": aname,
            "names": [str(getattr(o, "parser_name", "")) for o in parts],
        })
        elements.append(parts)

    def matches(op, text):
        try:
            op.parse_string(text, parse_all=True)
            return True
        except Exception:
            return False

    def tok_name(op, text):
        """what to_json_operator calls a binary operator token: the token text if the token is text,
        otherwise the parser_name of the element that produced the token (Group operators)"""
        from mo_parsing.enhancement import Group
        from mo_parsing.expressions import MatchFirst

        def pick(o):
            if isinstance(o, MatchFirst):
                for alt in o.exprs:
                    if matches(alt, text):
                        return pick(alt)
            return o

        el = pick(op)
        if isinstance(el, Group):
            name = str(el.parser_name)
        else:
            toks = list(el.parse_string(text, parse_all=True))
            if len(toks) == 1 and isinstance(toks[0], str):
                name = toks[0]
            else:
                name = str(el.parser_name)
        return U.binary_ops.get(name, name)

    ops = []

    def find(kind, text, part=0):
        for lv, parts in zip(levels, elements):
            if lv["kind"] != kind:
                continue
            if matches(parts[part], text):
                return lv, parts
        return None, None

    for key, text in ref.BINARY:
        lv, parts = find("bin", text)
        if lv is None:
            X.problem("ops", "binary operator %r is not matched by any binary level" % text)
            continue
        try:
            name = tok_name(parts[0], text)
        except Exception as e:  # pragma: no cover
            X.problem("ops", "cannot name %r: %r" % (text, e))
            continue
        ops.append({"key": key, "text": text, "text2": "", "kind": "bin", "level": lv["index"], "id": lv["id0"],
                    "id2": 0, "name": name, "payload": text.lower()})
    for key, text in ref.PREFIX:
        lv, parts = find("pre", text)
        if lv is None:
            X.problem("ops", "prefix operator %r is not matched by any prefix level" % text)
            continue
        toks = list(parts[0].parse_string(text, parse_all=True))
        payload = toks[0] if len(toks) == 1 and isinstance(toks[0], str) else text.lower()
        ops.append({"key": key, "text": text, "text2": "", "kind": "pre", "level": lv["index"], "id": lv["id0"],
                    "id2": 0, "name": str(parts[0].parser_name), "payload": payload})
    for key, t0, t1 in ref.TERNARY:
        lv, parts = find("tern", t0)
        if lv is None or not matches(parts[1], t1):
            X.problem("ops", "ternary operator %r is not matched by any ternary level" % t0)
            continue
        name = tok_name(parts[0], t0)
        ops.append({"key": key, "text": t0, "text2": t1, "kind": "tern", "level": lv["index"], "id": lv["id0"],
                    "id2": lv["id1"], "name": name, "payload": t0.lower()})
    for key, text in ref.CAST:
        hit = None
        for lv, parts in zip(levels, elements):
            if lv["kind"] == "suf" and lv["act"] == 0 and matches(parts[0], text + " int"):
                hit = lv
                break
        if hit is None:
            X.problem("ops", "cast operator %r is not matched by any suffix level" % text)
            continue
        ops.append({"key": key, "text": text, "text2": "", "kind": "suf", "level": hit["index"], "id": hit["id0"],
                    "id2": 0, "name": "cast", "payload": text})

    # the literal set of associative operators inside to_json_operator
    assoc = None
    try:
        tree = ast.parse(inspect.getsource(U.to_json_operator))
        for node in ast.walk(tree):
            if isinstance(node, ast.Compare) and len(node.ops) == 1 and isinstance(node.ops[0], ast.In):
                comp = node.comparators[0]
                if isinstance(comp, (ast.Set, ast.List, ast.Tuple)) and all(isinstance(e, ast.Constant) for e in comp.elts):
                    vals = [e.value for e in comp.elts]
                    if "add" in vals or "mul" in vals or "and" in vals:
                        assoc = sorted(vals)
    except Exception as e:
        X.problem("assoc", "cannot read to_json_operator source: %r" % (e,))
    if assoc is None:
        X.problem("assoc", "flattening set not found in to_json_operator")
        assoc = []
    X.data["levels"] = levels
    X.data["ops"] = ops
    X.data["assoc"] = assoc
    X.data["binary_ops"] = dict(U.binary_ops)


def gen_levels_lean(X):
    L = X.data.get("levels", [])
    ops = X.data.get("ops", [])
    lines = [
        "import MoSql.Expr",
        "/- GENERATED by tools/extract.py from /repo's working tree — do not edit. -/",
        "namespace MoSql.Gen",
        "open MoSql.Infix",
        "",
        "/-- the operator table handed to `infix_notation` (one entry per precedence level, tightest first) -/",
        "def levels : List Level := [",
    ]
    for i, lv in enumerate(L):
        sep = "," if i + 1 < len(L) else ""
        lines.append("  ⟨Kind.%s, %d, %d, %d⟩%s  -- %d %s %s" % (
            lv["kind"], lv["id0"], lv["id1"], lv["act"], sep, lv["index"], "/".join(lv["names"]), lv["action"]))
    lines.append("]")
    lines.append("")
    lines.append("/-- the literal set of associative operators in `to_json_operator` -/")
    lines.append("def assocSet : List String := [%s]" % ", ".join(lean_str(a) for a in X.data.get("assoc", [])))
    lines.append("")
    lines.append("/-- every reference spelling, located in the table above -/")
    lines.append("def ops : List OpInfo := [")
    for i, o in enumerate(ops):
        sep = "," if i + 1 < len(ops) else ""
        lines.append(
            "  { key := %s, text := %s, text2 := %s, kind := Kind.%s, level := %d, id := %d, id2 := %d, name := %s, payload := %s }%s"
            % (lean_str(o["key"]), lean_str(o["text"]), lean_str(o["text2"]), o["kind"], o["level"], o["id"], o["id2"],
               lean_str(o["name"]), lean_str(o["payload"]), sep))
    lines.append("]")
    lines.append("")
    lines.append("def opInfo' (key : String) : OpInfo := (ops.find? (fun o => o.key == key)).getD default")
    lines.append("")
    lines.append("def ctx : E.Ctx := ⟨levels, assocSet⟩")
    lines.append("")
    lines.append("end MoSql.Gen")
    return "\n".join(lines) + "\n"


def extract_formatter(X):
    """keywords.precedence, and every Formatter._x built by Operator(...) (closure cells op/op_prec/ordered)"""
    from mo_sql_parsing import formatting as F
    from mo_sql_parsing import keywords as K

    prec = {k: v for k, v in K.precedence.items()}
    X.data["precedence"] = prec
    ops = []
    by_text = {}
    for o in X.data.get("ops", []):
        if o["kind"] == "bin":
            by_text.setdefault(o["text"].upper(), o)
    class Probe(F.Formatter):
        def __init__(self):
            super().__init__()
            self.seen = []

        def dispatch(self, json, prec=100):
            if isinstance(json, str) and json in ("x1", "x2", "x3"):
                self.seen.append(prec)
            return super().dispatch(json, prec)

    def behaviour(name):
        """what an `Operator(...)` renderer does, measured: the text it joins with, the precedence it gives its
        operands (two operands: left / right; three: all alike = its own precedence), and where it brackets itself.
        None if the renderer does not behave like one."""
        try:
            p2 = Probe()
            t2 = getattr(p2, name)(["x1", "x2"], 100)
            p3 = Probe()
            t3 = getattr(p3, name)(["x1", "x2", "x3"], 100)
        except Exception:
            return None
        if len(p2.seen) != 2 or len(p3.seen) != 3 or len(set(p3.seen)) != 1:
            return None
        if not (t2.startswith("x1 ") and t2.endswith(" x2")):
            return None
        text = t2[3:-3]
        if t3 != "x1 %s x2 %s x3" % (text, text):
            return None
        own = p3.seen[0]
        lp, rp = p2.seen
        if rp == own and lp == own:
            ordered, chains = False, True
        elif rp == own - 0.5 and lp == own + 0.5:
            ordered, chains = True, True
        elif rp == own - 0.5 and lp == own - 0.5:
            ordered, chains = True, False
        else:
            return None
        # brackets: bare above its own precedence, and at it exactly when unordered
        for pr, bare in ((own + 0.5, True), (own, not ordered), (own - 0.5, False)):
            out = getattr(Probe(), name)(["x1", "x2"], pr)
            if (out == t2) != bare or (not bare and out != "(" + t2 + ")"):
                return None
        return {"text": text, "prec2": 2 * own, "ordered": ordered, "chains": chains}

    for name in sorted(vars(F.Formatter)):
        f = vars(F.Formatter)[name]
        if not name.startswith("_") or name.startswith("__") or not callable(f):
            continue
        cells = {}
        if getattr(f, "__closure__", None):
            cells = dict(zip(f.__code__.co_freevars, [c.cell_contents for c in f.__closure__]))
        structural = None
        if "op_prec" in cells and "op" in cells:
            structural = {"text": str(cells["op"]).strip(), "prec2": 2 * cells["op_prec"], "ordered": bool(cells.get("ordered", True)),
                          # `chains`: a op b op c is read as (a op b) op c; without it the left operand is isolated as well
                          # (a source that has no such parameter behaves as chains=True)
                          "chains": bool(cells.get("chains", True))}
        if structural is None and not getattr(f, "__closure__", None):
            continue            # a hand-written method: measured separately (HAND_OPS)
        measured = behaviour(name)
        explicit = structural is not None and all(k in cells for k in ("op", "op_prec", "ordered", "chains"))
        if explicit and measured is not None and structural != measured:
            X.problem("formatter", "renderer %s: its closure cells say %s, it behaves like %s" % (name, structural, measured))
        # what the renderer DOES is the table; the closure cells are the twin that is compared when they are all there
        row = measured or structural
        if row is None:
            continue
        if row["prec2"] != int(round(row["prec2"])):
            X.problem("formatter", "precedence of %s is not a multiple of 0.5" % name)
        info = by_text.get(row["text"].upper())
        ops.append({"name": name[1:], "text": row["text"], "prec2": int(round(row["prec2"])), "ordered": row["ordered"],
                    "chains": row["chains"], "key": info["key"] if info else None})
    X.data["fmt_ops"] = ops
    X.data["fmt_methods"] = sorted(n for n in dir(F.Formatter) if n.startswith("_") and not n.startswith("__"))
    X.data["unordered_clauses"] = list(F.unordered_clauses)
    X.data["ordered_clauses"] = list(F.ordered_clauses)
    X.data["join_keywords"] = sorted(K.join_keywords)


HAND_OPS = [
    # JSON name, kind, key of the parser's operator row, text of the fixed right operand (binA)
    ("not", "pre", "not", ""), ("binary_not", "pre", "u~", ""),
    ("missing", "binA", "is", "NULL"), ("exists", "binA", "is not", "NULL"),
    ("in", "binA", "in", "( x )"), ("nin", "binA", "not in", "( x )"),
    ("regexp", "bin", "regexp", ""), ("not_regexp", "bin", "not regexp", ""),
    ("between", "tern", "between", ""), ("not_between", "tern", "not between", ""),
]


def measure_renderers(X):
    """what every expression renderer of the formatter does with precedence, MEASURED on the real Formatter:
    selfMin = the least 2*prec at which it writes itself without parentheses; s0.. = 2*prec each operand is
    dispatched with (recorded by a subclass that overrides dispatch)"""
    from mo_sql_parsing import formatting as F

    class Rec(F.Formatter):
        def __init__(self):
            super().__init__()
            self.seen = {}

        def dispatch(self, json, prec=100):
            if isinstance(json, str) and json in ("x1", "x2", "x3"):
                self.seen.setdefault(json, prec)
            return super().dispatch(json, prec)

    def wrapped(text):
        if not (text.startswith("(") and text.endswith(")")):
            return False
        depth = 0
        for i, ch in enumerate(text):
            if ch == "(":
                depth += 1
            elif ch == ")":
                depth -= 1
                if depth == 0 and i != len(text) - 1:
                    return False
        return True

    rows = []
    oper = [(o["name"], "bin", o["key"], "") for o in X.data.get("fmt_ops", []) if o.get("key")]
    for name, kind, key, atom in oper + HAND_OPS:
        meth = getattr(F.Formatter, "_" + name, None)
        if meth is None:
            X.problem("formatter", "renderer _%s is gone" % name)
            continue
        value = {"pre": "x1", "binA": "x1", "bin": ["x1", "x2"], "tern": ["x1", "x2", "x3"]}[kind]
        if name in ("in", "nin"):
            value = ["x1", ["x2", "x3"]]
        bare_at = []
        slots = None
        ok = True
        for p2 in range(-6, 61):
            r = Rec()
            try:
                text = getattr(r, "_" + name)(value, p2 / 2.0)
            except Exception as e:
                X.problem("formatter", "renderer _%s raised %s at prec %s" % (name, type(e).__name__, p2 / 2.0))
                ok = False
                break
            bare_at.append((p2, not wrapped(text)))
            sl = [int(round(2 * r.seen.get(k, 100))) for k in ("x1", "x2", "x3")]
            if slots is None:
                slots = sl
            elif slots != sl:
                X.problem("formatter", "renderer _%s dispatches its operands differently depending on prec" % name)
        if not ok:
            continue
        first_bare = next((p2 for p2, b in bare_at if b), None)
        if first_bare is None:
            first_bare = 1000
        if any(b != (p2 >= first_bare) for p2, b in bare_at):
            X.problem("formatter", "renderer _%s: parenthesisation is not monotone in prec" % name)
        n = {"pre": 1, "binA": 1, "bin": 2, "tern": 3}[kind]
        rows.append({"name": name, "kind": kind, "selfMin": first_bare if first_bare > -6 else -1000, "slots": slots[:n], "key": key, "atom": atom})
    X.data["all_ops"] = rows


def gen_fmt_lean(X):
    ops = [o for o in X.data.get("fmt_ops", []) if o["key"] is not None]
    known = [f for f in load_known() if f["property"] == "C04" and f["key"].startswith("fmt-triple:")]
    lines = [
        "import MoSql.Format",
        "import MoSql.Format2",
        "import MoSql.Gen.Levels",
        "/- GENERATED by tools/extract.py from /repo's working tree — do not edit. -/",
        "namespace MoSql.Gen",
        "",
        "def opInfo (key : String) : OpInfo := (ops.find? (fun o => o.key == key)).getD default",
        "",
        "/-- every `Formatter._x = Operator(...)` that writes an expression operator:",
        "    JSON name, 2 × precedence number, `ordered`, `chains`, and the parser's row for the text it writes -/",
        "def fmtOps : List FmtOp := [",
    ]
    for i, o in enumerate(ops):
        sep = "," if i + 1 < len(ops) else ""
        lines.append("  { name := %s, prec2 := %d, ordered := %s, chains := %s, info := opInfo %s }%s" % (
            lean_str(o["name"]), o["prec2"], "true" if o["ordered"] else "false", "true" if o.get("chains", True) else "false",
            lean_str(o["key"]), sep))
    lines.append("]")
    lines.append("")
    lines.append("/-- (outer, slot, inner) triples listed in known_findings.json for which the formatter is known to omit needed parentheses -/")
    lines.append("def knownFmtTriples : List (String × Nat × String) := [")
    ks = []
    for f in known:
        o, s_, c = f["key"][len("fmt-triple:"):].split(",")
        ks.append("  (%s, %s, %s)" % (lean_str(o), s_, lean_str(c)))
    lines.append(",\n".join(ks))
    lines.append("]")
    lines.append("")
    lines.append("/-- every expression renderer (Operator-built and hand-written) with what it does with precedence, MEASURED on")
    lines.append("    the real Formatter: least 2·prec at which it writes itself bare, and 2·prec each operand is dispatched with -/")
    lines.append("def allOps : List HOp := [")
    rows = []
    for o in X.data.get("all_ops", []):
        sl = o["slots"] + [0, 0, 0]
        rows.append("  { name := %s, kind := .%s, selfMin := %d, s0 := %d, s1 := %d, s2 := %d, info := opInfo %s, atomText := %s, flat := %s }" % (
            lean_str(o["name"]), o["kind"], o["selfMin"], sl[0], sl[1], sl[2], lean_str(o["key"]), lean_str(o["atom"]),
            "true" if o["name"] in (X.data.get("assoc") or []) else "false"))
    lines.append(",\n".join(rows))
    lines.append("]")
    lines.append("")
    lines.append("end MoSql.Gen")
    return "\n".join(lines) + "\n"


LEXEMES = ["real_num", "int_num", "hex_num", "ansi_string", "regex_string", "mysql_doublequote_string", "ansi_ident",
           "mysql_backtick_ident", "sqlserver_ident", "ident_w_dash", "simple_ident", "sqlserver_local_ident"]



# ---------------------------------------------------------------------------------------------------------------
# Pinned regular expressions and equivalent rewrites.  The obligations `patterns_pinned`, `terminals_pinned`,
# `engines_pinned` and the node signatures of `dialect_diff_confined` compare pattern TEXTS with the ones the models were
# written against (lean/MoSql/Ref.lean).  A maintainer may rewrite a pattern into an equivalent one; so a pattern whose
# text is not a pinned one is compared with every pinned pattern on a corpus of strings (all strings up to length 4
# over the characters that matter to these tokens, plus random longer ones): if it behaves exactly like a pinned one
# (same match / same end everywhere) the pinned text is emitted for it, and the rewrite is recorded in gen.json.
_PINNED = None
_CANON_CACHE = {}
_CORPUS = None


def _lean_unescape(t):
    out, i = [], 0
    while i < len(t):
        c = t[i]
        if c == "\\" and i + 1 < len(t):
            n = t[i + 1]
            out.append({"n": "\n", "t": "\t", "r": "\r"}.get(n, n))
            i += 2
        else:
            out.append(c)
            i += 1
    return "".join(out)


def pinned_patterns():
    global _PINNED
    if _PINNED is None:
        import re as _re
        _PINNED = []
        try:
            src = open(os.path.join(VERIF, "lean", "MoSql", "Ref.lean"), encoding="utf8").read()
        except OSError:
            src = ""
        for m in _re.finditer(r'"((?:\\.|[^"\\])*)"', src):
            t = _lean_unescape(m.group(1))
            if len(t) >= 6 and any(ch in t for ch in "[(\\*+?"):
                _PINNED.append(t)
    return _PINNED


def _corpus():
    global _CORPUS
    if _CORPUS is None:
        import itertools, random
        small = ["'", '"', "`", "[", "]", "\\", "0", "9", "a", "e", "E", "x", "N", "_", "$", "@", "-", "+", ".", " ", "\n", "r", "n", "\u00e9", "\u01bf", "\u01c0", "#", "/", "*", "d"]
        core = ["'", '"', "`", "[", "]", "\\", "0", "a", "e", "-", "+", ".", " ", "\n", "x", "_"]
        out = [""]
        for n in (1, 2):
            out += ["".join(p) for p in itertools.product(small, repeat=n)]
        for n in (3, 4):
            out += ["".join(p) for p in itertools.product(core[:11], repeat=n)]
        # dense where the lexical patterns decide: numbers (digits, point, exponent letter in both cases, signs) and quoted
        # text (the quote characters, backslash, a letter, a blank)
        for alpha, top in ((["0", "9", ".", "e", "E", "-", "+"], 5), (["'", '"', "`", "[", "]", "\\", "a", " "], 5), (["r", "R", "b", "N", "_", "'", '"', "x"], 4)):
            for n in range(3, top + 1):
                out += ["".join(p) for p in itertools.product(alpha, repeat=n)]
        r = random.Random(20260930)
        for _ in range(6000):
            out.append("".join(r.choice(small) for _ in range(r.randint(5, 14))))
        out += ["delimiter $$", " delimiter ;\n", "DELIMITER  //  ", "delimiter", "0x1F", "1e5", "1.5e-7", ".5", "5.", "1e-5", "_utf8'a'", "N'x'", "r'a\\'b'", "a-b", "a--b", "a-1"]
        _CORPUS = out
    return _CORPUS


_FP_TABLE = None
_FP_KNOWN = set()   # every pattern text of the pinned tree's graphs (those need no fingerprint)


def fingerprint(pat, flags=0):
    """behaviour of a pattern on the corpus (where it matches and how far), as a short hash; None if it does not compile"""
    import hashlib
    import re as _re
    try:
        rx = _re.compile(pat, flags)
    except _re.error:
        return None
    h = hashlib.sha1()
    for s_ in _corpus():
        m = rx.match(s_)
        h.update(b"-" if m is None else str(m.end()).encode())
        h.update(b",")
    return h.hexdigest()[:16]


def fp_table():
    """fingerprint -> the text under which the pinned tree writes that pattern (tools/pattern_canon.json, written by
    tools/dev_pattern_canon.py from the grammar graphs of the pinned tree; patterns that collide are left out)"""
    global _FP_TABLE
    if _FP_TABLE is None:
        try:
            d = json.load(open(os.path.join(VERIF, "tools", "pattern_canon.json"), encoding="utf8"))
            _FP_TABLE = d["table"]
            _FP_KNOWN.update(d["known"])
        except Exception:
            _FP_TABLE = {}
    return _FP_TABLE


def canon_pattern(pat, flags=0):
    """the pinned text if `pat` is a pinned pattern or behaves exactly like one on the corpus, else `pat` itself"""
    import re as _re
    key = (pat, flags)
    if key in _CANON_CACHE:
        return _CANON_CACHE[key]
    pins = pinned_patterns()
    res = pat
    known_texts = set(fp_table().values()) | _FP_KNOWN
    if pat and pat not in pins and pat not in known_texts:
        fp = fingerprint(pat, flags)
        if fp is not None and fp in fp_table():
            res = fp_table()[fp]
            REWRITES.append({"source": pat, "equivalent_pinned": res, "strings_compared": len(_corpus())})
            _CANON_CACHE[key] = res
            return res
    if pat not in pins and pat and pat not in known_texts:
        try:
            rx = _re.compile(pat, flags)
            mine = [(m.end() if m else None) for m in (rx.match(s) for s in _corpus())]
            for q in pins:
                try:
                    rq = _re.compile(q, flags)
                except _re.error:
                    continue
                if all((m.end() if m else None) == e for m, e in zip((rq.match(s) for s in _corpus()), mine)):
                    res = q
                    REWRITES.append({"source": pat, "equivalent_pinned": q, "strings_compared": len(_corpus())})
                    break
        except _re.error:
            pass
    _CANON_CACHE[key] = res
    return res


REWRITES = []


def extract_lexemes(X):
    """the regular expressions behind the literal / identifier tokens, and the delimiter pre-pass"""
    import mo_sql_parsing as M
    import mo_sql_parsing.utils as U
    from mo_sql_parsing import formatting as F

    def find(o, depth=0):
        out = []
        rx = getattr(o, "regex", None)
        if rx is not None and hasattr(rx, "pattern"):
            out.append(rx.pattern)
        e = getattr(o, "expr", None)
        if e is not None and depth < 4:
            out += find(e, depth + 1)
        for e in getattr(o, "exprs", None) or []:
            if depth < 4:
                out += find(e, depth + 1)
        return out

    pats = []
    for n in LEXEMES:
        o = getattr(U, n, None)
        if o is None:
            X.problem("lexemes", "utils.%s is gone" % n)
            continue
        ps = find(o)
        if not ps:
            X.problem("lexemes", "no regular expression found behind utils.%s" % n)
        pats.append((n, "|".join(canon_pattern(x) for x in ps)))
    pats.append(("delimiter_pattern", canon_pattern(M.delimiter_pattern.pattern, int(M.delimiter_pattern.flags))))
    pats.append(("delimiter_flags", str(int(M.delimiter_pattern.flags))))
    pats.append(("VALID", canon_pattern(F.VALID.pattern, int(F.VALID.flags))))
    pats.append(("VALID_flags", str(int(F.VALID.flags))))
    X.data["lex_patterns"] = pats
    X.data["pattern_rewrites"] = REWRITES


def to_ranges(chars):
    cps = sorted(set(ord(c) for c in chars))
    out = []
    for cp in cps:
        if out and cp == out[-1][1] + 1:
            out[-1][1] = cp
        else:
            out.append([cp, cp])
    return out


def walk_graph(root):
    seen = {}
    stack = [root]
    while stack:
        e = stack.pop()
        if e is None or id(e) in seen:
            continue
        seen[id(e)] = e
        # a Regex node matches with its compiled expression; the element tree mo_parsing also derives from the
        # pattern text is not consulted when parsing, so the node is a leaf here (identified by its pattern)
        x = None if type(e).__name__ == "Regex" else getattr(e, "expr", None)
        if x is not None and hasattr(x, "parser_config"):
            stack.append(x)
        for y in getattr(e, "exprs", None) or []:
            stack.append(y)
    return list(seen.values())


def node_label(e):
    n = str(getattr(e, "parser_name", "") or "")
    if n:
        return n
    cfg = getattr(e, "parser_config", None)
    mt = getattr(cfg, "match", None) if cfg is not None else None
    if isinstance(mt, str) and mt:
        return mt.lower()
    return ""


def ws_census(root):
    """every sequencing node (And / Many family) with its whitespace engine kind and a stable key"""
    parents = {}
    seen = {}
    stack = [(root, None)]
    while stack:
        e, par = stack.pop()
        if e is None:
            continue
        if id(e) in seen:
            continue
        seen[id(e)] = e
        parents[id(e)] = par
        x = None if type(e).__name__ == "Regex" else getattr(e, "expr", None)
        if x is not None and hasattr(x, "parser_config"):
            stack.append((x, e))
        for y in getattr(e, "exprs", None) or []:
            stack.append((y, e))
    out = []
    for e in seen.values():
        cfg = getattr(e, "parser_config", None)
        ws = getattr(cfg, "whitespace", None) if cfg is not None else None
        if ws is None or not hasattr(ws, "white_chars"):
            continue
        kids = list(getattr(e, "exprs", None) or ([e.expr] if getattr(e, "expr", None) is not None else []))
        if type(e).__name__ == "And" and len(kids) < 2:
            continue
        kind = "none" if not ws.white_chars else ("comment" if ws.ignore_list else "standard")
        label = node_label(e)
        if not label:
            sig = "+".join((node_label(k) or type(k).__name__) for k in kids[:4])
            par = parents.get(id(e))
            up = node_label(par) if par is not None else ""
            label = (up + ":" if up else "") + type(e).__name__ + "(" + sig + ")"
        out.append((kind, label))
    return out


def extract_graph(X, builds):
    """census of the grammar graph of the common parser: keyword words, parse actions"""
    import mo_sql_parsing.utils as U
    import mo_sql_parsing.keywords as K

    X.data["ident_ranges"] = to_ranges(U.IDENT_CHAR)
    X.data["first_ident_ranges"] = to_ranges(U.FIRST_IDENT_CHAR)
    words = set()
    actions = {}
    sizes = {}
    for (name, ac), parser in builds.items():
        nodes = walk_graph(parser.element)
        sizes["%s/%s" % (name, ac)] = len(nodes)
        for e in nodes:
            cls = type(e).__name__
            if cls in ("Keyword", "CaselessKeyword", "CaselessLiteral"):
                mt = getattr(e.parser_config, "match", None)
                if isinstance(mt, str) and mt and mt[0].isalpha():
                    words.add(mt.lower())
            for pa in getattr(e, "parse_action", None) or []:
                fn = getattr(pa, "__wrapped__", pa)
                nm = getattr(fn, "__name__", None) or getattr(getattr(pa, "action", None), "__name__", None) or type(pa).__name__
                actions[nm] = actions.get(nm, 0) + 1
    # ---- structural difference between the dialect graphs (C18): multiset of node signatures, relative to common
    import collections

    def node_sig(e):
        cfg = e.parser_config
        mt = getattr(cfg, "match", None)
        rx = getattr(cfg, "regex", None)
        if rx is None or not hasattr(rx, "pattern"):
            rx = getattr(e, "regex", None)
        pat = rx.pattern if rx is not None and hasattr(rx, "pattern") else ""
        acts = []
        for pa in getattr(e, "parse_action", None) or []:
            fn = getattr(pa, "__wrapped__", pa)
            acts.append(getattr(fn, "__name__", None) or getattr(getattr(pa, "action", None), "__name__", None) or type(pa).__name__)
        return "%s|%s|%s|%s|%s" % (type(e).__name__, str(getattr(e, "parser_name", "") or "")[:40], mt if isinstance(mt, str) else "",
                                   canon_pattern(pat)[:80], ",".join(acts))

    sigs = {}
    for (name, ac), parser in builds.items():
        sigs[(name, ac)] = collections.Counter(node_sig(e) for e in walk_graph(parser.element))
    diff = []
    for (name, ac), c in sorted(sigs.items(), key=str):
        base = sigs.get(("common_parser", ac))
        if base is None or name == "common_parser":
            continue
        for k, v in sorted((c - base).items()):
            diff.append("%s/%s +%d %s" % (name, ac, v, k))
        for k, v in sorted((base - c).items()):
            diff.append("%s/%s -%d %s" % (name, ac, v, k))
    X.data["dialect_diff"] = diff
    ws_kinds = {}
    offending = set()
    case_sensitive = set()
    engines = set()
    for (name, ac), parser in builds.items():
        for kind, label in ws_census(parser.element):
            ws_kinds[kind] = ws_kinds.get(kind, 0) + 1
            if kind == "standard":
                offending.add(label)
        for e in walk_graph(parser.element):
            cfg = getattr(e, "parser_config", None)
            ws = getattr(cfg, "whitespace", None) if cfg is not None else None
            if ws is not None and hasattr(ws, "white_chars") and getattr(ws, "regex", None) is not None:
                kind = "none" if not ws.white_chars else ("comment" if ws.ignore_list else "standard")
                engines.add((kind, canon_pattern(ws.regex.pattern, int(ws.regex.flags)), str(int(ws.regex.flags))))
            tn = type(e).__name__
            if tn in ("Keyword", "Literal"):
                # CaselessKeyword / CaselessLiteral are separate classes; these two compare exactly
                mt = getattr(e.parser_config, "match", None)
                if isinstance(mt, str) and any(ch.isalpha() for ch in mt):
                    case_sensitive.add(mt)
    # ---- terminals: which of them are of a kind the engine model has (literal, keyword, character-class word,
    #      quoted text), and the regular expressions that are not (pinned in Ref.lean: a NEW complex terminal — one that
    #      could, say, match across white space — breaks the obligation `terminals_pinned`)
    import re as _re
    term_kinds = {}
    other_terms = set()
    for (name, ac), parser in builds.items():
        for e in walk_graph(parser.element):
            tn = type(e).__name__
            if tn in ("Literal", "SingleCharLiteral", "CaselessLiteral"):
                term_kinds["lit"] = term_kinds.get("lit", 0) + 1
            elif tn in ("Keyword", "CaselessKeyword"):
                term_kinds["kw"] = term_kinds.get("kw", 0) + 1
            elif tn in ("Char", "Word"):
                term_kinds["word"] = term_kinds.get("word", 0) + 1
            elif tn in ("Regex",):
                rx = getattr(e.parser_config, "regex", None) or getattr(e, "regex", None)
                pat = rx.pattern if rx is not None and hasattr(rx, "pattern") else ""
                m = _re.fullmatch(r"(\\?.)\(\?:\1\1\|\[\^(\\?.)\]\)\*\1", pat)
                if m and m.group(1).lstrip("\\") == m.group(2).lstrip("\\"):
                    term_kinds["quoted"] = term_kinds.get("quoted", 0) + 1
                elif _re.fullmatch(r"\[[^\]]*\](?:\[[^\]]*\][*+]?)?[*+]?", pat):
                    term_kinds["word"] = term_kinds.get("word", 0) + 1
                else:
                    other_terms.add(canon_pattern(pat))
            elif tn in ("SkipTo", "StringEnd", "LineEnd", "AnyChar", "NoMatch", "CharsNotIn", "White"):
                other_terms.add("<" + tn + ">")
    X.data["terminal_kinds"] = term_kinds
    X.data["other_terminals"] = sorted(other_terms)
    X.data["ws_engines"] = sorted(engines)
    X.data["ws_kinds"] = ws_kinds
    X.data["ws_offending"] = sorted(offending)
    X.data["case_sensitive_keywords"] = sorted(case_sensitive)
    X.data["keyword_words"] = sorted(words)
    X.data["graph_sizes"] = sizes
    X.data["parse_actions"] = actions
    reserved = []
    for w in sorted(words):
        try:
            K.RESERVED.parse_string(w)
            reserved.append(w)
        except Exception:
            pass
    X.data["reserved_words"] = reserved


def known_covers(prop, key):
    for f in load_known():
        if f["property"] == prop and f["key"] == key:
            return list(f.get("covers", []))
    return []


def gen_graph_lean(X):
    def lst(name, doc, items):
        return ["/-- %s -/" % doc, "def %s : List String := [%s]" % (name, ", ".join(lean_str(i) for i in items)), ""]

    lines = ["/- GENERATED by tools/extract.py from /repo's working tree — do not edit. -/", "namespace MoSql.Gen", ""]
    lines += lst("wsOffending", "sequencing nodes of the grammar graphs (all 8 parsers) whose whitespace engine skips NO comments",
                 X.data.get("ws_offending", []))
    lines += lst("caseSensitiveKeywords", "keyword terminals with letters that are matched case-sensitively",
                 X.data.get("case_sensitive_keywords", []))
    lines += lst("knownWsNodes", "listed in known_findings.json (C09 ws:nodes-without-comment-skipping)",
                 known_covers("C09", "ws:nodes-without-comment-skipping"))
    lines += lst("knownCaseKeywords", "listed in known_findings.json (C09 case:case-sensitive-keywords)",
                 known_covers("C09", "case:case-sensitive-keywords"))
    lines += ["/-- the whitespace engines found in the graphs: (kind, regular expression, flags) -/",
              "def wsEngines : List (String × String × String) := [%s]" % ", ".join(
                  "(%s, %s, %s)" % (lean_str(k), lean_str(p), lean_str(f)) for k, p, f in X.data.get("ws_engines", [])), ""]
    lines += lst("otherTerminals", "regular-expression terminals of the grammar graphs that are not of a kind the engine model has (literal, keyword, character-class word, quoted text)",
                 X.data.get("other_terminals", []))
    lines += lst("dialectDiff", "node signatures (type|name|match|regex|actions) by which each dialect's grammar graph differs from the common one",
                 X.data.get("dialect_diff", []))
    lines += lst("parseActions", "names of all parse actions attached anywhere in the grammar graphs",
                 sorted(X.data.get("parse_actions", {})))
    lines += ["end MoSql.Gen"]
    return "\n".join(lines) + "\n"


def gen_lexemes_lean(X):
    lines = [
        "/- GENERATED by tools/extract.py from /repo's working tree — do not edit. -/",
        "namespace MoSql.Gen",
        "",
        "/-- pattern strings of the token regular expressions, as compiled by the current source -/",
        "def lexPatterns : List (String × String) := [",
    ]
    pats = X.data.get("lex_patterns", [])
    for i, (n, p) in enumerate(pats):
        lines.append("  (%s, %s)%s" % (lean_str(n), lean_str(p), "," if i + 1 < len(pats) else ""))
    lines += ["]", ""]
    for nm, key in (("identRanges", "ident_ranges"), ("firstIdentRanges", "first_ident_ranges")):
        lines.append("/-- code-point ranges of utils.%s -/" % ("IDENT_CHAR" if nm == "identRanges" else "FIRST_IDENT_CHAR"))
        lines.append("def %s : List (Nat × Nat) := [%s]" % (nm, ", ".join("(%d, %d)" % (a, b) for a, b in X.data.get(key, []))))
        lines.append("")
    lines.append("/-- the single words that `keywords.RESERVED` matches (`formatting.is_keyword`) -/")
    lines.append("def reservedWords : List String := [%s]" % ", ".join(lean_str(w) for w in X.data.get("reserved_words", [])))
    lines += ["", "end MoSql.Gen"]
    return "\n".join(lines) + "\n"


def load_known():
    try:
        return json.load(open(os.path.join(VERIF, "known_findings.json")))["findings"]
    except FileNotFoundError:
        return []


def main():
    X = Extraction()
    rec = record_infix()
    import mo_sql_parsing  # noqa: F401

    sp = importlib.import_module("mo_sql_parsing.sql_parser")
    builds = {}
    for name in ["common_parser", "mysql_parser", "sqlserver_parser", "bigquery_parser"]:
        for ac in [None, "*"]:
            try:
                builds[(name, ac)] = getattr(sp, name)(ac)
            except Exception as e:
                X.problem("build", "%s(%r) raised %r" % (name, ac, e))
    extract_levels(X, rec)
    extract_formatter(X)
    measure_renderers(X)
    extract_lexemes(X)
    extract_graph(X, builds)
    extract_effects.extract(X, REPO)

    changed = []
    gen_dir = os.path.join(VERIF, "lean", "MoSql", "Gen")
    if write_if_changed(os.path.join(gen_dir, "Levels.lean"), gen_levels_lean(X)):
        changed.append("Levels.lean")
    if write_if_changed(os.path.join(gen_dir, "FmtTable.lean"), gen_fmt_lean(X)):
        changed.append("FmtTable.lean")
    if write_if_changed(os.path.join(gen_dir, "Lexemes.lean"), gen_lexemes_lean(X)):
        changed.append("Lexemes.lean")
    if write_if_changed(os.path.join(gen_dir, "Graph.lean"), gen_graph_lean(X)):
        changed.append("Graph.lean")
    if write_if_changed(os.path.join(gen_dir, "Effects.lean"), extract_effects.gen_lean(X, lean_str)):
        changed.append("Effects.lean")
    X.data["problems"] = X.problems
    write_if_changed(os.path.join(VERIF, "build", "gen.json"), json.dumps(X.data, indent=1, sort_keys=True, default=str))
    print(json.dumps({"changed": changed, "problems": X.problems}))


if __name__ == "__main__":
    main()
