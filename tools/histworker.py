#!/venv/bin/python
"""Runs one history of calls against the real library in THIS (fresh) process.
stdin: {"calls": [call…], "threads": optional thread programs}   stdout: JSON list of outcomes (same order).
call = {"fn": parse|parse_mysql|parse_sqlserver|parse_bigquery|format, "sql": …, "tree": …, "kw": {…}}
kw values: "null": canonical JSON value; "calls": "normal_op" | "simple_op" | "custom"; "all_columns": "*"; "fmap": {…}
"""
import json
import os
import sys

sys.path.insert(0, os.path.dirname(os.path.abspath(__file__)))
import common as C  # noqa: E402


def custom_op(op, args, kwargs):
    return {"OP": op, "A": args, "K": kwargs}


def make_kw(R, kw):
    out = {}
    for k, v in (kw or {}).items():
        if k == "calls":
            out[k] = {"normal_op": R.m.normal_op, "simple_op": R.m.simple_op, "custom": custom_op}[v]
        elif k == "null":
            out[k] = C.uncanon(v)
        else:
            out[k] = v
    return out


def graph_signature(R, entry, all_columns):
    """multiset of node signatures (type, name, match, regex, actions, ordered child labels) of the grammar graph the
    given entry point uses — built now if this process has not built it yet"""
    import collections
    # the parser object the entry point uses is observed at the engine (mo_parsing.core.Parser.parse_string), not read
    # from the package's private cache: how the package keeps its parsers is its own business
    import mo_parsing.core as _core
    seen = []
    orig = _core.Parser.parse_string

    def spy(self, *a, **k):
        seen.append(self)
        return orig(self, *a, **k)

    _core.Parser.parse_string = spy
    try:
        getattr(R.m, entry)("select 1", **({"all_columns": all_columns} if all_columns else {}))
    finally:
        _core.Parser.parse_string = orig
    if not seen:
        raise RuntimeError("no engine parser observed for %s" % entry)
    root = seen[-1].element

    def label(e):
        cfg = getattr(e, "parser_config", None)
        mt = getattr(cfg, "match", None) if cfg is not None else None
        return "%s:%s" % (type(e).__name__, str(getattr(e, "parser_name", "") or (mt if isinstance(mt, str) else ""))[:24])

    def node_sig(e):
        cfg = e.parser_config
        mt = getattr(cfg, "match", None)
        rx = getattr(cfg, "regex", None)
        if rx is None or not hasattr(rx, "pattern"):
            rx = getattr(e, "regex", None)
        pat = rx.pattern if rx is not None and hasattr(rx, "pattern") else ""
        acts = []
        for pa in getattr(e, "parse_action", None) or []:
            fn = getattr(pa, "__wrapped__", pa)
            acts.append(getattr(fn, "__name__", None) or getattr(getattr(pa, "action", None), "__name__", None) or type(pa).__name__)
        kids = list(getattr(e, "exprs", None) or [])
        x = getattr(e, "expr", None)
        if x is not None and hasattr(x, "parser_config"):
            kids.append(x)
        labels = [label(k) for k in kids]
        if type(e).__name__ == "Or":
            labels.sort()       # longest match: infix_notation collects the alternatives from a set, their order is not fixed
        return "%s|%s|%s|%s|%s|%s" % (type(e).__name__, str(getattr(e, "parser_name", "") or "")[:40], mt if isinstance(mt, str) else "",
                                      pat[:80], ",".join(acts), ";".join(labels[:40]))

    seen, stack, sigs = {}, [root], collections.Counter()
    while stack:
        e = stack.pop()
        if e is None or id(e) in seen:
            continue
        seen[id(e)] = e
        try:
            sigs[node_sig(e)] += 1
        except Exception:
            sigs["?" + type(e).__name__] += 1
        x = getattr(e, "expr", None)
        if x is not None and hasattr(x, "parser_config"):
            stack.append(x)
        for y in getattr(e, "exprs", None) or []:
            stack.append(y)
    return dict(sigs)


def do_call(R, c):
    fn = c["fn"]
    if fn == "env":
        # process-wide settings a library call has no business changing
        import decimal, gc, locale, threading, warnings
        return {"ok": {"recursionlimit": sys.getrecursionlimit(), "switchinterval": sys.getswitchinterval(),
                       "warning_filters": len(warnings.filters), "decimal_prec": decimal.getcontext().prec,
                       "locale": str(locale.getlocale()), "gc": gc.isenabled(), "trace": sys.gettrace() is None and sys.getprofile() is None,
                       "threads": threading.active_count(), "cwd": os.getcwd(), "int_max_str_digits": getattr(sys, "get_int_max_str_digits", lambda: 0)()}}
    if fn == "graphsig":
        return {"ok": graph_signature(R, c["entry"], c.get("all_columns"))}
    if fn == "format":
        r = R.format_raw(C.uncanon(c["tree"]), **(c.get("kw") or {}))
        if r[0] == "ok":
            return {"ok": r[1]}
        return {"$err": r[1]}
    d = {"parse": "common", "parse_mysql": "mysql", "parse_sqlserver": "sqlserver", "parse_bigquery": "bigquery"}[fn]
    r = R.parse_raw(c["sql"], d, timeout=30, **make_kw(R, c.get("kw")))
    if r[0] == "ok":
        return {"ok": C.canon(r[1])}
    return {"$err": r[1], "loc": r[2]}


def do_call_threaded(R, c):
    """no SIGALRM here (signals belong to the main thread): the parent enforces an overall deadline"""
    fn = c["fn"]
    try:
        if fn == "format":
            return {"ok": R.m.format(C.uncanon(c["tree"]), **(c.get("kw") or {}))}
        v = getattr(R.m, fn)(c["sql"], **make_kw(R, c.get("kw")))
        return {"ok": C.canon(v)}
    except R.ParseException as e:
        if fn == "format":
            return {"$err": type(e).__name__}
        return {"$err": "ParseException", "loc": getattr(e, "loc", None) if getattr(e, "loc", None) is not None else getattr(e, "start", -1)}
    except BaseException as e:  # noqa
        name = type(e).__name__
        if fn == "format":
            return {"$err": name}
        if name == "Except" and type(e).__module__.startswith("mo_logs"):
            return {"$err": "Except", "loc": -1}
        return {"$err": "other:" + name, "loc": -1}


def run_threads(R, progs, warm, switch):
    import threading
    if warm:
        for fn in ("parse", "parse_mysql", "parse_sqlserver", "parse_bigquery"):
            for ac in (None, "*"):
                getattr(R.m, fn)("select 1", all_columns=ac)
    sys.setswitchinterval(switch)
    outs = [[None] * len(p) for p in progs]
    barrier = threading.Barrier(len(progs))

    def work(i):
        barrier.wait()
        for j, c in enumerate(progs[i]):
            outs[i][j] = do_call_threaded(R, c)

    ts = [threading.Thread(target=work, args=(i,), daemon=True) for i in range(len(progs))]
    for t in ts:
        t.start()
    for t in ts:
        t.join()
    return outs


def main():
    req = json.load(sys.stdin)
    R = C.real()
    if "threads" in req:
        outs = run_threads(R, req["threads"], req.get("warm", False), req.get("switch", 1e-6))
    else:
        outs = [do_call(R, c) for c in req["calls"]]
    json.dump(outs, sys.stdout, sort_keys=True)


if __name__ == "__main__":
    main()
