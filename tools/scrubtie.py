"""Tie B for the scrub model: the real `_parse` driven by a stub parser that returns a generated raw tree."""
import json

import common as C
import gen_raw as GR


class Stub:
    def __init__(self, value):
        self.value = value

    def parse_string(self, line, parse_all=True):
        return self.value


NULLS = [("default", None), ("none", {"$none": 1}), ("zero", {"$i": "0"}), ("text", "NULL"), ("list", []),
         ("nulldict", {"null": {}}), ("nested", {"a": {"b": [{"$i": "1"}, {"$i": "2"}]}})]
FMAPS = [{}, {"f": "g"}, {"f": "g", "g": "f"}, {"add": "plus", "null": "nil"}, {"f": "g", "g": "add", "add": "f"}]


def run_correspondence(ctx, n):
    """-> number of mismatches (tie breaks are recorded on ctx.rep)"""
    rep = ctx.rep
    R = C.real()
    m = R.m
    m.parse("select 1")  # initialises the module globals _parse relies on
    from mo_sql_parsing.utils import Call, SQL_NULL

    g = GR.RawGen(ctx.rng)
    cases, reqs = [], []
    for i in range(n):
        raw = g.top(ctx.rng.choice([2, 3, 4]))
        mode = ctx.rng.choice(["simple", "simple", "normal"])
        nname, nval = ctx.rng.choice(NULLS)
        fmap = ctx.rng.choice(FMAPS)
        cases.append((raw, mode, nname, nval, fmap))
        req = {"op": "scrub", "raw": GR.to_driver(raw), "mode": mode, "fmap": fmap}
        if nname != "default":
            req["null"] = nval
        reqs.append(req)
    answers = ctx.driver.batch(reqs)
    bad = 0
    for (raw, mode, nname, nval, fmap), ans in zip(cases, answers):
        if "error" in ans:
            raise C.InfraError("driver: " + ans["error"])
        kw = {}
        null = m.SQL_NULL if nname == "default" else C.uncanon(nval)
        calls = m.normal_op if mode == "normal" else m.simple_op
        try:
            out = m._parse(Stub(GR.to_python(raw, Call, SQL_NULL, {})), "x", null, calls, fmap)
            real = {"ok": C.canon(out)}
        except Exception as e:
            real = {"$err": type(e).__name__}
        model = {"ok": ans["model"]}
        rep.count("scrub_mode", mode)
        rep.count("scrub_null", nname)
        rep.case("raw:" + json.dumps(GR.to_driver(raw)) + mode + nname + json.dumps(fmap))
        if C.cdump(real) != C.cdump(model):
            bad += 1
            if bad <= 5:
                rep.tie_break("correspondence", "Scrub.run vs _parse(stub)",
                              {"raw": GR.to_driver(raw), "mode": mode, "null": nname, "fmap": fmap, "real": real, "model": model})
    rep.count("scrub_correspondence_mismatches", None, bad)
    return bad
