#!/bin/bash
# (development) thorough tier of every check on the current tree, 3 at a time; lists alarms
cd "$(dirname "$0")/.."
ids="$@"
[ -z "$ids" ] && ids="C01 C02 C03 C04 C05 C06 C07 C08 C10 C11 C12 C13 C15 C16 C17 C18 C19 C20 C09 C14"
mkdir -p /tmp/thorough
export VERIF_PROCS=5
for id in $ids; do echo $id; done | xargs -P 3 -L 1 sh -c 'start=$(date +%s); ./check $0 --no-build --tier thorough > /tmp/thorough/$0.log 2>&1; echo "$0 exit=$? $(grep -c VIOLATION /tmp/thorough/$0.log) violations $(( $(date +%s) - start ))s"'
