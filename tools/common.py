"""Shared machinery of the checks: paths, canonical values, the real implementation,
the Lean driver, builds, audits, known findings, verdicts and evidence."""
import fcntl
import hashlib
import json
import math
import os
import random
import re
import signal
import subprocess
import sys
import time

VERIF = os.path.dirname(os.path.dirname(os.path.abspath(__file__)))
REPO = os.environ.get("VERIF_REPO", "/repo")
LEAN = os.path.join(VERIF, "lean")
BUILD = os.path.join(VERIF, "build")
EVIDENCE = os.path.join(VERIF, "evidence")
REPLAYS = os.path.join(VERIF, "replays")
GUARD = "MO_SQL_PARSING_VERIF"
PY = "/venv/bin/python"

ALLOWED_AXIOMS = {"propext", "Classical.choice", "Quot.sound"}


def log(*a):
    print(*a, file=sys.stderr, flush=True)


# --------------------------------------------------------------------------------------
# canonical values
# --------------------------------------------------------------------------------------
def canon(x):
    """JSON-able canonical form: ints / floats / None / foreign objects are tagged so that
    1, 1.0 and True stay distinct and leaked internals are visible."""
    if x is None:
        return {"$none": 1}
    if x is True or x is False:
        return x
    if isinstance(x, int):
        return {"$i": str(x)}
    if isinstance(x, float):
        return {"$f": repr(x)}
    if isinstance(x, str):
        return x
    if isinstance(x, (list, tuple)):
        return [canon(v) for v in x]
    if isinstance(x, dict):
        out = {}
        for k, v in x.items():
            out[k if isinstance(k, str) else "$key:" + repr(k)] = canon(v)
        return out
    return {"$obj": type(x).__name__}


def cdump(c):
    return json.dumps(c, sort_keys=True, ensure_ascii=False)


def uncanon(c):
    if isinstance(c, dict):
        if set(c) == {"$none"}:
            return None
        if set(c) == {"$i"}:
            return int(c["$i"])
        if set(c) == {"$f"}:
            return float(c["$f"])
        return {k: uncanon(v) for k, v in c.items()}
    if isinstance(c, list):
        return [uncanon(v) for v in c]
    return c


# --------------------------------------------------------------------------------------
# the real implementation (in-process)
# --------------------------------------------------------------------------------------
_real = None


class Real:
    def __init__(self):
        if REPO not in sys.path:
            sys.path.insert(0, REPO)
        os.environ[GUARD] = "1"
        import mo_sql_parsing
        from mo_parsing import ParseException

        self.m = mo_sql_parsing
        self.ParseException = ParseException
        self.entry = {
            "common": mo_sql_parsing.parse,
            "mysql": mo_sql_parsing.parse_mysql,
            "sqlserver": mo_sql_parsing.parse_sqlserver,
            "bigquery": mo_sql_parsing.parse_bigquery,
        }

    def parse_raw(self, sql, dialect="common", timeout=10, **kw):
        """-> ("ok", value) | ("err", class, loc, message)"""
        try:
            return self._parse_raw(sql, dialect, timeout, **kw)
        except TimeoutError:
            # the alarm went off while an outcome was being written down (inside an except clause): a timeout all the same
            signal.setitimer(signal.ITIMER_REAL, 0)
            return ("err", "Timeout", -1, "")

    def _parse_raw(self, sql, dialect, timeout, **kw):

        def on_alarm(signum, frame):
            raise TimeoutError("watchdog")

        old = signal.signal(signal.SIGALRM, on_alarm)
        signal.setitimer(signal.ITIMER_REAL, timeout)
        try:
            v = self.entry[dialect](sql, **kw)
            return ("ok", v)
        except TimeoutError:
            return ("err", "Timeout", -1, "")
        except self.ParseException as e:
            loc = getattr(e, "loc", None)
            if loc is None:
                loc = getattr(e, "start", -1)
            return ("err", "ParseException", loc, str(e)[:300])
        except RecursionError as e:
            return ("err", "other:RecursionError", -1, str(e)[:300])
        except BaseException as e:  # noqa
            name = type(e).__name__
            mod = type(e).__module__
            if name == "Except" and mod.startswith("mo_logs"):
                # innermost cause: which parse action raised what
                chain = []
                c = e
                for _ in range(8):
                    if c is None:
                        break
                    chain.append(str(c).split("\n")[0][:160])
                    c = getattr(c, "cause", None)
                    if isinstance(c, (list, tuple)):
                        c = c[0] if c else None
                return ("err", "Except", -1, " <- ".join(chain)[:700])
            return ("err", "other:" + name, -1, str(e)[:300])
        finally:
            signal.setitimer(signal.ITIMER_REAL, 0)
            signal.signal(signal.SIGALRM, old)

    def parse(self, sql, dialect="common", **kw):
        """-> canonical outcome: {"ok": canon} | {"$err": class}"""
        r = self.parse_raw(sql, dialect, **kw)
        if r[0] == "ok":
            return {"ok": canon(r[1])}
        return {"$err": r[1]}

    def format_raw(self, tree, **kw):
        try:
            return ("ok", self.m.format(tree, **kw))
        except BaseException as e:  # noqa
            return ("err", type(e).__name__, str(e)[:300])


def _pw(item):
    sql, dialect, kw = item
    r = real().parse(sql, dialect, **kw)
    if r.get("$err") == "Timeout":
        # a loaded machine is not a property violation: only an input that still does not finish
        # with a generous budget counts
        r = real().parse(sql, dialect, timeout=180, **kw)
    return cdump(r)


_pool = None


def parse_many(items, procs=None):
    """[(sql, dialect, kwargs)] -> [canonical outcome dump], evaluated by the real implementation in
    forked worker processes (each imports /repo's working tree itself)"""
    global _pool
    items = list(items)
    if len(items) < 64:
        return [_pw(i) for i in items]
    import multiprocessing as mp
    if _pool is None:
        n = procs or int(os.environ.get("VERIF_PROCS", "0") or 0) or max(2, min(12, (os.cpu_count() or 4) - 2))
        _pool = mp.get_context("fork").Pool(n)
    return _pool.map(_pw, items, chunksize=max(1, min(200, len(items) // 64)))


def real():
    global _real
    if _real is None:
        _real = Real()
    return _real


# --------------------------------------------------------------------------------------
# build / extraction / driver
# --------------------------------------------------------------------------------------
class Lock:
    def __init__(self, name="lake"):
        os.makedirs(BUILD, exist_ok=True)
        self.path = os.path.join(BUILD, name + ".lock")

    def __enter__(self):
        self.f = open(self.path, "w")
        fcntl.flock(self.f, fcntl.LOCK_EX)
        return self

    def __exit__(self, *a):
        fcntl.flock(self.f, fcntl.LOCK_UN)
        self.f.close()


def run_extract():
    """regenerate Gen/*.lean from /repo's working tree; -> (data, problems)"""
    env = dict(os.environ)
    env[GUARD] = "1"
    p = subprocess.run([PY, os.path.join(VERIF, "tools", "extract.py")], capture_output=True, text=True, env=env)
    if p.returncode != 0:
        return None, [{"where": "extract", "what": "translator crashed: " + (p.stderr or p.stdout)[-2000:]}]
    try:
        last = [l for l in p.stdout.splitlines() if l.strip()][-1]
        info = json.loads(last)
    except Exception:
        return None, [{"where": "extract", "what": "translator output unreadable: " + p.stdout[-500:]}]
    with open(os.path.join(BUILD, "gen.json")) as f:
        data = json.load(f)
    return data, info["problems"]


def lake_build(targets):
    """-> (ok, log)"""
    p = subprocess.run(["lake", "build"] + targets, cwd=LEAN, capture_output=True, text=True)
    out = (p.stdout or "") + (p.stderr or "")
    out = "\n".join(l for l in out.splitlines() if "conda" not in l)
    return p.returncode == 0, out


FORBIDDEN = re.compile(r"\b(sorry|admit|native_decide|bv_decide|implemented_by|unsafe)\b|^\s*axiom\s|maxHeartbeats\s+0")


def strip_comments(src):
    # remove /- ... -/ (nested not handled beyond one level) and -- comments
    out = []
    i = 0
    depth = 0
    n = len(src)
    while i < n:
        if src.startswith("/-", i):
            depth += 1
            i += 2
            continue
        if depth and src.startswith("-/", i):
            depth -= 1
            i += 2
            continue
        if depth:
            if src[i] == "\n":
                out.append("\n")
            i += 1
            continue
        if src.startswith("--", i):
            while i < n and src[i] != "\n":
                i += 1
            continue
        if src[i] == '"':
            j = i + 1
            while j < n and src[j] != '"':
                j += 2 if src[j] == "\\" else 1
            out.append('""')
            i = j + 1
            continue
        out.append(src[i])
        i += 1
    return "".join(out)


def grep_forbidden():
    bad = []
    for root, _, files in os.walk(LEAN):
        if ".lake" in root:
            continue
        for fn in files:
            if fn.endswith(".lean"):
                path = os.path.join(root, fn)
                src = strip_comments(open(path).read())
                for ln, line in enumerate(src.splitlines(), 1):
                    if FORBIDDEN.search(line):
                        bad.append("%s:%d: %s" % (os.path.relpath(path, VERIF), ln, line.strip()[:120]))
    return bad


def theorems_in(module_path):
    """names of theorems declared in a Props file (namespace-qualified)"""
    src = strip_comments(open(module_path).read())
    ns = []
    names = []
    for line in src.splitlines():
        m = re.match(r"\s*namespace\s+(\S+)", line)
        if m:
            ns.append(m.group(1))
            continue
        m = re.match(r"\s*end\s+(\S+)", line)
        if m and ns and ns[-1] == m.group(1):
            ns.pop()
            continue
        m = re.match(r"\s*(?:@\[[^\]]*\]\s*)?(?:private\s+|protected\s+)?theorem\s+(\S+)", line)
        if m:
            names.append(".".join(ns + [m.group(1)]))
    return names


def audit(prop_id):
    """#print axioms for every theorem of Props/<id>.lean -> (ok, {thm: [axioms]}, log)"""
    path = os.path.join(LEAN, "MoSql", "Props", prop_id + ".lean")
    names = theorems_in(path)
    if not names:
        return False, {}, "no theorems found in " + path
    src = "import MoSql.Props.%s\n" % prop_id + "".join("#print axioms %s\n" % n for n in names)
    os.makedirs(BUILD, exist_ok=True)
    key = hashlib.sha1((src + open(path).read() + _gen_digest()).encode()).hexdigest()[:16]
    cache = os.path.join(BUILD, "audit_%s_%s.json" % (prop_id, key))
    if os.path.exists(cache):
        res = json.load(open(cache))
        return res["ok"], res["axioms"], res["log"]
    tmp = os.path.join(BUILD, "Audit_%s.lean" % prop_id)
    with open(tmp, "w") as f:
        f.write(src)
    p = subprocess.run(["lake", "env", "lean", tmp], cwd=LEAN, capture_output=True, text=True)
    out = (p.stdout or "") + (p.stderr or "")
    axioms = {}
    for m in re.finditer(r"'([^']+)' depends on axioms: \[([^\]]*)\]", out, re.S):
        axioms[m.group(1)] = [a.strip() for a in m.group(2).replace("\n", " ").split(",") if a.strip()]
    for m in re.finditer(r"'([^']+)' does not depend on any axioms", out):
        axioms[m.group(1)] = []
    ok = p.returncode == 0 and all(n in axioms for n in names)
    for n, ax in axioms.items():
        if not set(ax) <= ALLOWED_AXIOMS:
            ok = False
    res = {"ok": ok, "axioms": axioms, "log": out[-3000:] if not ok else ""}
    json.dump(res, open(cache, "w"))
    return ok, axioms, res["log"]


def _gen_digest():
    h = hashlib.sha1()
    for root, _, files in sorted(os.walk(os.path.join(LEAN, "MoSql"))):
        for fn in sorted(files):
            if fn.endswith(".lean"):
                h.update(open(os.path.join(root, fn), "rb").read())
    return h.hexdigest()


class Driver:
    """batch access to the Lean model driver"""

    def __init__(self):
        self.exe = os.path.join(LEAN, ".lake", "build", "bin", "driver")

    def batch(self, requests):
        if not requests:
            return []
        data = "\n".join(json.dumps(r, ensure_ascii=False) for r in requests) + "\n"
        p = subprocess.run([self.exe], input=data.encode("utf8"), capture_output=True)
        if p.returncode != 0:
            raise InfraError("driver exited with %d: %s" % (p.returncode, p.stderr.decode("utf8", "replace")[-500:]))
        # one answer per "\n" (not str.splitlines, which also breaks at U+2028, U+0085, \x0b, \x0c … inside an answer)
        lines = p.stdout.decode("utf8").split("\n")
        if lines and lines[-1] == "":
            lines.pop()
        if len(lines) != len(requests):
            raise InfraError("driver answered %d lines for %d requests" % (len(lines), len(requests)))
        return [json.loads(l) for l in lines]


class InfraError(Exception):
    pass


# --------------------------------------------------------------------------------------
# known findings, verdicts, evidence
# --------------------------------------------------------------------------------------
def load_known():
    path = os.path.join(VERIF, "known_findings.json")
    try:
        with open(path) as f:
            d = json.load(f)
    except FileNotFoundError:
        d = {"findings": [], "fixed": []}
    return d


class Report:
    def __init__(self, prop_id, tier, seed):
        self.id = prop_id
        self.tier = tier
        self.seed = seed
        self.t0 = time.time()
        self.known = {f["key"]: f for f in load_known()["findings"] if f["property"] == prop_id}
        self.known_hit = {}
        self.violations = []  # (key, replay dict)
        self.all_findings = {}
        self.examples = {}
        self.tie_breaks = []  # dicts describing a broken proof obligation / correspondence
        self.coverage = {"samples": []}
        self.assumptions = []
        self.evaluations = 0
        self.distinct = set()
        self.dist = {}

    # --- counting
    def count(self, bucket, key=None, n=1):
        d = self.dist.setdefault(bucket, {})
        k = "all" if key is None else str(key)
        d[k] = d.get(k, 0) + n

    def case(self, ident, nontrivial=True):
        self.evaluations += 1
        if nontrivial:
            self.distinct.add(hashlib.sha1(ident.encode("utf8", "replace")).digest()[:8])

    def sample(self, s, limit=6):
        if len(self.coverage["samples"]) < limit:
            self.coverage["samples"].append(s)

    # --- outcomes
    def finding(self, key, what, replay, sub=None):
        """a property violation observed on the REAL implementation, classified by `key`.
        A known-findings entry with a "covers" list only covers the listed sub-keys: anything else
        under the same rule is a new violation (reported as key/sub)."""
        self.all_findings.setdefault(key, set()).add(sub if sub is not None else "")
        ek = key if sub is None else "%s/%s" % (key, sub)
        if ek not in self.examples and len(self.examples) < 400:
            self.examples[ek] = what[:300]
        if key in self.known:
            cov = self.known[key].get("covers")
            if cov is None or sub is None or sub in cov:
                if key not in self.known_hit:
                    self.known_hit[key] = what
                return
            key = "%s/%s" % (key, sub)
        if len(self.violations) < 50 and not any(k == key for k, _ in self.violations):
            self.violations.append((key, dict(replay, key=key, what=what)))

    def tie_break(self, kind, name, detail):
        self.tie_breaks.append({"kind": kind, "name": name, "detail": detail})

    def write_replay(self, payload, tag):
        os.makedirs(REPLAYS, exist_ok=True)
        h = hashlib.sha1(json.dumps(payload, sort_keys=True, default=str).encode()).hexdigest()[:10]
        path = os.path.join(REPLAYS, "%s-%s-%s.json" % (self.id, tag, h))
        with open(path, "w") as f:
            json.dump(payload, f, indent=1, sort_keys=True, default=str, ensure_ascii=False)
        return path

    def finish(self, level="proof", obligations=None, extra_cov=None):
        """print verdict lines, write evidence, return exit code"""
        code = 0
        for key, what in sorted(self.known_hit.items()):
            print("KNOWN-FINDING: property=%s %s %s" % (self.id, key, what))
        for key, rp in self.violations:
            rp = dict(rp, property=self.id, replay_cmd="./check %s --replay <this file>" % self.id)
            path = self.write_replay(rp, "violation")
            print("VIOLATION property=%s replay=%s key=%s" % (self.id, path, key))
            code = 1
        if self.tie_breaks and not self.violations:
            rp = {"property": self.id, "broken": self.tie_breaks,
                  "note": "a proof obligation or the model/implementation correspondence no longer checks and the "
                          "search of the implementation found no input on which the property fails"}
            path = self.write_replay(rp, "tie")
            print("VIOLATION property=%s replay=%s no-failing-input-found" % (self.id, path))
            code = 1
        cov = dict(self.coverage)
        cov["evaluations"] = self.evaluations
        cov["distinct_nontrivial"] = len(self.distinct)
        cov["distribution"] = self.dist
        cov["known_findings_hit"] = sorted(self.known_hit)
        cov["tie_breaks"] = self.tie_breaks
        cov["findings_observed"] = {k: sorted(v) for k, v in sorted(self.all_findings.items())}
        cov["finding_examples"] = self.examples
        if obligations:
            cov.update(obligations)
        if extra_cov:
            cov.update(extra_cov)
        if not cov["samples"]:
            cov["samples"] = ["(no case generated)"]
        ev = {
            "property_id": self.id,
            "tier": self.tier,
            "seed": self.seed,
            "level": level,
            "coverage": cov,
            "assumptions": self.assumptions,
            "wall_s": round(time.time() - self.t0, 2),
            "violations": len(self.violations) + (1 if (self.tie_breaks and not self.violations) else 0),
        }
        os.makedirs(EVIDENCE, exist_ok=True)
        tmp = os.path.join(EVIDENCE, self.id + ".json.tmp")
        with open(tmp, "w") as f:
            json.dump(ev, f, indent=1, sort_keys=True, ensure_ascii=False, default=str)
        os.replace(tmp, os.path.join(EVIDENCE, self.id + ".json"))
        return code


def git_head(path):
    try:
        return subprocess.run(["git", "-C", path, "rev-parse", "--short", "HEAD"], capture_output=True, text=True).stdout.strip()
    except Exception:
        return "?"
