#!/venv/bin/python
"""(development) regenerate the seeded-changes table of DESIGN.md §12.7 from seeded/*/meta.json and notes.txt"""
import glob, json, os, re
V = os.path.dirname(os.path.dirname(os.path.abspath(__file__)))
FIRST_MISSED = {
    "C10-a": "missed by the first version (no operand-level parentheses); strengthened",
    "C13-a": "missed by the first version; DELIMITER blocks with several statements added",
    "C15-a": "MISSED at first: a conditional install counted as an install, no failing call with options in the alphabet; extraction made sound, alphabet extended",
    "C17-a": "missed at first (no single-string IN among the statements); statements and the tests' own trees added",
    "C05-b": "missed at first (no statement with two block comments); commented statements added to C05, banner fillers to C09",
    "C08-b": "first only as a broken correspondence (no-failing-input-found); DELIMITER scripts with NULLs added to the pools",
    "C10-b": "missed at first (parentheses only around expressions); sub-query parenthesis layers added",
    "C20-b": "missed at first (every generated aggregate had OVER, FILTER failures were classified under the known FILTER-then-OVER finding); modifiers without window added",
    "C03-c": "missed at first; round trips under both quoting styles in one process added",
    "C04-c": "first only as a broken correspondence; n-ary flattened nodes added to the tree generator",
    "C07-c": "missed at first (backtick style was read back with the common parser); now read with parse_mysql",
    "C02-c": "missed at first (OFFSET was only generated together with LIMIT)",
    "C05-c": "missed at first; comment markers inside literals / quoted names / line comments added",
    "C14-a": "missed at first; dangling reserved words (pinned list) added",
    "C14-c": "missed at first; DELIMITER directives with blank arguments added",
    "C16-c": "missed at first; cache access modelled as `touch` under the lock, cold-build-vs-format soak added",
    "C17-c": "missed at first; format is now run on every tree literal of the repository's own tests",
    "C17-b": "neutralised by repair 6cdb174 (demo passes with the patch on the repaired tree)",
    "C01-d": "MISSED at first (the change shows only in parsers built after parse_sqlserver's); operator-table probe: other entry points in C01, after creation orders in C15, neutral statements in C18",
    "C02-d": "missed at first (TOP counts were 1 / 5 / 10, never PERCENT / WITH TIES); all TOP forms incl. 0 added",
    "C03-d": "missed by C03 at first (caught by C04); stacked prefix operators / parenthesised numbers added",
    "C05-d": "missed at first; wrapped-tail statements added — they exposed the genuine defect repaired by 3ed8b7a; patch rebased onto it",
    "C08-d": "first only as a broken correspondence; empty blocks added to the script pool",
    "C13-d": "missed at first (12 statement kinds); one statement of every kind incl. routines and blocks added",
    "C15-d": "missed at first (needs new syntax `!<`); grammar-graph signature by creation order + new terminals tried in templates",
    "C15-c": "first only as a broken obligation; probe with a call inside a frame offset added",
    "C16-d": "first only as a broken obligation; DELIMITER scripts with non-default options added to the thread alphabet",
    "C18-d": "missed at first; a quoted plain name at 33 places must read like the bare name",
    "C18-c": "first only as a broken obligation; bare names over the whole identifier alphabet added to the neutral statements",
    "C19-d": "missed at first; CHARACTER SET / COLLATE / UNSIGNED next to column options added",
    "C07-d": "first only as a broken obligation; reserved word glued to @ / $ / accented letter / digit added to the names",
    "C11-d": "first only as a broken correspondence; NULL inside window frame offsets added to the pool (exposed the C12 frame-offset finding)",
    "C10-b": "rebased onto 3ed8b7a (same mutation as C05-d)",
    "C01-e": "missed at first (the expression generator had no CASE / CAST / calls); CASE-CAST-call battery with the SQLite value oracle added",
    "C02-e": "missed at first (at most two joins per query); chains of up to five joins with CROSS JOINs mixed in",
    "C05-e": "missed by C05 at first (caught by C19); one-column multi-row INSERT / REPLACE added",
    "C06-e": "missed at first; text that is not in a Unicode normalisation form added (and the driver protocol no longer splits answers at U+2028)",
    "C08-e": "first only as a broken correspondence; the rename map (fmap= / is_null=) added to the option combinations",
    "C10-e": "missed at first; calls named like the library's own tree keys added — which exposed the known finding select-item:function-named-value on the unchanged tree",
    "C11-e": "a thread interleaving (lock narrowed): shown by C16's soak, not by the sequential C11 oracle",
    "C12-e": "first an internal error of the harness (to_simple on a damaged normal form); now normal-shape:args-not-a-list",
    "C13-e": "missed at first; comments (incl. the empty /**/) between and behind statements added; a pool statement that stops being accepted is a finding",
    "C15-e": "missed at first; the same names formatted under both quoting styles added to alphabet and probes",
    "C18-e": "first only as a broken obligation; quoted text inside a column type (generated column) added to C18, column-type probes and 'an earlier parser must not change when a later one is built' signature to C15",
    "C19-e": "missed at first; sizes of 0 and time types with a precision added",
    "C11-f": "first only as a broken correspondence (both sides of the substitution comparison carried the same leak); the rename map added to C11's option combinations, a leaked internal object is a finding whatever the comparison says",
    "C15-f": "missed at first; process-wide settings (recursion limit, …) probed after every history, deeply bracketed accepted / rejected calls added to the alphabet",
    "C02-f": "missed at first; WITH in front of a wholly parenthesised body added",
    "C05-f": "missed at first (only FILTER … OVER was in the targeted list); aggregate modifiers in every accepted order added",
    "C06-f": "first only as a broken correspondence (backslash strings were all attributed to the known Python-evaluation defect); a decoding that is neither the text nor its Python evaluation is now a finding of its own",
    "C08-f": "a thread interleaving (lock narrowed to the engine run): shown by C16's soak",
    "C09-f": "first only as a broken obligation; quoted texts side by side (literal + single-quoted alias) added to the gap oracle",
    "C10-f": "missed at first; CASE as ELSE / subject / WHEN position and CASE, CAST, BETWEEN, IN, EXISTS as the expression added",
    "C12-f": "a thread interleaving (per-parser locks): shown by C16's soak",
    "C13-f": "missed at first; empty statements that hold only a comment (`; /* x */ ;`) added",
    "C14-f": "missed at first; degenerate lexemes (empty quoted names, lone quotes / brackets) in 15 positions × 4 dialects added",
    "C17-f": "missed at first; a calls= hook that re-enters parse (blocks on the pinned tree, goes through with a re-entrant lock) added",
    "C18-f": "first only as a broken obligation; comments glued to words added to the neutral statements",
    "C19-f": "missed at first; unquoted column names that are words of the DDL grammar (key, index, …) added",
    "C06-g": "missed at first (random doubles have 17-digit mantissas; the fixed list had no negative exponent-only repr); short mantissas × exponents of both signs added",
    "C12-g": "missed at first; statements in which one node has several parents (simple CASE over a call) × swaps / chains / rotations of the operation names added, shared Call objects in the scrub correspondence",
    "C06-h": "missed at first (the exponent spellings tried were e, E+, e-: no upper-case E with a minus sign and no decimal point), and the regex tie let it through: the string corpus of `canon_pattern` had no such number; every letter case x sign behind every mantissa form added, corpus made dense over the numeric alphabet",
    "C14-h": "missed at first (the token generator writes no EXPLAIN option list); 14 hand-written statement kinds added to the ill-formed-edit stream",
    "C18-g": "first only as a broken obligation (`dialect_diff_confined`); suffix operators (field access on calls / brackets, `:`, `::`, OVER, FILTER) added to the operator probe",
}
rows = []
for d in sorted(glob.glob(os.path.join(V, "seeded", "*"))):
    sid = os.path.basename(d)
    meta = {}
    try:
        meta = json.load(open(os.path.join(d, "meta.json")))
    except Exception:
        pass
    summ = meta.get("summary")
    if not summ:
        try:
            lines = [l.strip() for l in open(os.path.join(d, "notes.txt")) if l.strip()]
            summ = " ".join(lines[:2])
        except Exception:
            summ = ""
    summ = re.sub(r"\s+", " ", summ)[:230].replace("|", "\\|")
    runs = meta.get("runs", {})
    caught = []
    for k, r in sorted(runs.items()):
        if r.get("exit") == 1:
            keys = sorted({re.search(r"key=(\S+)", v).group(1) if re.search(r"key=(\S+)", v) else "no-failing-input-found" for v in r.get("violations", [])})
            caught.append("%s: %s" % (k.split("/")[0], ", ".join(x[:60] for x in keys[:2])))
    rows.append("| %s | %s | %s | %s |" % (sid, summ, "; ".join(caught).replace("|", "\\|") or "—", FIRST_MISSED.get(sid, "").replace("|", "\\|")))
print("| seed | change | caught by (quick tier, on the current tree) | history |")
print("|---|---|---|---|")
print("\n".join(rows))
