#!/bin/bash
# (development) run every check's quick tier for the given seeds on the current tree and list alarms.
# usage: tools/dev_sweep.sh "1 2 3" [ids...]
cd "$(dirname "$0")/.."
seeds="$1"; shift
ids="$@"
[ -z "$ids" ] && ids="C01 C02 C03 C04 C05 C06 C07 C08 C09 C10 C11 C12 C13 C14 C15 C16 C17 C18 C19 C20"
mkdir -p /tmp/sweep
export VERIF_PROCS=4
for s in $seeds; do
  for id in $ids; do echo "$s $id"; done
done | xargs -P 5 -L 1 sh -c 'VERIF_SEED=$0 ./check $1 --no-build --tier quick > /tmp/sweep/$1_$0.log 2>&1; echo "$1 seed=$0 exit=$? $(grep -c VIOLATION /tmp/sweep/$1_$0.log) violations"'
