"""G-expr: semantic expression ASTs, their written forms (E, with parentheses chosen by a style
and by the REFERENCE precedence of tools/ref.py), and the tree the property demands (spec).

semantic AST  S ::= ("col", name) | ("int", n) | ("flt", repr) | ("str", s) | ("null",) | ("bool", b)
                  | ("un", key, S) | ("bin", key, S, S) | ("tern", key, S, S, S) | ("cast", S, type)
                  | ("call", f, [S...])
written form  E  = the JSON the Lean driver reads (see lean/Main.lean `toE`), with ["paren", E] nodes.
"""
import ref

REF = ref.ref_level_of()
NAME = ref.DOCUMENTED_NAME
FLAT = set(ref.FLATTENED)
CAST_TYPES = ["int", "text", "date", "boolean", "bigint"]


def atom_E(s):
    t = s[0]
    if t == "col":
        return ["atom", s[1], s[1]]
    if t == "int":
        return ["atom", str(s[1]), {"$i": str(s[1])}]
    if t == "flt":
        return ["atom", s[1], {"$f": repr(float(s[1]))}]
    if t == "str":
        return ["atom", "'" + s[1].replace("'", "''") + "'", ["$dict", ["literal", s[1]]]]
    if t == "null":
        return ["atom", "NULL", {"$null": 1}]
    if t == "bool":
        return ["atom", "TRUE" if s[1] else "FALSE", bool(s[1])]
    raise ValueError(s)


def level(s):
    """reference level index of the root operator, None for atoms / calls"""
    t = s[0]
    if t == "un" or t == "bin" or t == "tern":
        return REF[s[1]][0]
    if t == "cast":
        return REF["::"][0]
    return None


def write(s, style="minimal", rng=None):
    """semantic AST -> written E.  style: minimal | full | redundant"""

    def wrap(child, need):
        e = write(child, style, rng)
        is_leaf = level(child) is None
        if style == "full":
            need = need or not is_leaf
        elif style == "redundant" and rng is not None:
            need = need or rng.random() < 0.3
        if need and style == "redundant" and rng is not None and rng.random() < 0.25:
            return ["paren", ["paren", e]]     # several layers must be as inert as one
        return ["paren", e] if need else e

    t = s[0]
    if t in ("col", "int", "flt", "str", "null", "bool"):
        return atom_E(s)
    if t == "call":
        return ["call", s[1], [write(a, style, rng) if not (style == "redundant" and rng and rng.random() < 0.2)
                               else ["paren", write(a, style, rng)] for a in s[2]]]
    k = level(s)

    def looser(c):  # child binds looser than this node
        lc = level(c)
        return lc is not None and lc > k

    def not_tighter(c):
        lc = level(c)
        return lc is not None and lc >= k

    if t == "un":
        return ["pre", s[1], wrap(s[2], looser(s[2]))]
    if t == "cast":
        return ["cast", wrap(s[1], looser(s[1])), s[2]]
    if t == "bin":
        return ["bin", s[1], wrap(s[2], looser(s[2])), wrap(s[3], not_tighter(s[3]))]
    if t == "tern":
        return ["tern", s[1], wrap(s[2], looser(s[2])), wrap(s[3], not_tighter(s[3])), wrap(s[4], not_tighter(s[4]))]
    raise ValueError(s)


# ---------------------------------------------------------------- the demanded tree
def _strip(e):
    while e[0] == "paren":
        e = e[1]
    return e


def _num(v):
    return isinstance(v, (int, float)) and not isinstance(v, bool)


def spec(e):
    """tree the property demands for the written expression e (Python value)"""
    t = e[0]
    if t == "atom":
        r = e[2]
        if isinstance(r, dict) and "$i" in r:
            return int(r["$i"])
        if isinstance(r, dict) and "$f" in r:
            return float(r["$f"])
        if isinstance(r, dict) and "$null" in r:
            return {"null": {}}
        if isinstance(r, list) and r and r[0] == "$dict":
            return {k: v for k, v in r[1:]}
        return r
    if t == "paren":
        return spec(e[1])
    if t == "call":
        args = [spec(a) for a in e[2]]
        f = e[1].lower()
        if not args:
            return {f: {}}
        if len(args) == 1:
            return {f: args[0]}
        return {f: args}
    if t == "pre":
        name = NAME[e[1]]
        x = spec(e[2])
        # documented folding: a sign directly before a number
        if e[2][0] == "atom" and _num(x) and name in ("neg", "pos"):
            return -x if name == "neg" else x
        return {name: x}
    if t == "cast":
        return {"cast": [spec(e[1]), {e[2].lower(): {}}]}
    if t == "bin":
        name = NAME[e[1]]
        l, r = e[2], e[3]
        bare_null = lambda x: x[0] == "atom" and isinstance(x[2], dict) and "$null" in x[2]
        # documented folding: comparison with a bare NULL
        if name in ("eq", "eq!"):
            if bare_null(r):
                return {"missing": spec(l)}
            if bare_null(l):
                return {"missing": spec(r)}
        if name in ("neq", "ne!"):
            if bare_null(r):
                return {"exists": spec(l)}
            if bare_null(l):
                return {"exists": spec(r)}
        if name == "regexp_i":
            return {"regexp": [spec(l), spec(r)], "ignore_case": True}
        if name == "not_regexp_i":
            return {"not_regexp": [spec(l), spec(r)], "ignore_case": True}
        if name in FLAT:
            return {name: _chain(name, l) + _chain(name, r)}
        return {name: [spec(l), spec(r)]}
    if t == "tern":
        return {NAME[e[1]]: [spec(e[2]), spec(e[3]), spec(e[4])]}
    raise ValueError(e)


def _chain(name, e):
    v = spec(e)
    if isinstance(v, dict) and set(v) == {name} and isinstance(v[name], list) and _strip(e)[0] == "bin":
        return v[name]
    return [v]


# ---------------------------------------------------------------- generation
class ExprGen:
    def __init__(self, rng, op_keys):
        self.rng = rng
        self.n = 0
        keys = set(op_keys)
        self.bins = [k for k, _ in ref.BINARY if k in keys]
        self.pres = [k for k, _ in ref.PREFIX if k in keys]
        self.terns = [k for k, _, _ in ref.TERNARY if k in keys]
        self.has_cast = "::" in keys

    def fresh(self):
        self.n += 1
        return self.n

    def atom(self, kinds=("col", "col", "col", "int", "str", "null", "bool", "flt")):
        k = self.rng.choice(kinds)
        i = self.fresh()
        if k == "col":
            return ("col", "c%d" % i)
        if k == "int":
            return ("int", 1000 + i)
        if k == "flt":
            return ("flt", "%d.5" % i)
        if k == "str":
            return ("str", "s%d" % i)
        if k == "null":
            return ("null",)
        return ("bool", self.rng.random() < 0.5)

    def col(self):
        return ("col", "c%d" % self.fresh())

    def node(self, key, kids):
        """build an operator node of the given key from a list supplying operands"""
        if key in self.pres:
            return ("un", key, kids())
        if key in self.terns:
            return ("tern", key, kids(), kids(), kids())
        if key == "::":
            return ("cast", kids(), self.rng.choice(CAST_TYPES))
        return ("bin", key, kids(), kids())

    def arity(self, key):
        if key in self.pres or key == "::":
            return 1
        if key in self.terns:
            return 3
        return 2

    def all_keys(self):
        return self.bins + self.pres + self.terns + (["::"] if self.has_cast else [])

    def depth2(self):
        """every (outer, slot, inner) with column atoms elsewhere"""
        for outer in self.all_keys():
            for slot in range(self.arity(outer)):
                for inner in self.all_keys():
                    self.n = 0
                    pos = [0]

                    def kids():
                        i = pos[0]
                        pos[0] += 1
                        if i == slot:
                            return self.node(inner, self.col)
                        return self.col()

                    yield (outer, slot, inner), self.node(outer, kids)

    def random(self, depth):
        r = self.rng
        if depth <= 0 or r.random() < 0.15:
            return self.atom()
        c = r.random()
        if c < 0.08:
            return ("call", "f%d" % self.fresh(), [self.random(depth - 1) for _ in range(r.choice([0, 1, 1, 2, 3, 5]))])
        key = r.choice(self.all_keys())
        return self.node(key, lambda: self.random(depth - 1))


def depth_of(s):
    t = s[0]
    if t in ("col", "int", "flt", "str", "null", "bool"):
        return 0
    if t == "call":
        return 1 + max([depth_of(a) for a in s[2]] or [0])
    if t == "un":
        return 1 + depth_of(s[2])
    if t == "cast":
        return 1 + depth_of(s[1])
    return 1 + max(depth_of(x) for x in s[2:] if isinstance(x, tuple))


def ops_of(s, acc=None):
    acc = [] if acc is None else acc
    t = s[0]
    if t in ("un", "bin", "tern"):
        acc.append(s[1])
    if t == "cast":
        acc.append("::")
    for x in s[1:]:
        if isinstance(x, tuple):
            ops_of(x, acc)
        elif isinstance(x, list):
            for y in x:
                if isinstance(y, tuple):
                    ops_of(y, acc)
    return acc


# ---------------------------------------------------------------- text (mirror of MoSql.E.render)
def op_text(gen_ops):
    return {o["key"]: (o["text"], o["text2"]) for o in gen_ops}


def render(e, texts):
    t = e[0]
    if t == "atom":
        return e[1]
    if t == "paren":
        return "( " + render(e[1], texts) + " )"
    if t == "call":
        return e[1] + " ( " + ", ".join(render(a, texts) for a in e[2]) + " )"
    if t == "pre":
        return texts[e[1]][0] + " " + render(e[2], texts)
    if t == "cast":
        return render(e[1], texts) + " " + texts["::"][0] + " " + e[2]
    if t == "bin":
        return render(e[2], texts) + " " + texts[e[1]][0] + " " + render(e[3], texts)
    if t == "tern":
        a, b = texts[e[1]]
        return render(e[2], texts) + " " + a + " " + render(e[3], texts) + " " + b + " " + render(e[4], texts)
    raise ValueError(e)
