#!/venv/bin/python
"""./check <ID> [--tier quick|thorough] [--replay FILE]

extract (Tie A) -> lake build of the property's theorems + driver -> axiom audit ->
correspondence (Tie B) + oracle search on the real implementation -> verdict + evidence.

exit 0: property held on everything explored (known findings are printed as KNOWN-FINDING)
exit 1: VIOLATION line printed
exit 2: infrastructure failure (never a verdict)
"""
import argparse
import importlib
import json
import os
import random
import sys
import time
import traceback

sys.path.insert(0, os.path.dirname(os.path.abspath(__file__)))
import common as C  # noqa: E402


class Ctx:
    pass


def main():
    ap = argparse.ArgumentParser()
    ap.add_argument("id")
    ap.add_argument("--tier", default=os.environ.get("VERIF_TIER") or "quick")
    ap.add_argument("--replay")
    ap.add_argument("--no-build", action="store_true", help="(development) skip extract/build/audit")
    a = ap.parse_args()
    pid = a.id.upper()
    tier = a.tier if a.tier in ("quick", "thorough") else "quick"
    try:
        seed = int(os.environ.get("VERIF_SEED", "0") or 0)
    except ValueError:
        seed = 0
    try:
        mod = importlib.import_module("props." + pid.lower())
    except ImportError as e:
        C.log("no check for %s: %s" % (pid, e))
        return 2
    rep = C.Report(pid, tier, seed)
    ctx = Ctx()
    ctx.id, ctx.tier, ctx.seed, ctx.rep = pid, tier, seed, rep
    ctx.rng = random.Random(seed * 1000003 + int(pid[1:]))
    ctx.quick = tier == "quick"
    ctx.driver = None
    ctx.gen = None
    build_ok = False
    axioms = {}
    n_thm = 0
    try:
        if not a.no_build:
            with C.Lock():
                t0 = time.time()
                data, problems = C.run_extract()
                if data is None:
                    # the translator could not read the current source: keep the last tables for the search
                    try:
                        data = json.load(open(os.path.join(C.BUILD, "gen.json")))
                    except Exception:
                        data = None
                ctx.gen = data
                for p in problems:
                    rep.tie_break("translator", p["where"], p["what"])
                targets = ["MoSql.Props." + pid, "driver"]
                ok, blog = C.lake_build(targets)
                if not ok:
                    # is it the model/driver or the theorems?
                    okd, _ = C.lake_build(["driver"])
                    errs = [l for l in blog.splitlines() if l.startswith("error:")][:12]
                    rep.tie_break("proof", "lake build MoSql.Props." + pid, "\n".join(errs) or blog[-1500:])
                    if okd:
                        ctx.driver = C.Driver()
                else:
                    build_ok = True
                    ctx.driver = C.Driver()
                bad = C.grep_forbidden()
                if bad:
                    C.log("forbidden constructs in Lean sources:\n" + "\n".join(bad))
                    return 2
                if build_ok:
                    aok, axioms, alog = C.audit(pid)
                    if not aok:
                        C.log("axiom audit failed:\n" + alog + json.dumps(axioms, indent=1))
                        return 2
                n_thm = len(C.theorems_in(os.path.join(C.LEAN, "MoSql", "Props", pid + ".lean")))
                if build_ok and tier == "thorough":
                    # independent re-check of the compiled property module (and everything it imports)
                    import subprocess
                    p = subprocess.run(["lake", "env", "leanchecker", "MoSql.Props." + pid], cwd=C.LEAN, capture_output=True, text=True)
                    ctx.leanchecker = "ok" if p.returncode == 0 else "FAILED: " + ((p.stdout or "") + (p.stderr or ""))[-600:]
                    if p.returncode != 0:
                        rep.tie_break("proof", "leanchecker MoSql.Props." + pid, ctx.leanchecker)
                C.log("[%s] extract+build+audit %.1fs (build_ok=%s)" % (pid, time.time() - t0, build_ok))
        else:
            ctx.gen = json.load(open(os.path.join(C.BUILD, "gen.json")))
            ctx.driver = C.Driver()
            build_ok = True
            n_thm = len(C.theorems_in(os.path.join(C.LEAN, "MoSql", "Props", pid + ".lean")))

        ctx.build_ok = build_ok
        if a.replay:
            payload = json.load(open(a.replay))
            still = mod.replay(ctx, payload)
            print("replay: %s" % ("STILL FAILS" if still else "passes now"))
            if still:
                print("VIOLATION property=%s replay=%s" % (pid, a.replay))
            return 1 if still else 0

        mod.run(ctx)
        if rep.tie_breaks and not rep.violations and hasattr(mod, "search"):
            C.log("[%s] a tie is broken; searching the implementation for a failing input" % pid)
            mod.search(ctx)
    except C.InfraError as e:
        C.log("infrastructure error: %s" % e)
        return 2
    except Exception:
        traceback.print_exc()
        return 2

    obligations = {
        "obligations": n_thm,
        "discharged": n_thm if build_ok else 0,
        "checker_cmd": "cd lean && lake build MoSql.Props.%s  # + #print axioms audit of every theorem" % pid,
        "trusted_base": [
            "Lean 4.33.0 kernel",
            "axioms used: " + ", ".join(sorted({x for v in axioms.values() for x in v}) or ["(none)"]),
            "tools/extract.py (translator) and the correspondence harness",
            "Python 3.12 re / ast.literal_eval / float / repr",
        ],
        "theorems": sorted(axioms) if axioms else [],
        "leanchecker": getattr(ctx, "leanchecker", "not run (thorough tier only)"),
    }
    obligations["rule"] = getattr(mod, "RULE", None) or (
        "cases are produced by the seeded generators of tools/props/%s.py (one PRNG, VERIF_SEED) plus the fixed streams / "
        "corpus named in the assumptions; a case is counted once per distinct canonical text (sha1), and as non-trivial "
        "unless the module marks it trivial (atoms only, no construct under test)" % pid.lower())
    rep.assumptions = getattr(mod, "ASSUMPTIONS", [])
    return rep.finish(level="proof", obligations=obligations)


if __name__ == "__main__":
    sys.exit(main())
