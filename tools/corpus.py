"""The vendored corpus: every SQL string the repository's own tests hand to a parse function
(extracted with `ast` from /repo/tests/*.py), plus tests/mysql/*.sql; each with the entry point
that accepts it.  Cached in build/corpus.json keyed by the tests' content hash."""
import ast
import warnings
import glob
import hashlib
import json
import os

import common as C


def _strings(tree):
    for node in ast.walk(tree):
        if isinstance(node, ast.Call):
            f = node.func
            name = f.attr if isinstance(f, ast.Attribute) else getattr(f, "id", "")
            if name in ("parse", "parse_mysql", "parse_sqlserver", "parse_bigquery") and node.args:
                a = node.args[0]
                try:
                    with warnings.catch_warnings():
                        warnings.simplefilter("ignore")
                        v = ast.literal_eval(a)
                except Exception:
                    continue
                if isinstance(v, str):
                    yield name, v
        elif isinstance(node, ast.Assign) and isinstance(node.value, ast.Constant) and isinstance(node.value.value, str):
            v = node.value.value
            if any(w in v.lower() for w in ("select", "insert", "update", "delete", "create", "drop")):
                yield "parse", v


def load():
    files = sorted(glob.glob(os.path.join(C.REPO, "tests", "*.py")))
    h = hashlib.sha1()
    for f in files:
        h.update(open(f, "rb").read())
    key = h.hexdigest()[:16]
    cache = os.path.join(C.BUILD, "corpus_%s.json" % key)
    if os.path.exists(cache):
        return json.load(open(cache))
    R = C.real()
    seen = {}
    ent = {"parse": "common", "parse_mysql": "mysql", "parse_sqlserver": "sqlserver", "parse_bigquery": "bigquery"}
    for f in files:
        try:
            with warnings.catch_warnings():
                warnings.simplefilter("ignore")
                tree = ast.parse(open(f).read())
        except Exception:
            continue
        for name, sql in _strings(tree):
            if len(sql) > 4000 or sql in seen:
                continue
            for d in [ent[name]] + [x for x in ("common", "mysql", "sqlserver", "bigquery") if x != ent[name]]:
                r = R.parse_raw(sql, d, timeout=20)
                if r[0] == "ok" and r[1] is not None:
                    seen[sql] = d
                    break
    out = [{"sql": s, "dialect": d} for s, d in sorted(seen.items())]
    os.makedirs(C.BUILD, exist_ok=True)
    json.dump(out, open(cache, "w"))
    return out


def format_trees():
    """every tree literal the repository's own tests hand to format(...) (extracted with `ast`), plus the expected
    trees of assertEqual(parse(...), {...}) style tests: shapes the formatter has dedicated branches for"""
    files = sorted(glob.glob(os.path.join(C.REPO, "tests", "*.py")))
    h = hashlib.sha1()
    for f in files:
        h.update(open(f, "rb").read())
    cache = os.path.join(C.BUILD, "fmt_trees_%s.json" % h.hexdigest()[:16])
    if os.path.exists(cache):
        return json.load(open(cache))
    out = []
    seen = set()

    def add(v):
        if isinstance(v, (dict, list)) and v:
            try:
                k = json.dumps(v, sort_keys=True)
            except Exception:
                return
            if k not in seen and len(k) < 6000:
                seen.add(k)
                out.append(v)

    for f in files:
        try:
            with warnings.catch_warnings():
                warnings.simplefilter("ignore")
                tree = ast.parse(open(f).read())
        except Exception:
            continue
        for node in ast.walk(tree):
            if isinstance(node, ast.Call):
                fn = node.func
                name = fn.attr if isinstance(fn, ast.Attribute) else getattr(fn, "id", "")
                if name == "format" and node.args:
                    try:
                        add(ast.literal_eval(node.args[0]))
                    except Exception:
                        pass
            elif isinstance(node, ast.Assign) and isinstance(node.value, ast.Dict):
                try:
                    v = ast.literal_eval(node.value)
                except Exception:
                    continue
                if isinstance(v, dict) and any(k in v for k in ("select", "select_distinct", "from", "insert", "update", "delete", "union", "union_all", "create table", "with")):
                    add(v)
    os.makedirs(C.BUILD, exist_ok=True)
    json.dump(out, open(cache, "w"))
    return out
