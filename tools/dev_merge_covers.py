#!/venv/bin/python
"""DEVELOPMENT ONLY (never run by a check): after manual review, merge the sub-cases of one rule that the
last run observed (evidence/<ID>.json findings_observed) into the rule's covers list in known_findings.json."""
import json, os, sys, subprocess
V = os.path.dirname(os.path.dirname(os.path.abspath(__file__)))
pid, key = sys.argv[1], sys.argv[2]
what = sys.argv[3] if len(sys.argv) > 3 else None
path = os.path.join(V, "known_findings.json")
d = json.load(open(path))
obs = json.load(open(os.path.join(V, "evidence", pid + ".json")))["coverage"].get("findings_observed", {}).get(key, [])
obs = [x for x in obs if x]
sha = subprocess.run(["git", "-C", "/repo", "rev-parse", "--short", "HEAD"], capture_output=True, text=True).stdout.strip()
for f in d["findings"]:
    if f["property"] == pid and f["key"] == key:
        before = set(f.get("covers", []))
        f["covers"] = sorted(before | set(obs))
        print("added", sorted(set(obs) - before))
        break
else:
    d["findings"].append({"property": pid, "key": key, "what": what or key, "example": {}, "since": sha, "covers": sorted(obs)})
    print("new rule with", len(obs), "sub-cases")
d["findings"].sort(key=lambda f: (f["property"], f["key"]))
json.dump(d, open(path, "w"), indent=1, sort_keys=True, ensure_ascii=False)
