"""Correspondence of the Lean model of the recogniser engine (lean/MoSql/Peg.lean) with the real engine (mo_parsing):
small random grammars are built twice — as mo_parsing objects and as the model's `G` — and run on the same texts.

A grammar is JSON:  {"rules": [g, ...], "start": g, "top_ws": n}
  g = ["lit", s, caseless] | ["kw", s, caseless] | ["word", first, rest] | ["quoted", q] | ["empty"]
    | ["seq", ws, [g]] | ["alt", [g]] | ["longest", [g]] | ["many", ws, g, min, max] | ["opt", g]
    | ["group", g] | ["suppress", g] | ["ref", n] | ["not", g] | ["ahead", g]
  ws = 0 (no whitespace skipped), 1 (standard white characters), 2 (white characters and the three comment forms,
  built exactly as sql_parser.parser() builds its engine)
"""
import re

IDENT = "abcdefghijklmnopqrstuvwxyzABCDEFGHIJKLMNOPQRSTUVWXYZ0123456789_"
LETTERS = "abcdefghijklmnopqrstuvwxyz"
DIGITS = "0123456789"
MAXREP = 1000000

COMMENT_RX = re.compile(r"(?:[\t\n\r ]*(?:\-\-[^\n]*|\#[^\n]*|/\*.*?\*/))*[\t\n\r ]*", re.S)


def build(spec):
    """-> mo_parsing Parser"""
    from mo_parsing import (And, CaselessLiteral, Char, Empty, FollowedBy, Forward, Group, Keyword, Literal, Many,
                            MatchFirst, NotAny, Optional, Or, Regex, SkipTo, Suppress, Word)
    from mo_parsing.core import Parser
    from mo_parsing.whitespaces import Whitespace

    import contextlib
    from mo_parsing import whitespaces

    # exactly as sql_parser.parser(): ONE `with Whitespace() as white` block around the whole construction (the
    # engine object the ignores were added to is the object every comment-aware node holds), other engines entered
    # inside it and left again
    with Whitespace() as white:
        rest_of_line = Regex(r"[^\n]*")
        white.add_ignore(Literal("--") + rest_of_line)
        white.add_ignore(Literal("#") + rest_of_line)
        white.add_ignore(Literal("/*") + SkipTo("*/", include=True))

        def engine(ws):
            if ws == 0:
                return whitespaces.NO_WHITESPACE
            if ws == 1:
                return Whitespace()
            if whitespaces.CURRENT is not white:
                raise ValueError("the comment-aware engine is only available at the top of the construction")
            return contextlib.nullcontext()

        fw = [Forward() for _ in spec["rules"]]

        def mk(g):
            k = g[0]
            if k == "lit":
                return CaselessLiteral(g[1]) if g[2] else Literal(g[1])
            if k == "kw":
                return Keyword(g[1], ident_chars=IDENT, caseless=bool(g[2]))
            if k == "word":
                return Word(g[1], g[2]) if g[2] else Char(g[1])
            if k == "quoted":
                q = re.escape(g[1])
                return Regex(q + "(?:" + q + q + "|[^" + q + "])*" + q)
            if k == "empty":
                return Empty()
            if k == "seq":
                with engine(g[1]):
                    return And([mk(c) for c in g[2]])
            if k == "alt":
                return MatchFirst([mk(c) for c in g[1]])
            if k == "longest":
                return Or([mk(c) for c in g[1]])
            if k == "many":
                with engine(g[1]):
                    return Many(mk(g[2]), min_match=g[3], max_match=g[4])
            if k == "opt":
                return Optional(mk(g[1]))
            if k == "group":
                return Group(mk(g[1]))
            if k == "suppress":
                return Suppress(mk(g[1]))
            if k == "ref":
                return fw[g[1]]
            if k == "not":
                return NotAny(mk(g[1]))
            if k == "ahead":
                return FollowedBy(mk(g[1]))
            raise ValueError(k)

        for i, r in enumerate(spec["rules"]):
            fw[i] << mk(r)
        p = Parser(mk(spec["start"]))
        p.comment_engine_pattern = white.regex.pattern
    # which engine did Parser.__init__ pick for the skip in front of / behind the match?
    pat = p.whitespace.regex.pattern
    p.top_ws = 0 if pat == "" else (2 if pat == p.comment_engine_pattern else 1)
    return p


def _conv(r):
    from mo_parsing.results import ParseResults
    return [_conv(t) if isinstance(t, ParseResults) else t for t in r]


def run_real(parser, s, parse_all=False):
    """what Parser._parse_once does, keeping the end position"""
    start = parser.whitespace.skip(s, 0)
    r = parser._parse_fn()(s, start)
    if r.failed:
        return ["fail"]
    if parse_all:
        end = parser.whitespace.skip(s, r.end)
        if end != len(s):
            return ["fail"]
    return ["ok", _conv(r), r.end]


# ------------------------------------------------------------------ generators
KEYWORDS = ["select", "from", "and", "or", "not", "by", "as", "in"]
PUNCT = ["(", ")", ",", "-", "/", "+", "*", ".", "->", "||", "<", "<="]


def first_set(g, rules):
    """characters a match of `g` can begin with (g consumes)"""
    k = g[0]
    if k in ("lit", "kw"):
        c = g[1][0]
        return {c.lower(), c.upper()} if g[2] else {c}
    if k == "word":
        return set(g[1])
    if k == "quoted":
        return {g[1]}
    if k == "seq":
        return first_set(g[2][0], rules)
    if k in ("alt", "longest"):
        out = set()
        for c in g[1]:
            out |= first_set(c, rules)
        return out
    if k == "many":
        return first_set(g[2], rules)
    if k in ("group", "suppress", "opt"):
        return first_set(g[1], rules)
    if k == "ref":
        return first_set(rules[g[1]], rules) if rules.get(g[1]) is not None else set(LETTERS + DIGITS + "(")
    return set()


class GrammarGen:
    def __init__(self, rng):
        self.rng = rng
        self.inner = False
        self.cur_ws = 2
        self.rules = {}

    def alternatives(self, n, d, nrules, level):
        """alternatives with pairwise disjoint first characters: the engine dispatches a MatchFirst / Or through a
        first-character table (`Fast`), which is plain ordered choice only then"""
        out, seen = [], set()
        for _ in range(n * 4):
            c = self.consuming(d, nrules, level)
            f = first_set(c, self.rules)
            if f & seen:
                continue
            if self.cur_ws == 0 and self.leading_skip(c):
                # the first-character table is consulted at the raw position: below a node that skips nothing, an
                # alternative that would begin by skipping (a repetition with a whitespace engine) is never reached
                # through the table although plain ordered choice would reach it — outside the model (DESIGN 12.9)
                continue
            seen |= f
            out.append(c)
            if len(out) == n:
                break
        return out or [self.terminal()]

    def uses_comment_engine(self, c, seen=()):
        if not isinstance(c, list) or not c:
            return False
        if c[0] in ("seq", "many") and c[1] == 2:
            return True
        if c[0] == "ref":
            return c[1] not in seen and self.uses_comment_engine(self.rules.get(c[1]), seen + (c[1],))
        return any(self.uses_comment_engine(x, seen) for x in c[1:] if isinstance(x, list)) or any(
            self.uses_comment_engine(y, seen) for x in c[1:] if isinstance(x, list) for y in x if isinstance(y, list))

    def leading_skip(self, c, seen=()):
        k = c[0]
        if k == "many":
            return c[1] != 0 or self.leading_skip(c[2], seen)
        if k == "seq":
            return bool(c[2]) and self.leading_skip(c[2][0], seen)
        if k in ("group", "suppress", "opt"):
            return self.leading_skip(c[1], seen)
        if k in ("alt", "longest"):
            return any(self.leading_skip(x, seen) for x in c[1])
        if k == "ref":
            return c[1] not in seen and c[1] in self.rules and self.leading_skip(self.rules[c[1]], seen + (c[1],))
        return False

    def terminal(self):
        r = self.rng
        k = r.random()
        if k < 0.3:
            return ["kw", r.choice(KEYWORDS), r.random() < 0.8]
        if k < 0.55:
            return ["lit", r.choice(PUNCT), False]
        if k < 0.6:
            return ["lit", r.choice(KEYWORDS), r.random() < 0.5]
        if k < 0.8:
            return ["word", LETTERS + "_", LETTERS + DIGITS + "_"]
        if k < 0.92:
            return ["word", DIGITS, DIGITS]
        return ["quoted", r.choice("'\"`")]

    def consuming(self, d, nrules, level):
        """a node that cannot match the empty text"""
        r = self.rng
        k = r.random()
        if d <= 0 or k < 0.35:
            return self.terminal()
        if k < 0.6:
            n = r.randint(2, 4)
            ws = self.ws()
            return ["seq", ws, self.under(ws, lambda: [self.consuming(d - 1, nrules, level)] + [self.node(d - 1, nrules, level) for _ in range(n - 1)])]
        if k < 0.75:
            return [r.choice(["alt", "alt", "longest"]), self.alternatives(r.randint(2, 3), d - 1, nrules, level)]
        if k < 0.85:
            return ["group", self.consuming(d - 1, nrules, level)]
        if k < 0.93:
            mn = r.choice([1, 1, 2])
            ws = self.ws()
            return ["many", ws, self.under(ws, lambda: self.consuming(d - 1, nrules, level)), mn, r.choice([MAXREP, MAXREP, mn + 1])]
        if level + 1 < nrules:
            target = r.randint(level + 1, nrules - 1)
            # the nesting rule of `ws()` holds through references too: a rule that uses the comment-aware engine is not
            # referred to from below a node with another engine
            if not (self.inner and self.uses_comment_engine(self.rules.get(target))):
                return ["ref", target]
        return self.terminal()

    def ws(self):
        # sql_parser.parser() builds everything inside ONE `with Whitespace() as white` block and enters the
        # standard / no-whitespace engines inside it: below a node with another engine the comment-aware one
        # is not available any more
        if self.inner:
            return self.rng.choice([1, 0])
        return self.rng.choice([2, 2, 2, 2, 1, 0])

    def under(self, ws, make):
        """build children of a node whose engine is `ws`"""
        old, old_ws = self.inner, self.cur_ws
        self.inner = old or ws != 2
        self.cur_ws = ws
        try:
            return make()
        finally:
            self.inner, self.cur_ws = old, old_ws

    def node(self, d, nrules, level):
        r = self.rng
        k = r.random()
        if d <= 0 or k < 0.45:
            return self.consuming(d, nrules, level)
        if k < 0.6:
            return ["opt", self.consuming(d - 1, nrules, level)]
        if k < 0.72:
            ws = self.ws()
            return ["many", ws, self.under(ws, lambda: self.consuming(d - 1, nrules, level)), 0, r.choice([MAXREP, MAXREP, 2])]
        if k < 0.78:
            return ["suppress", self.consuming(d - 1, nrules, level)]
        # lookaheads: over terminals only (the engine compiles a lookahead to a regular expression, which is the
        # same thing only for terminals; the SQL grammar's five NotAny are over keyword sets)
        if k < 0.83:
            return ["not", ["alt", self.lookahead_terms()] if r.random() < 0.5 else self.terminal()]
        if k < 0.87:
            return ["ahead", ["alt", self.lookahead_terms()] if r.random() < 0.5 else self.terminal()]
        if k < 0.9:
            return ["empty"]
        if k < 0.95:
            ws = self.ws()
            return ["seq", ws, self.under(ws, lambda: [self.node(d - 1, nrules, level) for _ in range(r.randint(1, 3))])]
        # alternatives that can match the empty text: only `Empty` in last place, as in the SQL grammar
        # ({true} | {false} | … | {Empty}).  The engine dispatches the alternatives of a MatchFirst through a
        # first-character table (`Fast`) built from `expecting()`, and `Optional(x).expecting()` is x's: an Optional
        # alternative is then not tried at all on a text that does not begin like x — ordered choice only for
        # alternatives that consume
        return ["alt", self.alternatives(r.randint(1, 2), d - 1, nrules, level) + [["empty"]]]

    def lookahead_terms(self):
        out, seen = [], set()
        for _ in range(8):
            t = self.terminal()
            f = first_set(t, {})
            if not (f & seen):
                seen |= f
                out.append(t)
            if len(out) == 3:
                break
        return out

    def grammar(self):
        r = self.rng
        nrules = r.randint(1, 3)
        self.rules = {}
        self.inner = False
        for level in reversed(range(nrules)):           # a rule refers to later rules only (and rule 0 to itself, guarded)
            body = self.consuming(2, nrules, level)
            if level == 0 and r.random() < 0.6 and "(" not in first_set(body, self.rules):
                # guarded recursion: "(" rule0 ")"
                body = ["alt", [["seq", 2, [["lit", "(", False], ["ref", 0], ["lit", ")", False]]], body]]
            self.rules[level] = body
        rules = [self.rules[i] for i in range(nrules)]
        # Parser.__init__ takes the whitespace engine of the top element for the skip in front of / behind the match:
        # the top is always a sequence here, and `top_ws` is its engine
        ws = r.choice([2, 2, 2, 1, 0])
        start = ["seq", ws, self.under(ws, lambda: [self.node(3, nrules, -1) for _ in range(r.randint(1, 3))])]
        return {"rules": rules, "start": start, "top_ws": ws}


FILLERS = [" ", " ", "", "", "  ", "\n", "\t", " -- c\n", "# x\n", "/* c */", " /* a\n b */ ", "/**/", "/*", "--", " - ", "/* * / */", "\r\n", "-- /* \n"]


class TextGen:
    """texts derived from the grammar (so that many are accepted), with arbitrary fillers in the gaps, plus mutations"""

    def __init__(self, rng, spec):
        self.rng = rng
        self.spec = spec

    def derive(self, g, d):
        r = self.rng
        k = g[0]
        if k in ("lit", "kw"):
            s = g[1]
            if g[2] and r.random() < 0.4:
                s = s.upper() if r.random() < 0.5 else s.title()
            return [s]
        if k == "word":
            n = r.randint(0, 3) if g[2] else 0
            return [r.choice(g[1]) + "".join(r.choice(g[2]) for _ in range(n))]
        if k == "quoted":
            q = g[1]
            body = "".join(r.choice(["a", " ", q + q, "-", "/*", "\n", "b"]) for _ in range(r.randint(0, 4)))
            return [q + body + q]
        if k in ("empty", "not", "ahead"):
            return []
        if k == "seq":
            out = []
            for c in g[2]:
                out += self.derive(c, d)
            return out
        if k in ("alt", "longest"):
            return self.derive(r.choice(g[1]), d)
        if k == "many":
            if d <= 0:
                n = g[3]
            else:
                n = r.randint(g[3], min(g[4], g[3] + 2))
            out = []
            for _ in range(n):
                out += self.derive(g[2], d - 1)
            return out
        if k == "opt":
            return self.derive(g[1], d) if r.random() < 0.6 else []
        if k in ("group", "suppress"):
            return self.derive(g[1], d)
        if k == "ref":
            if d <= 0:
                return ["x"]
            return self.derive(self.spec["rules"][g[1]], d - 1)
        raise ValueError(k)

    def text(self):
        r = self.rng
        toks = self.derive(self.spec["start"], 3)
        if r.random() < 0.35 and toks:
            i = r.randrange(len(toks))
            m = r.random()
            if m < 0.3:
                del toks[i]
            elif m < 0.6:
                toks.insert(i, r.choice(KEYWORDS + PUNCT + ["x1", "42", "'s'"]))
            else:
                toks[i] = r.choice(KEYWORDS + PUNCT + ["x1", "42"])
        if r.random() < 0.3:
            toks += [r.choice(KEYWORDS + PUNCT + ["zz", "7"]) for _ in range(r.randint(1, 2))]
        out = [r.choice(FILLERS) if r.random() < 0.3 else ""]
        for t in toks:
            out.append(t)
            out.append(r.choice(FILLERS))
        return "".join(out)


def normal_end(s, end):
    """position after the filler that follows `end` (the engine leaves the end in front of or behind a filler
    depending on the kind of the last empty child; the difference is never observable in a parse result)"""
    return COMMENT_RX.match(s, end).end()


def correspond(driver, rng, n_grammars, n_texts, on_case=None):
    """-> (cases, mismatches[list of dict], stats)"""
    gg = GrammarGen(rng)
    specs, reqs, texts_of, parsers = [], [], [], []
    mism, stats = [], {"ok": 0, "fail": 0, "diverge": 0, "build-error": 0, "end-in-filler": 0}
    for _ in range(n_grammars):
        spec = gg.grammar()
        try:
            p = build(spec)
        except Exception as e:      # a grammar the engine refuses to build is no case
            stats["build-error"] += 1
            continue
        spec["top_ws"] = p.top_ws
        tg = TextGen(rng, spec)
        texts = [tg.text() for _ in range(n_texts)]
        for pa in (False, True):
            reqs.append(dict(spec, op="peg", fuel=200, inputs=texts, parse_all=pa))
        specs.append(spec)
        texts_of.append(texts)
        parsers.append(p)
    answers = driver.batch(reqs)
    cases = 0
    for gi, spec in enumerate(specs):
        p = parsers[gi]
        for pi, pa in enumerate((False, True)):
            a = answers[2 * gi + pi]
            if "error" in a:
                raise RuntimeError("driver: " + a["error"])
            for s, m in zip(texts_of[gi], a["model"]):
                try:
                    real = run_real(p, s, pa)
                except RecursionError:
                    real = ["diverge"]
                cases += 1
                stats[real[0]] = stats.get(real[0], 0) + 1
                if on_case:
                    on_case(spec, s, real)
                same = real[0] == m[0]
                if same and real[0] == "ok":
                    same = real[1] == m[1] and normal_end(s, real[2]) == normal_end(s, m[2])
                    if same and real[2] != m[2]:
                        stats["end-in-filler"] += 1
                if not same:
                    mism.append({"grammar": spec, "text": s, "parse_all": pa, "real": real, "model": m})
    return cases, mism, stats
