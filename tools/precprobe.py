"""One statement that pins the whole operator table: every ordered pair of operator levels side by side without
parentheses (`x o1 y o2 z`), and every prefix operator in front of every binary one.  Any change of the relative
order, associativity or flattening of two operators — for one dialect, after a particular call history, in one
thread — changes the tree of this statement."""

BINARY = ["*", "/", "%", "+", "-", "&", "|", "||", "<", "<=", ">", ">=", "=", "<>", "!=", "like", "not like", "and", "or", "is"]
PREFIX = ["not", "~", "-"]


def expressions():
    out = []
    n = 0
    for o1 in BINARY:
        for o2 in BINARY:
            n += 1
            out.append("a%d %s b%d %s c%d" % (n, o1, n, o2, n))
    for p in PREFIX:
        for o in BINARY:
            n += 1
            out.append("%s a%d %s b%d" % (p, n, o, n))
            if p != "-" or o not in ("-",):
                n += 1
                out.append("a%d %s %s b%d" % (n, o, p, n))
    return out


def statements(chunk=60):
    """-> list of SELECT statements covering all expressions (chunked to keep each parse short)"""
    ex = expressions()
    return ["select " + ", ".join(ex[i:i + chunk]) + " from t" for i in range(0, len(ex), chunk)]
