"""One statement that pins the whole operator table: every ordered pair of operator levels side by side without
parentheses (`x o1 y o2 z`), and every prefix operator in front of every binary one.  Any change of the relative
order, associativity or flattening of two operators — for one dialect, after a particular call history, in one
thread — changes the tree of this statement."""

BINARY = ["*", "/", "%", "+", "-", "&", "|", "||", "<", "<=", ">", ">=", "=", "<>", "!=", "like", "not like", "and", "or", "is"]
PREFIX = ["not", "~", "-"]


def expressions():
    out = []
    n = 0
    for o1 in BINARY:
        for o2 in BINARY:
            n += 1
            out.append("a%d %s b%d %s c%d" % (n, o1, n, o2, n))
    for p in PREFIX:
        for o in BINARY:
            n += 1
            out.append("%s a%d %s b%d" % (p, n, o, n))
            if p != "-" or o not in ("-",):
                n += 1
                out.append("a%d %s %s b%d" % (n, o, p, n))
    return out


# the suffix operators of the expression grammar (field access on something that is not a plain name, `:` access,
# cast, window clause, FILTER), alone, stacked, and next to prefix and binary operators; none of them is written with a
# dialect-sensitive character
SUFFIX = [
    "f(x).y", "(a).b", "(select a from t).b", "g(t.c).d = 1", "cast(a as int).b", "f(x).y.z", "(a + b).c", "a:b.c", "f(x):y", "a.b.c",
    "f(x).y + 1", "- f(x).y", "not (a).b", "(a).b * (c).d + (e).f", "a::int", "a.b::int", "a::int::text", "a::int + 1", "- a::int", "(a::int).b",
    "count(a) filter (where b > 1)", "sum(a) over (partition by b)", "sum(a) over (order by c) filter (where b)", "f(x).y over (order by c)",
    "sum(a.b) over (partition by (c).d order by f(e).g)", "1 + sum(a) over (partition by b) * 2", "max((a).b) filter (where (c).d > 1) + 1",
]


def statements(chunk=60):
    """-> list of SELECT statements covering all expressions (chunked to keep each parse short)"""
    ex = expressions()
    return ["select " + ", ".join(ex[i:i + chunk]) + " from t" for i in range(0, len(ex), chunk)] + [
        "select " + ", ".join(SUFFIX) + " from t"] + ["select %s from t" % e for e in SUFFIX]
