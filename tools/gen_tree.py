"""G-tree: well-formed trees in simplified normal form over the formatter's vocabulary
(including shapes no SQL text in the tests produces)."""
import ref

# name -> arity (number of operand slots)
UNARY = ["not", "missing", "exists", "binary_not", "neg"]
COLLATE = "collate"   # {"collate": [expr, collation-name]}: one operand slot
TERNARY = ["between", "not_between"]
SPECIAL_BIN = ["in", "nin", "regexp", "not_regexp", "concat"]
FLAT = set(ref.FLATTENED)


class TreeGen:
    def __init__(self, rng, fmt_ops):
        self.rng = rng
        self.fmt = [o["name"] for o in fmt_ops if o.get("key")]
        self.n = 0

    def names(self):
        return self.fmt + UNARY + TERNARY + SPECIAL_BIN + ["cast", "case", "fn", COLLATE]

    def arity(self, name):
        if name in UNARY or name == "cast" or name == COLLATE:
            return 1
        if name in TERNARY or name == "case":
            return 3
        return 2

    def col(self):
        self.n += 1
        return "c%d" % self.n

    def atom(self):
        r = self.rng.random()
        self.n += 1
        if r < 0.6:
            return "c%d" % self.n
        if r < 0.75:
            return 1000 + self.n
        if r < 0.85:
            return {"literal": "s%d" % self.n}
        if r < 0.9:
            return self.n + 0.5
        if r < 0.95:
            return True
        return "c%d" % self.n

    def build(self, name, kids):
        if name in UNARY:
            return {name: kids[0]}
        if name == "cast":
            return {"cast": [kids[0], {"int": {}}]}
        if name == COLLATE:
            return {"collate": [kids[0], "nocase"]}
        if name == "case":
            return {"case": [{"when": kids[0], "then": kids[1]}, kids[2]]}
        if name == "fn":
            self.n += 1
            return {"f%d" % self.n: list(kids)}
        return {name: list(kids)}

    def root(self, t):
        if isinstance(t, dict) and len(t) == 1:
            k = next(iter(t))
            if k in ("literal", "null"):
                return None
            if k.startswith("f") and k[1:].isdigit():
                return "fn"
            return k
        return None

    def ok_edge(self, outer, slot, inner_tree):
        """normal form: what parse would never produce is not a legal tree"""
        inner = self.root(inner_tree)
        if inner is not None and inner == outer and outer in FLAT:
            return False  # flattened operators never nest directly
        if outer == "neg" and isinstance(inner_tree, (int, float)) and not isinstance(inner_tree, bool):
            return False  # would be a negative literal
        return True

    def depth2(self):
        for outer in self.names():
            for slot in range(self.arity(outer)):
                for inner in self.names():
                    self.n = 0
                    it = self.build(inner, [self.col() for _ in range(self.arity(inner))])
                    if not self.ok_edge(outer, slot, it):
                        continue
                    kids = [it if i == slot else self.col() for i in range(self.arity(outer))]
                    yield (outer, slot, inner), self.build(outer, kids)

    def random(self, depth):
        if depth <= 0 or self.rng.random() < 0.2:
            return self.atom()
        for _ in range(20):
            name = self.rng.choice(self.names())
            n_kids = self.arity(name)
            if name in FLAT and name in self.fmt:
                n_kids = self.rng.choice([2, 2, 3, 4])      # flattened operators are n-ary
            kids = [self.random(depth - 1) for _ in range(n_kids)]
            if all(self.ok_edge(name, i, k) for i, k in enumerate(kids)):
                return self.build(name, kids)
        return self.atom()

    def edges(self, t, acc=None):
        """(outer, slot, inner) for every operator-under-operator edge"""
        acc = [] if acc is None else acc
        r = self.root(t)
        if r is None:
            return acc
        v = next(iter(t.values()))
        if r == "case":
            kids = [v[0]["when"], v[0]["then"], v[1]]
        elif r == "cast" or r == COLLATE:
            kids = [v[0]]
        elif isinstance(v, list):
            kids = v
        else:
            kids = [v]
        for i, k in enumerate(kids):
            kr = self.root(k)
            if kr is not None:
                acc.append((r, min(i, 1) if r in self.fmt and len(kids) > 2 else i, kr))
            self.edges(k, acc)
        return acc


def to_T(t, fmt_names, flat=FLAT):
    """tree over the Operator vocabulary -> T JSON for the Lean driver (None if outside that vocabulary)"""
    if isinstance(t, str):
        return ["leaf", t, t]
    if isinstance(t, bool):
        return ["leaf", "True" if t else "False", t]
    if isinstance(t, int):
        return ["leaf", str(t), {"$i": str(t)}]
    if isinstance(t, float):
        return ["leaf", repr(t), {"$f": repr(t)}]
    if isinstance(t, dict) and len(t) == 1:
        k, v = next(iter(t.items()))
        if k == "literal" and isinstance(v, str):
            return ["leaf", "'" + v.replace("'", "''") + "'", ["$dict", ["literal", v]]]
        if k in fmt_names and isinstance(v, list) and len(v) >= 2:
            kids = [to_T(x, fmt_names) for x in v]
            if any(x is None for x in kids):
                return None
            acc = kids[0]
            for x in kids[1:]:
                acc = ["bin", k, acc, x]
            return acc
    return None


def to_T2(t, all_names, flat=FLAT):
    """tree over the whole renderer vocabulary -> T2 JSON for the Lean driver (None if outside it; IN / NOT IN are
    left out of the text correspondence because their right operand is a list)"""
    if isinstance(t, str):
        return ["leaf", t, t]
    if isinstance(t, bool):
        return ["leaf", "True" if t else "False", t]
    if isinstance(t, int):
        return ["leaf", str(t), {"$i": str(t)}]
    if isinstance(t, float):
        return ["leaf", repr(t), {"$f": repr(t)}]
    if isinstance(t, dict) and len(t) == 1:
        k, v = next(iter(t.items()))
        if k == "literal" and isinstance(v, str):
            return ["leaf", "'" + v.replace("'", "''") + "'", ["$dict", ["literal", v]]]
        if k not in all_names or k in ("in", "nin"):
            return None
        kind = all_names[k]
        if kind in ("pre", "binA"):
            x = to_T2(v, all_names)
            return None if x is None else ["un", k, x]
        if not isinstance(v, list):
            return None
        kids = [to_T2(x, all_names) for x in v]
        if any(x is None for x in kids):
            return None
        if kind == "tern":
            return ["tern", k] + kids if len(kids) == 3 else None
        if len(kids) < 2:
            return None
        acc = kids[0]
        for x in kids[1:]:
            acc = ["bin", k, acc, x]
        return acc
    return None
