"""G-tokens: statements as explicit token lists with exact token classes, so that every inter-token
gap, every keyword / function name / type name, every optional AS, every bracket and every
mandatory keyword partner is known by construction (C09, C14, C18).

token = (text, cls[, tag])   cls: kw keyword | fn function name | ty type name | id identifier
                                  | lit literal | p punctuation/operator | as optional AS keyword
tag (optional): "open:<n>" / "close:<n>" for bracket pairs, "partner" for a keyword that is the
mandatory second half of a construct (BY after ORDER, THEN after WHEN, END after CASE, AND in BETWEEN…),
"lastop" for the last operand token of an operator (only when that operand is a single token).
"""

TYPES = [["int"], ["bigint"], ["text"], ["date"], ["boolean"], ["varchar", "(", "10", ")"], ["decimal", "(", "10", ",", "2", ")"],
         ["double", "precision"], ["timestamp"], ["char", "(", "3", ")"], ["float"], ["smallint"], ["numeric", "(", "8", ")"]]
FUNCS = ["f9", "coalesce", "lower", "abs", "g9", "concat", "nullif", "round"]
AGGS = ["sum", "count", "min", "max", "avg"]
BIN_SYM = ["+", "-", "*", "/", "%", "||", "=", "<>", "!=", "<", "<=", ">", ">=", "&", "|"]
BIN_KW = [["and"], ["or"], ["like"], ["not", "like"], ["is", "distinct", "from"], ["is", "not", "distinct", "from"],
          ["ilike"], ["rlike"], ["not", "rlike"], ["similar", "to"], ["not", "similar", "to"], ["not", "ilike"]]


class Gen:
    def __init__(self, rng):
        self.rng = rng
        self.n = 0
        self.b = 0

    # ---- helpers
    def ident(self, p="c"):
        self.n += 1
        return (p + str(self.n), "id")

    def kw(self, *ws, tag=None):
        out = []
        for i, w in enumerate(ws):
            out.append((w, "kw", "partner") if (tag == "partners" and i > 0) else (w, "kw"))
        return out

    def paren(self, inner):
        self.b += 1
        n = self.b
        return [("(", "p", "open:%d" % n)] + inner + [(")", "p", "close:%d" % n)]

    def lit(self):
        r = self.rng
        k = r.randint(0, 3)
        self.n += 1
        if k == 0:
            return [(str(1000 + self.n), "lit")]
        if k == 1:
            return [("'s%d'" % self.n, "lit")]
        if k == 2:
            return [("%d.5" % self.n, "lit")]
        return [("'it''s %d'" % self.n, "lit")]

    def type_(self):
        t = self.rng.choice(TYPES)
        out = [(t[0], "ty")]
        rest = t[1:]
        if rest and rest[0] == "(":
            inner = [(x, "lit" if x.isdigit() else "p") for x in rest[1:-1]]
            out += self.paren(inner)
        else:
            out += [(x, "ty") for x in rest]
        return out

    # ---- expressions
    def atom(self):
        r = self.rng.random()
        if r < 0.55:
            return [self.ident("c")]
        if r < 0.65:
            a, b = self.ident("t"), self.ident("c")
            return [(a[0] + "." + b[0], "id")]
        return self.lit()

    def expr(self, d):
        rng = self.rng
        if d <= 0:
            return self.atom()
        k = rng.randint(0, 13)
        if k <= 2:
            a, b = self.operand(d - 1), self.operand(d - 1)
            if len(b) == 1:
                b = [(b[0][0], b[0][1], "lastop")]
            return a + [(rng.choice(BIN_SYM), "p")] + b
        if k <= 4:
            ws = rng.choice(BIN_KW)
            a, b = self.operand(d - 1), self.operand(d - 1)
            if len(b) == 1:
                b = [(b[0][0], b[0][1], "lastop")]
            return a + self.kw(*ws, tag="partners") + b
        if k == 5:
            return [(rng.choice(FUNCS), "fn")] + self.paren(self.args(d - 1, rng.randint(1, 3)))
        if k == 6:
            neg = rng.random() < 0.4
            return self.operand(d - 1) + self.kw(*(["not", "between"] if neg else ["between"]), tag="partners") + self.operand(d - 1) + \
                [("and", "kw", "partner")] + self.operand(d - 1)
        if k == 7:
            neg = rng.random() < 0.4
            return self.operand(d - 1) + self.kw(*(["not", "in"] if neg else ["in"]), tag="partners") + \
                self.paren(self.args(0, rng.randint(1, 3)))
        if k == 8:
            neg = rng.random() < 0.5
            return self.operand(d - 1) + self.kw(*(["is", "not", "null"] if neg else ["is", "null"]), tag="partners")
        if k == 9:
            out = self.kw("case")
            for _ in range(rng.randint(1, 2)):
                out += self.kw("when") + self.expr(d - 1) + [("then", "kw", "partner")] + self.expr(d - 1)
            if rng.random() < 0.6:
                out += self.kw("else") + self.expr(d - 1)
            return out + [("end", "kw", "partner")]
        if k == 10:
            return self.kw("cast") + self.paren(self.expr(d - 1) + [("as", "kw", "partner")] + self.type_())
        if k == 11:
            return self.kw("not") + self.operand(d - 1)
        if k == 12:
            if rng.random() < 0.3:
                return self.operand(d - 1) + self.kw("collate") + [(rng.choice(["nocase", "binary", "utf8_bin"]), "id", "lastop")]
            return self.operand(d - 1) + [("::", "p")] + [(rng.choice(["int", "text", "date", "bigint"]), "ty")]
        return self.paren(self.expr(d - 1))

    def operand(self, d):
        """an operand that needs no precedence reasoning: atom, call or parenthesised expression"""
        if d <= 0 or self.rng.random() < 0.45:
            return self.atom()
        if self.rng.random() < 0.3:
            return [(self.rng.choice(FUNCS), "fn")] + self.paren(self.args(d - 1, self.rng.randint(1, 2)))
        return self.paren(self.expr(d))

    def args(self, d, n):
        out = []
        for i in range(n):
            if i:
                out.append((",", "p"))
            out += self.expr(d)
        return out

    def alias(self, p="a"):
        """an alias is always written with AS here; the token of class "as" may be omitted by the caller"""
        r = self.rng.random()
        if r < 0.5:
            return []
        return [("as", "as"), self.ident(p)]

    # ---- queries
    def window(self, d):
        rng = self.rng
        inner = []
        if rng.random() < 0.7:
            inner += self.kw("partition", "by", tag="partners") + self.args(0, rng.randint(1, 2))
        if rng.random() < 0.7:
            inner += self.kw("order", "by", tag="partners") + self.atom() + (self.kw(rng.choice(["asc", "desc"])) if rng.random() < 0.5 else [])
            if rng.random() < 0.5:
                fr = rng.choice([
                    ["rows", "between", "2", "preceding", "and", "current", "row"],
                    ["rows", "unbounded", "preceding"],
                    ["range", "between", "unbounded", "preceding", "and", "1", "following"],
                    ["rows", "between", "current", "row", "and", "unbounded", "following"],
                ])
                inner += [(w, "lit" if w.isdigit() else "kw") for w in fr]
        return self.kw("over") + self.paren(inner)

    def select_item(self, d):
        rng = self.rng
        r = rng.random()
        if r < 0.15:
            f = [(rng.choice(AGGS), "fn")] + self.paren((self.kw("distinct") if rng.random() < 0.3 else []) + self.expr(0))
            if rng.random() < 0.3:
                f += self.kw("filter") + self.paren(self.kw("where") + self.expr(1))
            if rng.random() < 0.5:
                f += self.window(d)
            return f + self.alias()
        return self.expr(d) + self.alias()

    def table(self):
        r = self.rng.random()
        if r < 0.15:
            a, b = self.ident("s"), self.ident("t")
            return [(a[0] + "." + b[0], "id")] + self.alias("u")
        return [self.ident("t")] + self.alias("u")

    def simple_select(self, d, clauses=True):
        rng = self.rng
        out = self.kw("select")
        if rng.random() < 0.15:
            out += self.kw("distinct")
        n = rng.randint(1, 3)
        for i in range(n):
            if i:
                out.append((",", "p"))
            out += self.select_item(d)
        out += self.kw("from") + self.table()
        for _ in range(rng.choice([0, 0, 1, 2])):
            jk = rng.choice([["join"], ["inner", "join"], ["left", "join"], ["left", "outer", "join"], ["right", "join"],
                             ["full", "outer", "join"], ["cross", "join"], ["full", "join"], ["right", "outer", "join"]])
            out += self.kw(*jk, tag="partners") + self.table()
            if jk != ["cross", "join"]:
                if rng.random() < 0.75:
                    out += self.kw("on") + self.expr(1)
                else:
                    out += self.kw("using") + self.paren([self.ident("c")])
        if not clauses:
            return out
        if rng.random() < 0.5:
            out += self.kw("where") + self.expr(d)
        if rng.random() < 0.3:
            out += self.kw("group", "by", tag="partners") + self.args(0, rng.randint(1, 2))
            if rng.random() < 0.5:
                out += self.kw("having") + self.expr(1)
        return out

    def tail(self):
        rng = self.rng
        out = []
        if rng.random() < 0.35:
            out += self.kw("order", "by", tag="partners")
            for i in range(rng.randint(1, 2)):
                if i:
                    out.append((",", "p"))
                out += self.atom()
                if rng.random() < 0.5:
                    out += self.kw(rng.choice(["asc", "desc"]))
                if rng.random() < 0.25:
                    out += self.kw("nulls", rng.choice(["first", "last"]), tag="partners")
        if rng.random() < 0.3:
            out += self.kw("limit") + [("10", "lit")]
            if rng.random() < 0.4:
                out += self.kw("offset") + [("5", "lit")]
        return out

    def query(self, d=2):
        rng = self.rng
        out = []
        if rng.random() < 0.15:
            out += self.kw("with") + [self.ident("w")] + [("as", "kw", "partner")] + self.paren(self.simple_select(1))
        out += self.simple_select(d)
        for _ in range(rng.choice([0, 0, 0, 1, 2])):
            op = rng.choice([["union"], ["union", "all"], ["intersect"], ["except"]])
            out += self.kw(*op) + self.simple_select(1)
        return out + self.tail()

    def subquery_stmt(self):
        rng = self.rng
        k = rng.randint(0, 2)
        if k == 0:
            return self.kw("select") + [self.ident("c")] + self.kw("from") + self.paren(self.query(1)) + [("as", "as"), self.ident("q")]
        if k == 1:
            return self.kw("select") + [self.ident("c")] + self.kw("from") + [self.ident("t")] + self.kw("where") + \
                [self.ident("c")] + self.kw("in") + self.paren(self.simple_select(1))
        return self.kw("select") + [self.ident("c")] + self.kw("from") + [self.ident("t")] + self.kw("where") + \
            self.kw("exists") + self.paren(self.simple_select(1))

    # ---- DDL / DML
    def create_table(self):
        rng = self.rng
        cols = []
        for i in range(rng.randint(1, 4)):
            if i:
                cols.append((",", "p"))
            cols += [self.ident("c")] + self.type_()
            for o in rng.sample(rng.choice([["nn", "def", "pk", "uq"], ["def", "uq", "null"]]), rng.randint(0, 2)):
                if o == "nn":
                    cols += self.kw("not", "null", tag="partners")
                elif o == "def":
                    cols += self.kw("default") + self.lit()
                elif o == "pk":
                    cols += self.kw("primary", "key", tag="partners")
                elif o == "uq":
                    cols += self.kw("unique")
                else:
                    cols += self.kw("null")
        if rng.random() < 0.3:
            cols += [(",", "p")] + self.kw("primary", "key", tag="partners") + self.paren([self.ident("c")])
        head = self.kw("create", "table", tag="partners")
        if rng.random() < 0.3:
            head += self.kw("if", "not", "exists", tag="partners")
        return head + [self.ident("t")] + self.paren(cols)

    def insert(self):
        rng = self.rng
        n = rng.randint(1, 3)
        cols = []
        for i in range(n):
            if i:
                cols.append((",", "p"))
            cols.append(self.ident("c"))
        out = self.kw("insert", "into", tag="partners") + [self.ident("t")] + self.paren(cols)
        if rng.random() < 0.7:
            out += self.kw("values")
            for j in range(rng.randint(1, 3)):
                if j:
                    out.append((",", "p"))
                row = []
                for i in range(n):
                    if i:
                        row.append((",", "p"))
                    row += self.lit()
                out += self.paren(row)
        else:
            out += self.simple_select(1)
        return out

    def update(self):
        rng = self.rng
        out = self.kw("update") + [self.ident("t")] + self.kw("set")
        for i in range(rng.randint(1, 3)):
            if i:
                out.append((",", "p"))
            out += [self.ident("c"), ("=", "p")] + self.expr(1)
        if rng.random() < 0.7:
            out += self.kw("where") + self.expr(1)
        return out

    def delete(self):
        out = self.kw("delete", "from", tag="partners") + [self.ident("t")]
        if self.rng.random() < 0.8:
            out += self.kw("where") + self.expr(2)
        return out

    def misc(self):
        rng = self.rng
        k = rng.randint(0, 4)
        if k == 0:
            return self.kw("drop", "table", tag="partners") + (self.kw("if", "exists", tag="partners") if rng.random() < 0.5 else []) + [self.ident("t")]
        if k == 1:
            return self.kw("create", "view", tag="partners") + [self.ident("v")] + [("as", "kw", "partner")] + self.simple_select(1)
        if k == 2:
            return self.kw("create", "index", tag="partners") + [self.ident("i")] + \
                self.kw("on") + [self.ident("t")] + self.paren([self.ident("c")])
        if k == 3:
            return self.kw("select") + self.kw("extract") + self.paren(self.kw(rng.choice(["year", "month", "day"])) + self.kw("from") + [self.ident("c")]) + self.kw("from") + [self.ident("t")]
        return self.kw("select") + [self.ident("c")] + self.kw("from") + [self.ident("t")] + self.kw("order", "by", tag="partners") + [self.ident("c")] + self.kw("fetch", "first") + [("5", "lit")] + self.kw("rows", "only")

    def statement(self):
        self.n = 0
        self.b = 0
        r = self.rng.random()
        if r < 0.5:
            return "query", self.query(2)
        if r < 0.6:
            return "subquery", self.subquery_stmt()
        if r < 0.7:
            return "create_table", self.create_table()
        if r < 0.78:
            return "insert", self.insert()
        if r < 0.86:
            return "update", self.update()
        if r < 0.92:
            return "delete", self.delete()
        return "misc", self.misc()


def text(tokens, gaps=None, drop=()):
    """join tokens; gaps[i] is the filler between token i and i+1 (default one blank)"""
    out = []
    toks = [t for i, t in enumerate(tokens) if i not in drop]
    for i, t in enumerate(toks):
        if i:
            out.append(" " if gaps is None else gaps.get(i - 1, " "))
        out.append(t[0])
    return "".join(out)


def cls_key(t):
    if t[1] == "id":
        return "<id>"
    if t[1] == "lit":
        return "<lit>"
    return t[0].lower()
