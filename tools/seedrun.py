#!/venv/bin/python
"""(development) confirm a seeded change and run checks against it, in scratch copies only.

  tools/seedrun.py <seed-id> [--checks C09,C03] [--tier quick] [--no-tests] [--keep-meta]

1. scratch worktree of /repo (under /tmp/seedrun/<id>/repo), patch applied there
2. the repository's own test-suite must still pass with the patch
3. the demonstration must fail with the patch and pass without it
4. a scratch copy of /verif is run against the patched worktree (VERIF_REPO), so /repo itself
   and /verif/lean/MoSql/Gen are never touched; exit codes and VIOLATION lines are collected
5. everything under /tmp/seedrun/<id> is removed again
The outcome is merged into seeded/<id>/meta.json.
"""
import argparse
import json
import os
import re
import shutil
import subprocess
import sys
import time

V = os.path.dirname(os.path.dirname(os.path.abspath(__file__)))
PY = "/venv/bin/python"


def sh(cmd, cwd=None, env=None, timeout=3600):
    p = subprocess.run(cmd, cwd=cwd, env=env, capture_output=True, text=True, timeout=timeout, shell=isinstance(cmd, str))
    return p.returncode, (p.stdout or "") + (p.stderr or "")


def run_demo(sd, wt):
    """demo scripts carry the path of the worktree they were written in; point them at ours"""
    out = []
    for fn in sorted(os.listdir(sd)):
        if not (fn.startswith("demo") and fn.endswith(".py")):
            continue
        src = open(os.path.join(sd, fn)).read()
        src = re.sub(r"/tmp/[A-Za-z0-9_\-./]*?(?=[\"'])", lambda m: wt if "mo_sql_parsing" not in m.group(0) else m.group(0), src)
        tmp = os.path.join(os.path.dirname(wt), "run_" + fn)
        open(tmp, "w").write(src)
        env = dict(os.environ, PYTHONPATH=wt)
        try:
            rc, log = sh([PY, "-W", "ignore", tmp], cwd=wt, env=env, timeout=900)
        except subprocess.TimeoutExpired:
            rc, log = 124, "timeout"
        out.append((fn, rc, log[-1500:]))
    return out


def main():
    ap = argparse.ArgumentParser()
    ap.add_argument("seed")
    ap.add_argument("--checks", default=None)
    ap.add_argument("--tier", default="quick")
    ap.add_argument("--no-tests", action="store_true")
    ap.add_argument("--seedval", default="0")
    ap.add_argument("--dir", default="seeded", help="seeded (property-breaking changes) or harmless (behaviour-preserving refactorings)")
    a = ap.parse_args()
    sd = os.path.join(V, a.dir, a.seed)
    prop = a.seed.split("-")[0]
    checks = a.checks.split(",") if a.checks else [prop]
    base = "/tmp/seedrun/" + a.seed
    shutil.rmtree(base, ignore_errors=True)
    os.makedirs(base)
    wt = os.path.join(base, "repo")
    res = {"property": prop, "seed": a.seed}
    try:
        rc, log = sh(["git", "-C", "/repo", "worktree", "add", "--detach", wt, "HEAD"])
        if rc:
            print(log)
            return 2
        rc, log = sh(["git", "-C", wt, "apply", os.path.join(sd, "patch.diff")])
        res["applies"] = rc == 0
        if rc:
            print("patch does not apply:", log)
            res["apply_log"] = log[-800:]
            return 3
        if not a.no_tests:
            t0 = time.time()
            rc, log = sh([PY, "-m", "pytest", "-q", "-p", "no:cacheprovider", "-x", "--timeout=900"], cwd=wt)
            tail = [l for l in log.splitlines() if "passed" in l or "failed" in l][-1:]
            res["suite_with_patch"] = {"exit": rc, "summary": tail[0] if tail else log[-300:], "secs": round(time.time() - t0)}
            print("suite:", res["suite_with_patch"])
        d1 = run_demo(sd, wt)
        sh(["git", "-C", wt, "apply", "-R", os.path.join(sd, "patch.diff")])
        d0 = run_demo(sd, wt)
        sh(["git", "-C", wt, "apply", os.path.join(sd, "patch.diff")])
        res["demo_with_patch"] = [{"file": f, "exit": rc} for f, rc, _ in d1]
        res["demo_without_patch"] = [{"file": f, "exit": rc} for f, rc, _ in d0]
        print("demo with patch:", [(f, rc) for f, rc, _ in d1], " without:", [(f, rc) for f, rc, _ in d0])
        if d1 and d1[0][1] != 0:
            print("   ", d1[0][2].strip().splitlines()[-3:])
        # scratch copy of /verif
        vf = os.path.join(base, "verif")
        sh(["rsync", "-a", "--exclude", ".git", "--exclude", "replays", "--exclude", "seeded", V + "/", vf + "/"])
        env = dict(os.environ, VERIF_REPO=wt, VERIF_SEED=a.seedval)
        res["checks"] = {}
        for c in checks:
            t0 = time.time()
            try:
                rc, log = sh([os.path.join(vf, "check"), c, "--tier", a.tier], cwd=vf, env=env, timeout=3000)
            except subprocess.TimeoutExpired:
                rc, log = 124, "timeout"
            lines = [l for l in log.splitlines() if l.startswith("VIOLATION")]
            lines = [l.replace(vf, "<verif>") for l in lines]
            res["checks"][c] = {"exit": rc, "violations": lines[:6], "secs": round(time.time() - t0)}
            print("check %s: exit %d  %s" % (c, rc, lines[:3]))
            if rc == 2:
                print(log[-1500:])
            # keep the first replay for the record
            for l in lines[:1]:
                m = re.search(r"replay=(\S+)", l)
                if m:
                    p = m.group(1).replace("<verif>", vf)
                    if os.path.exists(p):
                        try:
                            rp = json.load(open(p))
                            res["checks"][c]["replay_excerpt"] = json.dumps(rp, ensure_ascii=False)[:600]
                        except Exception:
                            pass
    finally:
        sh(["git", "-C", "/repo", "worktree", "remove", "--force", wt])
        shutil.rmtree(base, ignore_errors=True)
        sh(["git", "-C", "/repo", "worktree", "prune"])
    mp = os.path.join(sd, "meta.json")
    meta = json.load(open(mp)) if os.path.exists(mp) else {}
    meta.setdefault("property", prop)
    runs = meta.setdefault("runs", {})
    for k in ("applies", "suite_with_patch", "demo_with_patch", "demo_without_patch"):
        if k in res:
            meta[k] = res[k]
    for c, r in res.get("checks", {}).items():
        runs["%s/%s" % (c, a.tier)] = r
    json.dump(meta, open(mp, "w"), indent=1, ensure_ascii=False)
    return 0


if __name__ == "__main__":
    sys.exit(main())
