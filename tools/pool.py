"""Statement pool shared by the model-free oracles: the vendored corpus plus generated statements."""
import corpus
import gen_expr as G

POSITIONS = [
    "SELECT {e}",
    "SELECT {e} AS x9 FROM t9",
    "SELECT a9 FROM t9 WHERE {e}",
    "SELECT a9 FROM t9 GROUP BY {e}",
    "SELECT a9 FROM t9 ORDER BY {e}",
    "SELECT f9 ( {e} , 1 ) FROM t9",
    "UPDATE t9 SET a9 = {e}",
    "DELETE FROM t9 WHERE {e}",
    "INSERT INTO t9 ( a9 ) VALUES ( {e} )",
    "SELECT CASE WHEN {e} THEN 1 ELSE 2 END",
    "SELECT a9 FROM t9 JOIN u9 ON {e}",
    "WITH w9 AS ( SELECT {e} ) SELECT * FROM w9",
]


def expr_statements(ctx, n, depth=(1, 2, 3), null_rate=None, styles=("minimal", "redundant")):
    g = G.ExprGen(ctx.rng, [o["key"] for o in ctx.gen["ops"]])
    texts = G.op_text(ctx.gen["ops"])
    out = []
    for i in range(n):
        g.n = 0
        s = g.random(ctx.rng.choice(depth))
        e = G.write(s, ctx.rng.choice(styles), ctx.rng)
        sql = ctx.rng.choice(POSITIONS).format(e=G.render(e, texts))
        out.append({"sql": sql, "dialect": "common", "origin": "gen-expr", "e": e})
    return out


EXTRA = [
    "select f(null)", "select f(null, null)", "select coalesce(null, null, 1)", "select f(a, null) from t",
    "select a in (null, 1, null) from t", "select null + null", "select x between null and null from t",
    "select case when a is null then null else b end from t", "select nullif(null, null)",
    "insert into t (a, b) values (null, 1), (2, null)", "update t set a = null, b = f(null) where c is not null",
    "select f(x => null)", "select count(*) from t", "select * from t", "select t.* from t", "select distinct a, b from t",
    "select a from t union select b from u union select c from v order by 1 limit 3",
    "select sum(x) over (partition by a order by b rows between 2 preceding and current row) from t",
    "create table t (a int not null default null, b varchar(10) default 'x', primary key (a))",
    "delete from t", "select cast(null as int)", "select a from t where b = null or null = c",
    "select trim(both ' ' from a)", "select extract(year from d) from t", "select interval 3 day",
    "select a.b.c, \"x y\".z from \"my table\" as q", "select `a` from `t`", "select [1, 2, 3]",
    "select a from t1 left join t2 on t1.x = t2.y cross join t3", "select a from t limit 10 offset 5",
    "select top 5 a from t", "select a from t tablesample bernoulli (10)",
    # NULL inside the parts that parse actions simplify on their own (frame bounds are scrubbed inside windows.py)
    "select sum(x) over (order by y range between coalesce(w, null) preceding and current row) from t",
    "select sum(x) over (order by y range f(null) preceding) from t",
    "select sum(x) over (partition by f(null) order by coalesce(null, y) rows between 1 preceding and 1 following) from t",
]


# scripts: several chunks (DELIMITER) and several statements per chunk, with NULLs and calls in non-final positions
SCRIPTS = [
    "delimiter $$\nselect f(null), null from t $$\nselect 2 $$\n",
    "delimiter //\nselect null //\nselect g(null, 1) //\nselect 3 //\n",
    "select f(null); select null; select 3",
    "delimiter $$\nselect a from t where b is null $$\ndelimiter ;\nselect coalesce(null, null, 1); select null",
    "select null;\nselect f(null);\n",
    "delimiter |\ninsert into t (a, b) values (null, 1), (2, null) |\nupdate t set a = null |\nselect 1 |\n",
    # statements that simplify to nothing next to statements that do not (an empty block is a legal no-op),
    # routines and blocks among ordinary statements of a `;`-separated script
    "begin end", "select 1; begin end; select 2", "select 1; begin end", "begin select 1; begin end; end",
    "if a then select 1; begin end; end if", "begin begin end; end", "begin end; begin end; select f(null)",
    "select 0; create procedure p() select 1; select 2", "create procedure p() select 1; create procedure q() select 2",
    "create function f(a int) returns int return a + 1; select f(null)", "select null; create procedure p() begin select 1; select null; end; select 3",
    "delimiter $$\ncreate procedure p() begin select 1; end $$\ndelimiter ;\nselect 2; create procedure q() select 3; select 4",
    "begin select 1; end; select 2; begin select null; select 3; end",
]


def scripts():
    return [{"sql": s, "dialect": "common", "origin": "script"} for s in SCRIPTS]


def statements(ctx, n_gen=400, with_corpus=True):
    out = []
    if with_corpus:
        out += [dict(x, origin="corpus") for x in corpus.load()]
    out += [{"sql": s, "dialect": "common", "origin": "extra"} for s in EXTRA]
    out += expr_statements(ctx, n_gen)
    return out
