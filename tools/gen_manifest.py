#!/usr/bin/env python3
"""writes MANIFEST.json from the table below (kept next to the checks so that it cannot drift)"""
import json, os
V = os.path.dirname(os.path.dirname(os.path.abspath(__file__)))
props = [json.loads(l) for l in open(os.path.join(V, "properties.jsonl"))]
CLAIMED = json.load(open(os.path.join(V, "tools", "claims.json")))
checks = []
na = []
for p in props:
    pid = p["id"]
    c = CLAIMED.get(pid)
    if not c or c.get("not_applicable"):
        na.append({"property_id": pid, "reason": (c or {}).get("not_applicable", "check not built yet in this round")})
        continue
    checks.append({
        "property_id": pid,
        "quick_cmd": "./check %s --tier quick" % pid,
        "thorough_cmd": "./check %s --tier thorough" % pid,
        "evidence_file": "evidence/%s.json" % pid,
        "replay_cmd_template": "./check %s --replay {path}" % pid,
        "engine": "lean4-models",
        "level_claimed": {"category": "proof", "text": c["text"], "design_ref": c.get("design_ref", "DESIGN.md §5 " + pid)},
        "level_note": c["note"],
        "technique": c["technique"],
    })
m = {
    "version": 1,
    "setup_cmd": "./setup.sh",
    "hooks": {
        "guard": "MO_SQL_PARSING_VERIF",
        "enable": "no source hooks are needed: the translator wraps mo_parsing.infix_notation from outside and the "
                  "harness calls the real parse/format/_parse in-process; the variable is set by the checks but /repo does not read it",
        "baseline_off_cmd": "cd /repo && /venv/bin/python -m pytest -ra -q -p no:cacheprovider --timeout=900 --continue-on-collection-errors",
        "source_commits": [],
        "add_only": True,
    },
    "engines": [{
        "name": "lean4-models",
        "path": "lean/",
        "serves_properties": [c["property_id"] for c in checks],
        "kind_free_text": "Lean 4 models of the pure layers + theorems (lake build, #print axioms audit); tables regenerated from "
                          "/repo by tools/extract.py on every run; line-protocol correspondence against the real parse/format",
    }],
    "checks": checks,
    "not_applicable": na,
    "notes": "see DESIGN.md; known findings of the unchanged tree are listed in known_findings.json",
}
json.dump(m, open(os.path.join(V, "MANIFEST.json"), "w"), indent=1)
print(len(checks), "claimed;", len(na), "not claimed")
