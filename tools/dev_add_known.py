#!/venv/bin/python
"""DEVELOPMENT ONLY (never run by a check): add the violations of the last run of one
property (replays/<ID>-violation-*.json) to known_findings.json after manual review."""
import glob, json, os, sys, subprocess
V = os.path.dirname(os.path.dirname(os.path.abspath(__file__)))
pid = sys.argv[1]
only = sys.argv[2:] 
path = os.path.join(V, "known_findings.json")
try:
    d = json.load(open(path))
except FileNotFoundError:
    d = {"findings": [], "fixed": []}
have = {(f["property"], f["key"]) for f in d["findings"]}
sha = subprocess.run(["git", "-C", "/repo", "rev-parse", "--short", "HEAD"], capture_output=True, text=True).stdout.strip()
n = 0
try:
    observed = json.load(open(os.path.join(V, "evidence", pid + ".json")))["coverage"].get("findings_observed", {})
except Exception:
    observed = {}
for f in sorted(glob.glob(os.path.join(V, "replays", pid + "-violation-*.json"))):
    r = json.load(open(f))
    if only and not any(r["key"].startswith(o) for o in only):
        continue
    if "/" in r["key"] and r["key"].split("/")[0] in {k for p_, k in have if p_ == pid}:
        # a new sub-case of a covered rule: extend its covers list
        base, sub = r["key"].split("/", 1)
        for f2 in d["findings"]:
            if f2["property"] == pid and f2["key"] == base:
                f2.setdefault("covers", []).append(sub)
                f2["covers"].sort()
                n += 1
        continue
    if (pid, r["key"]) in have:
        continue
    ex = {k: v for k, v in r.items() if k in ("sql", "tree", "input", "history", "case")}
    entry = {"property": pid, "key": r["key"], "what": r["what"][:400], "example": ex, "since": sha}
    subs = [x for x in observed.get(r["key"], []) if x]
    if subs:
        entry["covers"] = subs
    d["findings"].append(entry)
    have.add((pid, r["key"]))
    n += 1
d["findings"].sort(key=lambda f: (f["property"], f["key"]))
json.dump(d, open(path, "w"), indent=1, sort_keys=True, ensure_ascii=False)
print("added", n)
