"""Reference vocabulary written from the property texts (not from the code).

These are the operator spellings the properties talk about.  The translator looks each of
them up in the operator table that the *current* source passes to `infix_notation`; a
spelling that no longer finds a level is a broken tie (reported), never silently skipped.
"""

# (key, surface text) ; key is what generators and known-findings use
BINARY = [
    ("||", "||"), ("->>", "->>"), ("@>", "@>"), ("<@", "<@"),
    ("?|", "?|"), ("?&", "?&"),
    ("*", "*"), ("/", "/"), ("%", "%"), ("+", "+"), ("-", "-"), ("&", "&"), ("|", "|"),
    (">=", ">="), ("<=", "<="), ("<", "<"), (">", ">"),
    ("==", "=="), ("=", "="), ("!=", "!="), ("<>", "<>"),
    ("is distinct from", "IS DISTINCT FROM"), ("<=>", "<=>"), ("is not distinct from", "IS NOT DISTINCT FROM"),
    ("at time zone", "AT TIME ZONE"),
    ("in", "IN"), ("not in", "NOT IN"), ("is not", "IS NOT"), ("is", "IS"),
    ("like", "LIKE"), ("ilike", "ILIKE"), ("not like", "NOT LIKE"), ("not ilike", "NOT ILIKE"),
    ("rlike", "RLIKE"), ("not rlike", "NOT RLIKE"), ("similar to", "SIMILAR TO"), ("not similar to", "NOT SIMILAR TO"),
    ("and", "AND"), ("or", "OR"), (":=", ":="),
    ("!~*", "!~*"), ("!~", "!~"), ("~*", "~*"), ("~", "~"), ("regexp", "REGEXP"), ("not regexp", "NOT REGEXP"),
    ("collate", "COLLATE"),
]
PREFIX = [("u+", "+"), ("u-", "-"), ("u~", "~"), ("not", "NOT")]
TERNARY = [("between", "BETWEEN", "AND"), ("not between", "NOT BETWEEN", "AND")]
CAST = [("::", "::")]

# documented operator names (README "Notes" / tests): spelling key -> JSON name
DOCUMENTED_NAME = {
    "||": "concat", "->>": "json_get_text",
    "@>": "json_subsumes", "<@": "json_subsumed_by", "?|": "json_contains_any", "?&": "json_contains_all",
    "*": "mul", "/": "div", "%": "mod", "+": "add", "-": "sub", "&": "binary_and", "|": "binary_or",
    ">=": "gte", "<=": "lte", "<": "lt", ">": "gt", "==": "eq", "=": "eq", "!=": "neq", "<>": "neq",
    "is distinct from": "eq!", "<=>": "eq!", "is not distinct from": "ne!",
    "at time zone": "at_time_zone", "in": "in", "not in": "nin", "is not": "neq", "is": "eq",
    "like": "like", "ilike": "ilike", "not like": "not_like", "not ilike": "not_ilike",
    "rlike": "rlike", "not rlike": "not_rlike", "similar to": "similar_to", "not similar to": "not_similar_to",
    "and": "and", "or": "or", ":=": "assign",
    "!~*": "not_regexp_i", "!~": "not_regexp", "~*": "regexp_i", "~": "regexp", "regexp": "regexp",
    "not regexp": "not_regexp", "collate": "collate",
    "u+": "pos", "u-": "neg", "u~": "binary_not", "not": "not",
    "between": "between", "not between": "not_between", "::": "cast",
}

# chains of these are flattened into one n-ary node (property C01)
FLATTENED = ["add", "mul", "and", "or", "concat", "binary_and", "binary_or"]

# The reference operator order of C01: SQLite's (https://www.sqlite.org/lang_expr.html), refined by
# the library's own positions for IS / IN / LIKE-family / BETWEEN / COLLATE / :: / json operators.
# Each inner list is one precedence class, tightest first.  Only the RELATIVE order of the names that
# SQLite fixes is demanded; see MoSql/Ref.lean for the exact statement.
SQLITE_ORDER = [
    ["binary_not", "pos", "neg"],
    ["concat", "json_get", "json_get_text"],
    ["mul", "div", "mod"],
    ["add", "sub"],
    ["binary_and", "binary_or"],
    ["lt", "lte", "gt", "gte"],
    ["eq", "neq"],
    ["not"],
    ["and"],
    ["or"],
]

# Reference precedence classes for expression operators, tightest first (see SQLITE_ORDER above):
# SQLite's classes, with the library's own sub-order inside SQLite's big "equality" class for
# IS / IN / LIKE-family / BETWEEN, plus the library-only operators where the library puts them.
# (kind, [operator keys])
REF_LEVELS = [
    ("suf", ["::"], "cast"),
    ("bin", ["collate"], "collate"),
    ("pre", ["u~", "u+", "u-"], None),  # SQLite: one class; label None = members are named individually in finding keys
    ("bin", ["||"], "concat"),
    ("bin", ["->>", "@>", "<@", "?|", "?&"], "json"),  # library-only position (right below ||)
    ("bin", ["*", "/", "%"], "mul"),
    ("bin", ["+", "-"], "add"),
    ("bin", ["&", "|"], None),
    ("bin", ["<", "<=", ">", ">="], "cmp"),
    ("bin", ["=", "==", "<>", "!=", "is distinct from", "<=>", "is not distinct from"], "eq"),
    ("bin", ["at time zone"], "at_time_zone"),
    ("tern", ["between"], "between"),
    ("tern", ["not between"], "not_between"),
    ("bin", ["in"], "in"),
    ("bin", ["not in"], "nin"),
    ("bin", ["is not"], "is_not"),
    ("bin", ["is"], "is"),
    ("bin", ["like"], "like"),
    ("bin", ["ilike"], "ilike"),
    ("bin", ["not like"], "not_like"),
    ("bin", ["not ilike"], "not_ilike"),
    ("bin", ["rlike"], "rlike"),
    ("bin", ["not rlike"], "not_rlike"),
    ("bin", ["similar to"], "similar_to"),
    ("bin", ["not similar to"], "not_similar_to"),
    ("bin", ["regexp", "not regexp", "~", "~*", "!~", "!~*"], "regexp"),
    ("pre", ["not"], "not"),
    ("bin", ["and"], "and"),
    ("bin", ["or"], "or"),
    ("bin", [":="], "assign"),
]


def ref_level_of():
    out = {}
    for i, (kind, keys, label) in enumerate(REF_LEVELS):
        for k in keys:
            out[k] = (i, kind)
    return out


def ref_label_of():
    """operator key -> label used in finding keys (class label, or the operator's own name for
    reference classes that the library is known to split)"""
    out = {}
    for kind, keys, label in REF_LEVELS:
        for k in keys:
            out[k] = label if label is not None else DOCUMENTED_NAME[k]
    return out
